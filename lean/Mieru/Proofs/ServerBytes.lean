import Mieru.Model.ServerBytes
import Mieru.Proofs.Server
/-!
# Byte-level first contact: what cannot open stays silent

Lemmas behind the composed C05 theorems (`Mieru.Props.C05.tcp_bytes_silent`, `udp_bytes_dropped`):
if no candidate key of a registered user opens the first header of a stream, the byte-level parser
produces exactly one unit and that unit has `opens = none`; a datagram whose header opens under no
registered key and no live session's key becomes a unit with `existing = discover = none`.
-/
namespace Mieru.Proofs.ServerBytes
open Mieru Mieru.Spec Mieru.Server Mieru.ServerBytes

theorem selectKey_none (A : AeadFns) (nonce mct : Bytes) (ks : List Bytes)
    (h : ∀ k ∈ ks, A.openF k nonce mct = none) : selectKey A nonce mct ks = none := by
  induction ks with
  | nil => rfl
  | cons k ks ih =>
    simp only [selectKey, h k (List.mem_cons_self ..)]
    exact ih fun k' hk' => h k' (List.mem_cons_of_mem _ hk')

theorem openUnder_none (A : AeadFns) (nonce mct : Bytes) (users : List User)
    (h : ∀ u ∈ users, ∀ k ∈ u.keys, A.openF k nonce mct = none) : openUnder A nonce mct users = none := by
  induction users with
  | nil => rfl
  | cons u us ih =>
    simp only [openUnder, selectKey_none A nonce mct u.keys (h u (List.mem_cons_self ..))]
    exact ih fun u' hu' => h u' (List.mem_cons_of_mem _ hu')

/-- the converse direction used for non-vacuity: whoever `openUnder` names is a registered user one of
    whose candidate keys opened the metadata to exactly the returned bytes -/
theorem selectKey_some (A : AeadFns) (nonce mct : Bytes) (ks : List Bytes) (k mb : Bytes)
    (h : selectKey A nonce mct ks = some (k, mb)) : k ∈ ks ∧ A.openF k nonce mct = some mb := by
  induction ks with
  | nil => simp [selectKey] at h
  | cons k0 ks ih =>
    simp only [selectKey] at h
    cases ho : A.openF k0 nonce mct with
    | some mb0 =>
      rw [ho] at h
      simp only [Option.some.injEq, Prod.mk.injEq] at h
      obtain ⟨rfl, rfl⟩ := h
      exact ⟨List.mem_cons_self .., ho⟩
    | none =>
      rw [ho] at h
      obtain ⟨h1, h2⟩ := ih h
      exact ⟨List.mem_cons_of_mem _ h1, h2⟩

theorem openUnder_sound (A : AeadFns) (nonce mct : Bytes) (users : List User) (uid : Nat) (k mb : Bytes)
    (h : openUnder A nonce mct users = some (uid, k, mb)) :
    ∃ u ∈ users, u.id = uid ∧ k ∈ u.keys ∧ A.openF k nonce mct = some mb := by
  induction users with
  | nil => simp [openUnder] at h
  | cons u us ih =>
    simp only [openUnder] at h
    cases hs : selectKey A nonce mct u.keys with
    | some r =>
      obtain ⟨k0, mb0⟩ := r
      rw [hs] at h
      simp only [Option.some.injEq, Prod.mk.injEq] at h
      obtain ⟨rfl, rfl, rfl⟩ := h
      obtain ⟨h1, h2⟩ := selectKey_some A nonce mct u.keys k0 mb0 hs
      exact ⟨u, List.mem_cons_self .., rfl, h1, h2⟩
    | none =>
      rw [hs] at h
      obtain ⟨u', hu', r⟩ := ih h
      exact ⟨u', List.mem_cons_of_mem _ hu', r⟩

/-- first read of a stream whose header opens under no registered key (or is too short to be read):
    exactly one unit, and it opens under nobody -/
theorem tcpUnitsAux_first_none (A : AeadFns) (users : List User) (nowMin : Nat) (dup : Bool) (fuel : Nat)
    (buf : Bytes) (eof : Bool)
    (h : openUnder A (buf.take nonceSize) ((buf.drop nonceSize).take laterReadLen) users = none) :
    ∃ u, tcpUnitsAux A users nowMin dup (fuel + 1) none buf eof = [u] ∧ u.opens = none := by
  unfold tcpUnitsAux
  by_cases hl : buf.length < firstReadLen
  · simp [hl]
  · simp [hl, h]

theorem tcpUnits_first_none (A : AeadFns) (users : List User) (nowMin : Nat) (dup : Bool)
    (stream : Bytes) (eof : Bool)
    (h : openUnder A (stream.take nonceSize) ((stream.drop nonceSize).take laterReadLen) users = none) :
    ∃ u, tcpUnits A users nowMin dup stream eof = [u] ∧ u.opens = none :=
  tcpUnitsAux_first_none A users nowMin dup _ stream eof h

/-- a datagram whose header opens under no live session's key and no registered key -/
theorem udpUnit_none (A : AeadFns) (users : List User) (existing : List (Nat × Bytes)) (nowMin : Nat)
    (dup : Bool) (d : Bytes)
    (hex : ∀ e ∈ existing, A.openF e.2 (d.take nonceSize) ((d.drop nonceSize).take laterReadLen) = none)
    (h : openUnder A (d.take nonceSize) ((d.drop nonceSize).take laterReadLen) users = none) :
    (udpUnit A users existing nowMin dup d).existing = none ∧
    (udpUnit A users existing nowMin dup d).discover = none := by
  have hf : (existing.findSome? fun (x : Nat × Bytes) =>
      (A.openF x.2 (d.take nonceSize) ((d.drop nonceSize).take laterReadLen)).map fun mb => (x.1, x.2, mb)) = none := by
    rw [List.findSome?_eq_none_iff]
    intro e he
    simp [hex e he]
  unfold udpUnit
  by_cases hl : d.length < packetHeaderLen
  · simp [hl]
  · simp only [hl, if_false]
    rw [hf]
    simp [h]

end Mieru.Proofs.ServerBytes
