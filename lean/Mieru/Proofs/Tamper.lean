import Mieru.Model.Tamper
import Mieru.Proofs.StreamWire
/-!
# The stream receiver under an ideal AEAD, for arbitrary input (helper file for Props/C04)
-/
namespace Mieru.Tamper
open Mieru Mieru.StreamWire

/-! ## The raw-function receivers are the receivers of `Mieru.StreamWire` -/

theorem parseOne_eq (A : Aead) (M : MetaCodec) (c : Nat) (buf : Bytes) :
    parseOne A M c buf = parseOneF A.openF M c buf := rfl

theorem drain_eq (A : Aead) (M : MetaCodec) (fuel : Nat) (r : Rx) :
    drain A M fuel r = drainF A.openF M fuel r := by
  induction fuel generalizing r with
  | zero => rfl
  | succ n ih =>
    unfold drain drainF
    rw [parseOne_eq]
    by_cases hd : r.dead = true
    · simp [hd]
    · simp only [hd]
      cases hp : parseOneF A.openF M r.c r.buf <;> simp [ih]

theorem feed_eq (A : Aead) (M : MetaCodec) (fuel : Nat) (r : Rx) (bs : Bytes) :
    feed A M fuel r bs = feedF A.openF M fuel r bs := by
  induction bs generalizing r with
  | nil => rfl
  | cons b t ih =>
    simp only [feed, feedF, List.foldl_cons] at ih ⊢
    have : feedByte A M fuel r b = feedByteF A.openF M fuel r b := by
      unfold feedByte feedByteF; exact drain_eq A M fuel _
    rw [this]; exact ih _

/-! ## Counters and the honest sealing history -/

variable (M : MetaCodec)

theorem ctr_ge (c : Nat) (l : List Seg) : c ≤ ctr c l := by
  induction l generalizing c with
  | nil => simp [ctr]
  | cons s ss ih =>
    unfold ctr
    by_cases hp : s.payload = []
    · simp only [hp, if_true]; have := ih (c + 1); omega
    · simp only [hp, if_false]; have := ih (c + 2); omega

theorem ctr_append (c : Nat) (l1 l2 : List Seg) : ctr c (l1 ++ l2) = ctr (ctr c l1) l2 := by
  induction l1 generalizing c with
  | nil => simp [ctr]
  | cons s ss ih => simp only [List.cons_append, ctr]; exact ih _

theorem ctr_take_succ (c : Nat) (segs : List Seg) (j : Nat) (s : Seg) (h : segs[j]? = some s) :
    ctr c (segs.take (j + 1)) = if s.payload = [] then ctr c (segs.take j) + 1 else ctr c (segs.take j) + 2 := by
  rw [List.take_add_one, h, ctr_append]
  simp only [Option.toList, ctr]

theorem honest_ge {c : Nat} {segs : List Seg} {n : Nat} {p : Bytes} (h : honest M c segs n p) : c ≤ n := by
  induction segs generalizing c with
  | nil => simp [honest] at h
  | cons s ss ih =>
    unfold honest at h
    rcases h with ⟨h1, _⟩ | ⟨_, h1, _⟩ | h3
    · omega
    · omega
    · have := ih h3
      by_cases hp : s.payload = []
      · simp only [hp, if_true] at this; omega
      · simp only [hp, if_false] at this; omega

/-- under the counter at a segment boundary the sender sealed exactly that segment's metadata -/
theorem honest_at {c : Nat} {segs : List Seg} {n : Nat} {p : Bytes} (h : honest M c segs n p)
    (j : Nat) (hn : n = ctr c (segs.take j)) : ∃ s, segs[j]? = some s ∧ p = M.enc s.md := by
  induction segs generalizing c j with
  | nil => simp [honest] at h
  | cons s ss ih =>
    unfold honest at h
    cases j with
    | zero =>
      simp only [List.take_zero, ctr] at hn
      rcases h with ⟨_, h2⟩ | ⟨_, h1, _⟩ | h3
      · exact ⟨s, by simp, h2⟩
      · omega
      · have := honest_ge M h3
        by_cases hp : s.payload = []
        · simp only [hp, if_true] at this; omega
        · simp only [hp, if_false] at this; omega
    | succ j =>
      simp only [List.take_succ_cons, ctr] at hn
      by_cases hp0 : s.payload = []
      · simp only [hp0, if_true] at hn h
        have hge := ctr_ge (c + 1) (ss.take j)
        rcases h with ⟨h1, _⟩ | ⟨hp, _, _⟩ | h3
        · omega
        · exact absurd rfl hp
        · obtain ⟨s', hs', hp'⟩ := ih h3 j hn
          exact ⟨s', by simpa using hs', hp'⟩
      · simp only [hp0, if_false] at hn h
        have hge := ctr_ge (c + 2) (ss.take j)
        rcases h with ⟨h1, _⟩ | ⟨_, h1, _⟩ | h3
        · omega
        · omega
        · obtain ⟨s', hs', hp'⟩ := ih h3 j hn
          exact ⟨s', by simpa using hs', hp'⟩

/-- … and under the next counter that segment's payload, if it has one -/
theorem honest_at_pay {c : Nat} {segs : List Seg} {n : Nat} {p : Bytes} (h : honest M c segs n p)
    (j : Nat) (s : Seg) (hs : segs[j]? = some s) (hne : s.payload ≠ []) (hn : n = ctr c (segs.take j) + 1) :
    p = s.payload := by
  induction segs generalizing c j with
  | nil => simp at hs
  | cons s0 ss ih =>
    unfold honest at h
    cases j with
    | zero =>
      simp only [List.getElem?_cons_zero, Option.some.injEq] at hs
      subst hs
      simp only [List.take_zero, ctr] at hn
      rcases h with ⟨h1, _⟩ | ⟨_, _, h2⟩ | h3
      · omega
      · exact h2
      · have := honest_ge M h3
        simp only [hne, if_false] at this
        omega
    | succ j =>
      simp only [List.getElem?_cons_succ] at hs
      simp only [List.take_succ_cons, ctr] at hn
      by_cases hp0 : s0.payload = []
      · simp only [hp0, if_true] at hn h
        have hge := ctr_ge (c + 1) (ss.take j)
        rcases h with ⟨h1, _⟩ | ⟨hp, _, _⟩ | h3
        · omega
        · exact absurd rfl hp
        · exact ih h3 j hs hn
      · simp only [hp0, if_false] at hn h
        have hge := ctr_ge (c + 2) (ss.take j)
        rcases h with ⟨h1, _⟩ | ⟨_, h1, _⟩ | h3
        · omega
        · omega
        · exact ih h3 j hs hn

/-- every honest pair sits at a segment boundary (metadata) or right after one (payload) -/
theorem honest_cases {c : Nat} {segs : List Seg} {n : Nat} {p : Bytes} (h : honest M c segs n p) :
    ∃ j s, segs[j]? = some s ∧
      ((n = ctr c (segs.take j) ∧ p = M.enc s.md) ∨ (s.payload ≠ [] ∧ n = ctr c (segs.take j) + 1 ∧ p = s.payload)) := by
  induction segs generalizing c with
  | nil => simp [honest] at h
  | cons s ss ih =>
    unfold honest at h
    rcases h with ⟨h1, h2⟩ | ⟨hp, h1, h2⟩ | h3
    · exact ⟨0, s, by simp, Or.inl ⟨by simp [ctr, h1], h2⟩⟩
    · exact ⟨0, s, by simp, Or.inr ⟨hp, by simp [ctr, h1], h2⟩⟩
    · obtain ⟨j, s', hs', hc⟩ := ih h3
      refine ⟨j + 1, s', by simpa using hs', ?_⟩
      simp only [List.take_succ_cons, ctr]
      exact hc

/-! ## One parse step at a segment boundary -/

def evOf (s : Seg) : Md × Bytes := (s.md, s.payload)

theorem parse_at_boundary (openF : Nat → Bytes → Option Bytes) (c : Nat) (segs : List Seg)
    (hI : ∀ n ct p, openF n ct = some p → honest M c segs n p) (hw : ∀ s ∈ segs, s.wf M)
    (j : Nat) (buf : Bytes) :
    parseOneF openF M (ctr c (segs.take j)) buf = .need ∨
    parseOneF openF M (ctr c (segs.take j)) buf = .bad ∨
    ∃ s k, segs[j]? = some s ∧
      parseOneF openF M (ctr c (segs.take j)) buf = .ok s.md s.payload k (ctr c (segs.take (j + 1))) := by
  unfold parseOneF
  split
  · left; rfl
  · split
    · right; left; rfl
    · rename_i mb hmb
      obtain ⟨s, hs, hp⟩ := honest_at M (hI _ _ _ hmb) j rfl
      have hmem : s ∈ segs := List.mem_of_getElem? hs
      obtain ⟨hpl, _, _, hok⟩ := hw s hmem
      subst hp
      rw [M.dec_enc _ hok]
      simp only
      have hct := ctr_take_succ c segs j s hs
      split
      · rename_i hz
        have hnil : s.payload = [] := by
          apply List.eq_nil_of_length_eq_zero; omega
        split
        · left; rfl
        · right; right
          refine ⟨s, 48 + s.md.prefixLen + s.md.suffixLen, hs, ?_⟩
          rw [hct, hnil]; simp
      · rename_i hnz
        have hne : s.payload ≠ [] := by
          intro h0; rw [h0] at hpl; simp at hpl; exact hnz hpl
        split
        · left; rfl
        · split
          · right; left; rfl
          · rename_i p hp
            have := honest_at_pay M (hI _ _ _ hp) j s hs hne rfl
            subst this
            right; right
            refine ⟨s, 48 + s.md.prefixLen + (s.md.payloadLen + 16) + s.md.suffixLen, hs, ?_⟩
            rw [hct]; simp [hne]

/-! ## The invariant: what has been emitted is a prefix of what was sent -/

/-- emitted = the first `j` segments; while alive the counter is at that boundary -/
def PrefInv (c : Nat) (segs : List Seg) (r : Rx) : Prop :=
  ∃ j, j ≤ segs.length ∧ r.out = (segs.take j).map evOf ∧ (r.dead = false → r.c = ctr c (segs.take j))

theorem drainF_pref (openF : Nat → Bytes → Option Bytes) (c : Nat) (segs : List Seg)
    (hI : ∀ n ct p, openF n ct = some p → honest M c segs n p) (hw : ∀ s ∈ segs, s.wf M)
    (fuel : Nat) (r : Rx) (h : PrefInv c segs r) : PrefInv c segs (drainF openF M fuel r) := by
  induction fuel generalizing r with
  | zero => simpa [drainF] using h
  | succ n ih =>
    unfold drainF
    split
    · exact h
    · rename_i hd
      have hd' : r.dead = false := by simpa using hd
      obtain ⟨j, hj, hout, hc⟩ := h
      have hcj := hc hd'
      rw [hcj]
      rcases parse_at_boundary M openF c segs hI hw j r.buf with h1 | h1 | ⟨s, k, hs, h1⟩
      · rw [h1]; exact ⟨j, hj, hout, hc⟩
      · rw [h1]; exact ⟨j, hj, hout, by simp⟩
      · rw [h1]
        apply ih
        have hlt : j < segs.length := (List.getElem?_eq_some_iff.mp hs).1
        refine ⟨j + 1, hlt, ?_, fun _ => rfl⟩
        simp only
        rw [hout, List.take_add_one, hs]
        simp [evOf]

theorem feedF_pref (openF : Nat → Bytes → Option Bytes) (c : Nat) (segs : List Seg)
    (hI : ∀ n ct p, openF n ct = some p → honest M c segs n p) (hw : ∀ s ∈ segs, s.wf M)
    (fuel : Nat) (r : Rx) (bs : Bytes) (h : PrefInv c segs r) : PrefInv c segs (feedF openF M fuel r bs) := by
  induction bs generalizing r with
  | nil => simpa [feedF] using h
  | cons b t ih =>
    simp only [feedF, List.foldl_cons] at ih ⊢
    apply ih
    unfold feedByteF
    apply drainF_pref M openF c segs hI hw
    obtain ⟨j, hj, hout, hc⟩ := h
    exact ⟨j, hj, hout, hc⟩

/-! ## Failure is terminal -/

theorem drainF_dead (openF : Nat → Bytes → Option Bytes) (fuel : Nat) (r : Rx) (h : r.dead = true) :
    drainF openF M fuel r = r := by
  cases fuel with
  | zero => simp [drainF]
  | succ n => simp [drainF, h]

theorem feedF_dead (openF : Nat → Bytes → Option Bytes) (fuel : Nat) (r : Rx) (bs : Bytes) (h : r.dead = true) :
    (feedF openF M fuel r bs).dead = true ∧ (feedF openF M fuel r bs).out = r.out := by
  induction bs generalizing r with
  | nil => simp [feedF, h]
  | cons b t ih =>
    simp only [feedF, List.foldl_cons] at ih ⊢
    have hb : feedByteF openF M fuel r b = { r with buf := r.buf ++ [b] } := by
      unfold feedByteF
      exact drainF_dead M openF fuel _ h
    rw [hb]
    exact ih { r with buf := r.buf ++ [b] } h

/-! ## An attacker-chosen initial counter (the initial nonce travels in clear text)

If the receiver starts at a counter that is not the sender's, what it emits is still a contiguous
run of the sender's segments — starting at the segment whose boundary the counter names — provided no
payload plaintext is itself a block that parses as metadata. -/

def WinInv (c : Nat) (segs : List Seg) (j0 : Nat) (r : Rx) : Prop :=
  ∃ j, j0 ≤ j ∧ j ≤ segs.length ∧ r.out = ((segs.take j).drop j0).map evOf ∧ (r.dead = false → r.c = ctr c (segs.take j))

theorem drainF_win (openF : Nat → Bytes → Option Bytes) (c : Nat) (segs : List Seg)
    (hI : ∀ n ct p, openF n ct = some p → honest M c segs n p) (hw : ∀ s ∈ segs, s.wf M)
    (j0 fuel : Nat) (r : Rx) (h : WinInv c segs j0 r) : WinInv c segs j0 (drainF openF M fuel r) := by
  induction fuel generalizing r with
  | zero => simpa [drainF] using h
  | succ n ih =>
    unfold drainF
    split
    · exact h
    · rename_i hd
      have hd' : r.dead = false := by simpa using hd
      obtain ⟨j, hj0, hj, hout, hc⟩ := h
      have hcj := hc hd'
      rw [hcj]
      rcases parse_at_boundary M openF c segs hI hw j r.buf with h1 | h1 | ⟨s, k, hs, h1⟩
      · rw [h1]; exact ⟨j, hj0, hj, hout, hc⟩
      · rw [h1]; exact ⟨j, hj0, hj, hout, by simp⟩
      · rw [h1]
        apply ih
        have hlt : j < segs.length := (List.getElem?_eq_some_iff.mp hs).1
        refine ⟨j + 1, by omega, hlt, ?_, fun _ => rfl⟩
        simp only
        rw [hout, List.take_add_one, hs]
        simp only [Option.toList]
        rw [List.drop_append_of_le_length (by rw [List.length_take]; omega)]
        simp [evOf]

/-- a counter that names no segment boundary: nothing is ever emitted -/
theorem drainF_unaligned (openF : Nat → Bytes → Option Bytes) (c : Nat) (segs : List Seg)
    (hI : ∀ n ct p, openF n ct = some p → honest M c segs n p)
    (hdom : ∀ s ∈ segs, s.payload ≠ [] → M.dec s.payload = none)
    (c' : Nat) (hun : ∀ j, j ≤ segs.length → c' ≠ ctr c (segs.take j))
    (fuel : Nat) (r : Rx) (h : r.out = [] ∧ (r.dead = false → r.c = c')) :
    (drainF openF M fuel r).out = [] ∧ ((drainF openF M fuel r).dead = false → (drainF openF M fuel r).c = c') := by
  cases fuel with
  | zero => simpa [drainF] using h
  | succ n =>
    unfold drainF
    split
    · exact h
    · rename_i hd
      have hd' : r.dead = false := by simpa using hd
      have hc := h.2 hd'
      have key : parseOneF openF M r.c r.buf = .need ∨ parseOneF openF M r.c r.buf = .bad := by
        unfold parseOneF
        split
        · left; rfl
        · split
          · right; rfl
          · rename_i mb hmb
            obtain ⟨j, s, hs, hcase⟩ := honest_cases M (hI _ _ _ hmb)
            have hlt : j < segs.length := (List.getElem?_eq_some_iff.mp hs).1
            rcases hcase with ⟨hn, _⟩ | ⟨hne, _, hp⟩
            · exact absurd (hc ▸ hn) (hun j (by omega))
            · have := hdom s (List.mem_of_getElem? hs) hne
              rw [hp, this]
              right; rfl
      rcases key with k | k
      · rw [k]; exact h
      · rw [k]; exact ⟨h.1, by simp⟩

theorem feedF_win (openF : Nat → Bytes → Option Bytes) (c : Nat) (segs : List Seg)
    (hI : ∀ n ct p, openF n ct = some p → honest M c segs n p) (hw : ∀ s ∈ segs, s.wf M)
    (j0 fuel : Nat) (r : Rx) (bs : Bytes) (h : WinInv c segs j0 r) : WinInv c segs j0 (feedF openF M fuel r bs) := by
  induction bs generalizing r with
  | nil => simpa [feedF] using h
  | cons b t ih =>
    simp only [feedF, List.foldl_cons] at ih ⊢
    apply ih
    unfold feedByteF
    apply drainF_win M openF c segs hI hw
    obtain ⟨j, hj0, hj, hout, hc⟩ := h
    exact ⟨j, hj0, hj, hout, hc⟩

theorem feedF_unaligned (openF : Nat → Bytes → Option Bytes) (c : Nat) (segs : List Seg)
    (hI : ∀ n ct p, openF n ct = some p → honest M c segs n p)
    (hdom : ∀ s ∈ segs, s.payload ≠ [] → M.dec s.payload = none)
    (c' : Nat) (hun : ∀ j, j ≤ segs.length → c' ≠ ctr c (segs.take j))
    (fuel : Nat) (r : Rx) (bs : Bytes) (h : r.out = [] ∧ (r.dead = false → r.c = c')) :
    (feedF openF M fuel r bs).out = [] := by
  suffices H : (feedF openF M fuel r bs).out = [] ∧ ((feedF openF M fuel r bs).dead = false → (feedF openF M fuel r bs).c = c') from H.1
  induction bs generalizing r with
  | nil => simpa [feedF] using h
  | cons b t ih =>
    simp only [feedF, List.foldl_cons] at ih ⊢
    apply ih
    unfold feedByteF
    exact drainF_unaligned M openF c segs hI hdom c' hun fuel _ h

/-! ## The in-order check of the session layer -/

theorem inOrderRead_all (seqOf : Md → Nat) (base : Nat) (l : List (Md × Bytes))
    (h : ∀ i (hi : i < l.length), seqOf (l[i]).1 = base + i) : inOrderRead seqOf base l = l.map (·.2) := by
  induction l generalizing base with
  | nil => rfl
  | cons x xs ih =>
    obtain ⟨m, p⟩ := x
    have h0 := h 0 (by simp)
    simp only [List.getElem_cons_zero, Nat.add_zero] at h0
    simp only [inOrderRead, h0, if_true, List.map_cons]
    congr 1
    apply ih
    intro i hi
    have := h (i + 1) (by simp; omega)
    simp only [List.getElem_cons_succ] at this
    omega

/-- A contiguous run of a session's segments (numbered 0, 1, 2, …) passed through the in-order check
    yields a prefix of the session's payloads: all of the run if it starts at segment 0, nothing
    otherwise. -/
theorem inOrderRead_window (seqOf : Md → Nat) (l : List (Md × Bytes))
    (h : ∀ i (hi : i < l.length), seqOf (l[i]).1 = i) (j0 j : Nat) :
    ∃ k, inOrderRead seqOf 0 ((l.take j).drop j0) = (l.take k).map (·.2) := by
  cases j0 with
  | zero =>
    refine ⟨j, ?_⟩
    simp only [List.drop_zero]
    apply inOrderRead_all
    intro i hi
    simp only [List.getElem_take]
    rw [List.length_take] at hi
    simpa using h i (by omega)
  | succ j0 =>
    refine ⟨0, ?_⟩
    simp only [List.take_zero, List.map_nil]
    cases hw : (l.take j).drop (j0 + 1) with
    | nil => rfl
    | cons x xs =>
      obtain ⟨m, p⟩ := x
      have hlen : j0 + 1 < (l.take j).length := by
        have := congrArg List.length hw
        simp at this; simp; omega
      have hx : ((l.take j).drop (j0 + 1))[0]? = some (m, p) := by rw [hw]; rfl
      rw [List.getElem?_drop, Nat.add_zero] at hx
      have hl : j0 + 1 < l.length := by rw [List.length_take] at hlen; omega
      have hx' : l[j0 + 1]? = some (m, p) := by
        rw [List.getElem?_take] at hx
        split at hx
        · exact hx
        · simp at hx
      have hget : l[j0 + 1] = (m, p) := by
        have := List.getElem?_eq_getElem hl
        rw [this] at hx'; exact Option.some.inj hx'
      have hs := h (j0 + 1) hl
      rw [hget] at hs
      simp only [inOrderRead]
      have : ¬ seqOf m = 0 := by simp at hs; omega
      simp [this]

/-- a toy metadata codec (four one-byte fields) for the concrete examples -/
def toyCodecT : MetaCodec where
  enc m := [UInt8.ofNat m.prefixLen, UInt8.ofNat m.payloadLen, UInt8.ofNat m.suffixLen, UInt8.ofNat m.tag] ++ List.replicate 28 0
  dec b := match b with
    | a :: b :: c :: d :: _ => some ⟨a.toNat, b.toNat, c.toNat, d.toNat⟩
    | _ => none
  ok m := m.prefixLen < 256 && m.payloadLen < 256 && m.suffixLen < 256 && m.tag < 256
  enc_len := by intro m; simp
  dec_enc := by
    intro m h
    simp only [Bool.and_eq_true, decide_eq_true_eq] at h
    obtain ⟨⟨⟨h1, h2⟩, h3⟩, h4⟩ := h
    simp only [List.cons_append, List.nil_append, UInt8.toNat_ofNat']
    have e1 : m.prefixLen % 2 ^ 8 = m.prefixLen := Nat.mod_eq_of_lt (by omega)
    have e2 : m.payloadLen % 2 ^ 8 = m.payloadLen := Nat.mod_eq_of_lt (by omega)
    have e3 : m.suffixLen % 2 ^ 8 = m.suffixLen := Nat.mod_eq_of_lt (by omega)
    have e4 : m.tag % 2 ^ 8 = m.tag := Nat.mod_eq_of_lt (by omega)
    rw [e1, e2, e3, e4]

end Mieru.Tamper
