import Mieru.Proofs.LowEntropyWord
import Mieru.Proofs.LowEntropyCodec
import Mieru.Gen.LE
/-!
# The REGENERATED low-entropy definitions (`Mieru.Gen.LE`, translated from the Go source on every run)
# equal the hand-written model

* `pdepGeneric_eq` / `pextGeneric_eq`: the regenerated `UInt64` loops of pkg/mathext/bit.go never run out of
  fuel and compute the bit-by-bit PDEP / PEXT specification, for all 2^128 input pairs;
* `chunkMask_eq_gen`: `rotateLowEntropyMask` (with Go's `bits.RotateLeft64`) is the model's `chunkMask`;
* `validate_eq`, `encodedLen_eq`, `buildParams_eq`, `validRotation_eq`: parameter validation and the length law.

Core Lean only.  A change of the Go source changes `Gen/LE.lean` and these proofs stop building.
-/
namespace Mieru.LowEntropy
open Mieru Mieru.GoWord Mieru.Gen.LE

theorem u64_ne_zero_iff (a : UInt64) : a ≠ 0 ↔ a.toNat ≠ 0 := by
  constructor
  · intro h h0; apply h; apply UInt64.toNat_inj.1; simpa using h0
  · intro h h0; apply h; rw [h0]; rfl

theorem toNat_lowestBit (mask : UInt64) : (mask &&& (-mask)).toNat = lowestBit mask.toNat := by
  rw [UInt64.toNat_and, UInt64.toNat_neg]; rfl

theorem toNat_clearLowest (mask : UInt64) (h : mask ≠ 0) :
    (mask &&& (mask - 1)).toNat = mask.toNat &&& (mask.toNat - 1) := by
  rw [UInt64.toNat_and, UInt64.toNat_sub_of_le]
  · simp
  · rw [UInt64.le_iff_toNat_le]
    have := (u64_ne_zero_iff mask).1 h
    simp; omega

theorem toNat_shl1 (a : UInt64) : (a <<< (1 : UInt64)).toNat = (a.toNat <<< 1) % 2 ^ 64 := by
  rw [UInt64.toNat_shiftLeft]; simp

theorem pdepLoopU_sim : ∀ (fuel : Nat) (x mask result srcBit : UInt64),
    (pdepGeneric_loop1 fuel x mask result srcBit).map UInt64.toNat
      = pdepLoop fuel x.toNat mask.toNat srcBit.toNat result.toNat := by
  intro fuel
  induction fuel with
  | zero => intro x mask result srcBit; rfl
  | succ f ih =>
    intro x mask result srcBit
    unfold pdepGeneric_loop1 pdepLoop
    by_cases hm : mask = 0
    · subst hm; simp
    · have hm' : mask.toNat ≠ 0 := (u64_ne_zero_iff mask).1 hm
      rw [if_pos hm, if_neg hm']
      simp only
      by_cases hb : (x &&& srcBit) ≠ 0
      · have hb' : x.toNat &&& srcBit.toNat ≠ 0 := by
          have := (u64_ne_zero_iff _).1 hb; rwa [UInt64.toNat_and] at this
        rw [if_pos hb, if_pos hb', ih, toNat_clearLowest _ hm, toNat_shl1, UInt64.toNat_or, toNat_lowestBit]
      · have hb' : ¬ (x.toNat &&& srcBit.toNat ≠ 0) := by
          intro h; apply hb; apply (u64_ne_zero_iff _).2; rwa [UInt64.toNat_and]
        rw [if_neg hb, if_neg hb', ih, toNat_clearLowest _ hm, toNat_shl1]

theorem pextLoopU_sim : ∀ (fuel : Nat) (x mask result resultBit : UInt64),
    (pextGeneric_loop1 fuel x mask result resultBit).map UInt64.toNat
      = pextLoop fuel x.toNat mask.toNat resultBit.toNat result.toNat := by
  intro fuel
  induction fuel with
  | zero => intro x mask result srcBit; rfl
  | succ f ih =>
    intro x mask result resultBit
    unfold pextGeneric_loop1 pextLoop
    by_cases hm : mask = 0
    · subst hm; simp
    · have hm' : mask.toNat ≠ 0 := (u64_ne_zero_iff mask).1 hm
      rw [if_pos hm, if_neg hm']
      simp only
      by_cases hb : (x &&& (mask &&& (-mask))) ≠ 0
      · have hb' : x.toNat &&& lowestBit mask.toNat ≠ 0 := by
          have := (u64_ne_zero_iff _).1 hb; rwa [UInt64.toNat_and, toNat_lowestBit] at this
        rw [if_pos hb, if_pos hb', ih, toNat_clearLowest _ hm, toNat_shl1, UInt64.toNat_or]
      · have hb' : ¬ (x.toNat &&& lowestBit mask.toNat ≠ 0) := by
          intro h; apply hb; apply (u64_ne_zero_iff _).2; rwa [UInt64.toNat_and, toNat_lowestBit]
        rw [if_neg hb, if_neg hb', ih, toNat_clearLowest _ hm, toNat_shl1]

theorem map_toNat_eq_some {o : Option UInt64} {n : Nat} (h : o.map UInt64.toNat = some n) :
    o = some (UInt64.ofNat n) := by
  cases o with
  | none => simp at h
  | some v => simp at h; subst h; simp

/-- the regenerated portable PDEP equals the bit-by-bit specification for ALL 2^128 input pairs -/
theorem pdepGeneric_eq (x mask : UInt64) : pdepGeneric x mask = some (UInt64.ofNat (pdep x.toNat mask.toNat)) := by
  apply map_toNat_eq_some
  unfold pdepGeneric
  simp only
  rw [pdepLoopU_sim]
  have := pdepGo_eq_pdep x.toNat mask.toNat mask.toNat_lt
  simpa [pdepGo] using this

theorem pextGeneric_eq (x mask : UInt64) : pextGeneric x mask = some (UInt64.ofNat (pext x.toNat mask.toNat)) := by
  apply map_toNat_eq_some
  unfold pextGeneric
  simp only
  rw [pextLoopU_sim]
  have := pextGo_eq_pext x.toNat mask.toNat mask.toNat_lt
  simpa [pextGo] using this


theorem rotl_mod (i r : Nat) : ((i % 64) * r) % 64 = (i * r) % 64 := by
  rw [Nat.mul_mod, Nat.mod_mod, ← Nat.mul_mod]

theorem getElem_drop_append_take (l : List Bool) (t' j : Nat) (ht : t' < l.length) (hj : j < l.length) :
    (l.drop t' ++ l.take t')[j]'(by simp; omega) = l[(j + t') % l.length]'(Nat.mod_lt _ (by omega)) := by
  by_cases h : j < l.length - t'
  · rw [List.getElem_append_left (by simp; omega)]
    simp only [List.getElem_drop]
    congr 1
    rw [Nat.mod_eq_of_lt (by omega)]; omega
  · rw [List.getElem_append_right (by simp; omega)]
    simp only [List.getElem_take, List.length_drop]
    congr 1
    have : j + t' = l.length + (j - (l.length - t')) := by omega
    rw [this, Nat.add_mod_left, Nat.mod_eq_of_lt (by omega)]

theorem getElem_rotl (l : List Bool) (t j : Nat) (hj : j < l.length) :
    (rotl l t)[j]'(by rw [rotl_length]; exact hj) = l[(j + t % l.length) % l.length]'(Nat.mod_lt _ (by omega)) := by
  unfold rotl
  exact getElem_drop_append_take l _ j (Nat.mod_lt _ (by omega)) hj

theorem testBit_shl (x : UInt64) (s j : Nat) (hs : s < 64) :
    (shl x s).toNat.testBit j = (decide (j < 64) && decide (s ≤ j) && x.toNat.testBit (j - s)) := by
  unfold shl
  rw [if_neg (by omega), UInt64.toNat_shiftLeft, UInt64.toNat_ofNat', Nat.mod_eq_of_lt (by omega : s < 2 ^ 64),
    Nat.mod_eq_of_lt hs, Nat.testBit_mod_two_pow, Nat.testBit_shiftLeft]
  simp [Bool.and_assoc]

theorem testBit_shr (x : UInt64) (s j : Nat) :
    (shr x s).toNat.testBit j = (decide (s < 64) && x.toNat.testBit (j + s)) := by
  unfold shr
  by_cases hs : s ≥ 64
  · rw [if_pos hs]; simp; omega
  · rw [if_neg hs, UInt64.toNat_shiftRight, UInt64.toNat_ofNat', Nat.mod_eq_of_lt (by omega : s < 2 ^ 64),
      Nat.mod_eq_of_lt (by omega), Nat.testBit_shiftRight]
    have : s < 64 := by omega
    simp [this, Nat.add_comm]

theorem testBit_ge64 (x : UInt64) (j : Nat) (hj : 64 ≤ j) : x.toNat.testBit j = false :=
  Nat.testBit_lt_two_pow (Nat.lt_of_lt_of_le x.toNat_lt (Nat.pow_le_pow_right (by decide) hj))

/-- `bits.RotateLeft64(x, k)` on the LSB-first bit list: the list rotated by `64 - (k mod 64)` -/
theorem ofNat_rotateLeft64 (x : UInt64) (k : Int) :
    Bits.ofNat 64 (rotateLeft64 x k).toNat = rotl (Bits.ofNat 64 x.toNat) ((64 - (k % 64).toNat) % 64) := by
  have hs : (k % 64).toNat < 64 := by omega
  unfold rotateLeft64
  simp only
  generalize (k % 64).toNat = s at hs
  apply List.ext_getElem
  · simp [rotl_length]
  · intro j h1 h2
    have hj : j < 64 := by simpa using h1
    rw [Bits.getElem_ofNat, getElem_rotl _ _ _ (by simpa using hj), Bits.getElem_ofNat]
    simp only [Bits.ofNat_length]
    rw [UInt64.toNat_or, Nat.testBit_or, testBit_shl _ _ _ hs, testBit_shr]
    by_cases hle : s ≤ j
    · have e : (j + (64 - s) % 64 % 64) % 64 = j - s := by omega
      rw [e]
      have : x.toNat.testBit (j + (64 - s)) = false := testBit_ge64 _ _ (by omega)
      simp [hj, hle, this]
    · have e : (j + (64 - s) % 64 % 64) % 64 = j + (64 - s) := by omega
      rw [e]
      have h64 : 64 - s < 64 := by omega
      simp [hle, h64]

theorem chunkMask_eq_gen (im : UInt64) (r i : Nat) :
    Bits.ofNat 64 (rotateLowEntropyMask im r i).toNat = chunkMask (Bits.ofNat 64 im.toNat) r i := by
  unfold rotateLowEntropyMask chunkMask
  by_cases h0 : r = 0 ∨ i = 0
  · have h0' : ((r : Int) = 0 ∨ (i : Int) = 0) := by omega
    rw [if_pos h0']
    rcases h0 with h | h <;> simp [h]
  · have h0' : ¬ ((r : Int) = 0 ∨ (i : Int) = 0) := by omega
    have hb : (r == 0 || i == 0) = false := by
      simp only [Bool.or_eq_false_iff, beq_eq_false_iff_ne]; omega
    rw [if_neg h0', hb]
    simp only [Bool.false_eq_true, if_false]
    have htm : Int.tmod (i : Int) 64 = ((i % 64 : Nat) : Int) := by
      rw [Int.tmod_eq_emod_of_nonneg (by omega)]; omega
    by_cases hr : r ≤ 15
    · have hr' : (r : Int) ≤ 15 := by omega
      rw [if_pos hr', if_pos hr, ofNat_rotateLeft64, htm]
      congr 1
      rw [← Int.natCast_mul]
      have := rotl_mod i r
      generalize (i % 64) * r = a at *
      omega
    · have hr' : ¬ (r : Int) ≤ 15 := by omega
      rw [if_neg hr', if_neg hr, ofNat_rotateLeft64, htm]
      congr 1
      have htd : Int.tdiv (r : Int) 16 = ((r / 16 : Nat) : Int) := by
        rw [Int.tdiv_eq_ediv_of_nonneg (by omega)]; omega
      rw [htd, ← Int.natCast_mul]
      have := rotl_mod i (r / 16)
      generalize (i % 64) * (r / 16) = a at *
      omega


theorem onesBelow_eq_popcount (n v : Nat) : onesBelow n v = Bits.popcount (Bits.ofNat n v) := by
  induction n generalizing v with
  | zero => rfl
  | succ n ih =>
    simp only [onesBelow, Bits.ofNat, Bits.popcount, List.count_cons, ih]
    rcases Nat.mod_two_eq_zero_or_one v with h | h <;> simp [h] <;> omega

theorem buildParams_eq (mode : Nat) :
    Gen.Arith.buildLowEntropyParams_sourceBytesPerChunk mode = (sourceBytes mode).map Int.ofNat ∧
    Gen.Arith.buildLowEntropyParams_halfMaskOnes mode = (halfOnes mode).map Int.ofNat := by
  unfold Gen.Arith.buildLowEntropyParams_sourceBytesPerChunk Gen.Arith.buildLowEntropyParams_halfMaskOnes
  match mode with
  | 0 => exact ⟨rfl, rfl⟩
  | 1 => exact ⟨rfl, rfl⟩
  | 2 => exact ⟨rfl, rfl⟩
  | 3 => exact ⟨rfl, rfl⟩
  | 4 => exact ⟨rfl, rfl⟩
  | n + 5 =>
    have h1 : ¬ (((n + 5 : Nat) : Int) = 1) := by omega
    have h2 : ¬ (((n + 5 : Nat) : Int) = 2) := by omega
    have h3 : ¬ (((n + 5 : Nat) : Int) = 3) := by omega
    have h4 : ¬ (((n + 5 : Nat) : Int) = 4) := by omega
    simp only [h1, h2, h3, h4, if_false]
    exact ⟨rfl, rfl⟩

theorem validRotation_eq (rot : Nat) : Gen.Arith.isValidLowEntropyRotation rot = validRotation rot := by
  unfold Gen.Arith.isValidLowEntropyRotation validRotation
  rw [Int.tmod_eq_emod_of_nonneg (by omega)]
  rw [Bool.eq_iff_iff]
  simp only [decide_eq_true_eq, Bool.or_eq_true, Bool.and_eq_true, beq_iff_eq]
  omega

theorem encodedLen_eq (n mode : Nat) :
    Gen.Arith.lowEntropyEncodedPayloadLen n mode = (encodedLen n mode).map Int.ofNat := by
  unfold Gen.Arith.lowEntropyEncodedPayloadLen encodedLen
  rw [(buildParams_eq mode).1, (buildParams_eq mode).2]
  have hl : Gen.lowEntropyChunkLen = 8 := rfl
  have h8 : Int.tdiv 65535 8 = 8191 := by decide
  have h8' : 65535 / 8 = 8191 := by decide
  have hn0 : (0 : Int) ≤ (n : Int) := by omega
  match mode with
  | 0 => rfl
  | 1 =>
    simp only [sourceBytes, halfOnes, Option.map_some, hl, h8, h8', ceilDiv, Int.ofNat_eq_natCast]
    rw [Int.tdiv_eq_ediv_of_nonneg hn0, Int.tmod_eq_emod_of_nonneg hn0]
    have hc : ((n + 4 - 1) / 4 : Nat) = if n % 4 = 0 then n / 4 else n / 4 + 1 := by split <;> omega
    rw [hc]
    by_cases hn : n = 0
    · subst hn; rfl
    · rw [if_neg (by omega), if_neg hn]
      by_cases hm : n % 4 = 0
      · rw [if_neg (by omega), if_pos hm]
        by_cases hb : n / 4 > 8191
        · rw [if_pos (by omega), if_pos hb]; rfl
        · rw [if_neg (by omega), if_neg hb]; simp
      · rw [if_pos (by omega), if_neg hm]
        by_cases hb : n / 4 + 1 > 8191
        · rw [if_pos (by omega), if_pos hb]; rfl
        · rw [if_neg (by omega), if_neg hb]; simp
  | 2 =>
    simp only [sourceBytes, halfOnes, Option.map_some, hl, h8, h8', ceilDiv, Int.ofNat_eq_natCast]
    rw [Int.tdiv_eq_ediv_of_nonneg hn0, Int.tmod_eq_emod_of_nonneg hn0]
    have hc : ((n + 5 - 1) / 5 : Nat) = if n % 5 = 0 then n / 5 else n / 5 + 1 := by split <;> omega
    rw [hc]
    by_cases hn : n = 0
    · subst hn; rfl
    · rw [if_neg (by omega), if_neg hn]
      by_cases hm : n % 5 = 0
      · rw [if_neg (by omega), if_pos hm]
        by_cases hb : n / 5 > 8191
        · rw [if_pos (by omega), if_pos hb]; rfl
        · rw [if_neg (by omega), if_neg hb]; simp
      · rw [if_pos (by omega), if_neg hm]
        by_cases hb : n / 5 + 1 > 8191
        · rw [if_pos (by omega), if_pos hb]; rfl
        · rw [if_neg (by omega), if_neg hb]; simp
  | 3 =>
    simp only [sourceBytes, halfOnes, Option.map_some, hl, h8, h8', ceilDiv, Int.ofNat_eq_natCast]
    rw [Int.tdiv_eq_ediv_of_nonneg hn0, Int.tmod_eq_emod_of_nonneg hn0]
    have hc : ((n + 6 - 1) / 6 : Nat) = if n % 6 = 0 then n / 6 else n / 6 + 1 := by split <;> omega
    rw [hc]
    by_cases hn : n = 0
    · subst hn; rfl
    · rw [if_neg (by omega), if_neg hn]
      by_cases hm : n % 6 = 0
      · rw [if_neg (by omega), if_pos hm]
        by_cases hb : n / 6 > 8191
        · rw [if_pos (by omega), if_pos hb]; rfl
        · rw [if_neg (by omega), if_neg hb]; simp
      · rw [if_pos (by omega), if_neg hm]
        by_cases hb : n / 6 + 1 > 8191
        · rw [if_pos (by omega), if_pos hb]; rfl
        · rw [if_neg (by omega), if_neg hb]; simp
  | 4 =>
    simp only [sourceBytes, halfOnes, Option.map_some, hl, h8, h8', ceilDiv, Int.ofNat_eq_natCast]
    rw [Int.tdiv_eq_ediv_of_nonneg hn0, Int.tmod_eq_emod_of_nonneg hn0]
    have hc : ((n + 7 - 1) / 7 : Nat) = if n % 7 = 0 then n / 7 else n / 7 + 1 := by split <;> omega
    rw [hc]
    by_cases hn : n = 0
    · subst hn; rfl
    · rw [if_neg (by omega), if_neg hn]
      by_cases hm : n % 7 = 0
      · rw [if_neg (by omega), if_pos hm]
        by_cases hb : n / 7 > 8191
        · rw [if_pos (by omega), if_pos hb]; rfl
        · rw [if_neg (by omega), if_neg hb]; simp
      · rw [if_pos (by omega), if_neg hm]
        by_cases hb : n / 7 + 1 > 8191
        · rw [if_pos (by omega), if_pos hb]; rfl
        · rw [if_neg (by omega), if_neg hb]; simp
  | m + 5 => rfl

theorem validate_eq (mode : Nat) (half : UInt32) (rot : Nat) :
    validateLowEntropyCodecParams mode half rot =
      if validParams mode half.toNat rot = true then
        (match sourceBytes mode, halfOnes mode with
         | some c, some k => some (Int.ofNat c, Int.ofNat k)
         | _, _ => none)
      else none := by
  unfold validateLowEntropyCodecParams validParams
  rw [(buildParams_eq mode).1, (buildParams_eq mode).2, validRotation_eq]
  unfold onesCount32
  rw [onesBelow_eq_popcount]
  match mode with
  | 0 => rfl
  | 1 =>
    simp only [sourceBytes, halfOnes, Option.map_some, Option.bind_some, Int.ofNat_eq_natCast]
    by_cases hp : Bits.popcount (Bits.ofNat 32 half.toNat) = 16 <;> by_cases hr : validRotation rot = true <;> simp [hp, hr] <;> omega
  | 2 =>
    simp only [sourceBytes, halfOnes, Option.map_some, Option.bind_some, Int.ofNat_eq_natCast]
    by_cases hp : Bits.popcount (Bits.ofNat 32 half.toNat) = 20 <;> by_cases hr : validRotation rot = true <;> simp [hp, hr] <;> omega
  | 3 =>
    simp only [sourceBytes, halfOnes, Option.map_some, Option.bind_some, Int.ofNat_eq_natCast]
    by_cases hp : Bits.popcount (Bits.ofNat 32 half.toNat) = 24 <;> by_cases hr : validRotation rot = true <;> simp [hp, hr] <;> omega
  | 4 =>
    simp only [sourceBytes, halfOnes, Option.map_some, Option.bind_some, Int.ofNat_eq_natCast]
    by_cases hp : Bits.popcount (Bits.ofNat 32 half.toNat) = 28 <;> by_cases hr : validRotation rot = true <;> simp [hp, hr] <;> omega
  | m + 5 => rfl

end Mieru.LowEntropy
