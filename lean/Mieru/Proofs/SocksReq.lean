import Mieru.Model.SocksReq
import Mieru.Proofs.SocksMsg
/-!
# Helper lemmas about the SOCKS5 request / reply parsers (used by Props/C10.lean)
-/
namespace Mieru.SocksReq
open Mieru.PoS (Bytes)
open Mieru.SocksMsg

theorem liftAddr_ok (c : UInt8) (whole : Bytes) (x : Except AErr (AddrPort × Bytes)) (m : Msg) (rest : Bytes)
    (h : liftAddr c whole x = .ok (m, rest)) :
    ∃ a, x = .ok (a, rest) ∧ m = { code := c, addr := a, raw := whole.take (whole.length - rest.length) } := by
  unfold liftAddr at h
  split at h
  · cases h
  · cases h
  · rename_i a rest' 
    simp only [Except.ok.injEq, Prod.mk.injEq] at h
    obtain ⟨h1, h2⟩ := h
    subst h2
    exact ⟨a, rfl, h1.symm⟩

/-- shape of an accepted message (3-byte header variant) -/
theorem parseMsg_ok (r : Bytes) (m : Msg) (rest : Bytes) (h : parseMsg r = .ok (m, rest)) :
    r = m.raw ++ rest ∧ m.addr.wf ∧ 7 ≤ m.raw.length ∧ r[0]? = some 0x05 ∧ r[1]? = some m.code ∧
    parseAddr (r.drop 3) = .ok (m.addr, rest) := by
  unfold parseMsg at h
  split at h
  · rename_i v c rsv r0
    split at h
    · cases h
    · rename_i hv
      have hv5 : v = 0x05 := by
        by_cases hh : v = 0x05
        · exact hh
        · exact absurd hh hv
      obtain ⟨a, hpa, hm⟩ := liftAddr_ok c _ _ m rest h
      obtain ⟨hwf, used, hused, hlen, _⟩ := parseAddr_ok r0 a rest hpa
      subst hm
      subst hused
      refine ⟨?_, hwf, ?_, by simp [hv5], by simp, by simpa using hpa⟩
      · simp only [List.length_cons, List.length_append]
        have : used.length + rest.length + 1 + 1 + 1 - rest.length = used.length + 3 := by omega
        rw [this]
        show v :: c :: rsv :: (used ++ rest) = List.take (used.length + 3) (v :: c :: rsv :: (used ++ rest)) ++ rest
        simp [List.take_succ_cons]
      · simp only [List.length_cons, List.length_append, List.length_take]
        omega
  · cases h

/-- reading back what `buildMsg` wrote gives the same message and leaves the rest unread -/
theorem parseMsg_build (c : UInt8) (a : AddrPort) (hw : a.wf) (hc : a.canonical) (b rest : Bytes)
    (hb : buildMsg c a = some b) : parseMsg (b ++ rest) = .ok ({ code := c, addr := a, raw := b }, rest) := by
  unfold buildMsg at hb
  cases hh : buildAddr a with
  | none => rw [hh] at hb; cases hb
  | some h =>
    rw [hh] at hb
    simp only [Option.map_some, Option.some.injEq] at hb
    subst hb
    have hpa := parseAddr_build a hw hc h rest hh
    simp only [List.cons_append, parseMsg]
    have d : ¬ ((5 : UInt8) ≠ 5) := by decide
    rw [if_neg d, hpa]
    simp only [liftAddr, List.length_cons, List.length_append]
    have : h.length + rest.length + 1 + 1 + 1 - rest.length = h.length + 3 := by omega
    rw [this]
    simp [List.take_succ_cons]

/-- every strict prefix of an accepted message is rejected as too short: a truncated request or reply
    is never mistaken for a complete one -/
theorem parseMsg_take_short (r : Bytes) (m : Msg) (rest : Bytes) (h : parseMsg r = .ok (m, rest))
    (j : Nat) (hj : j < m.raw.length) : parseMsg (r.take j) = .error .short := by
  obtain ⟨hr, _, hlen, _, _, hpa⟩ := parseMsg_ok r m rest h
  match r, h, hr, hpa with
  | [], h, _, _ => cases h
  | [_], h, _, _ => cases h
  | [_, _], h, _, _ => cases h
  | v :: c :: rsv :: r0, h, hr, hpa =>
    have hv : ¬ (v ≠ 0x05) := by
      intro hv
      simp only [parseMsg, if_pos hv] at h
      cases h
    simp only [List.drop_succ_cons, List.drop_zero] at hpa
    have hrl : (v :: c :: rsv :: r0).length = m.raw.length + rest.length := by rw [hr]; simp
    simp only [List.length_cons] at hrl
    match j, hj with
    | 0, _ => rfl
    | 1, _ => rfl
    | 2, _ => rfl
    | j + 3, hj =>
      simp only [List.take_succ_cons, parseMsg]
      rw [if_neg hv]
      have := parseAddr_take_short r0 m.addr rest hpa j (by omega)
      rw [this]
      rfl

/-- shape of an accepted message (4-byte header variant: the version byte is not examined) -/
theorem parseMsg4_ok (r : Bytes) (m : Msg) (rest : Bytes) (h : parseMsg4 r = .ok (m, rest)) :
    r = m.raw ++ rest ∧ m.addr.wf ∧ 7 ≤ m.raw.length ∧ r[1]? = some m.code ∧
    parseAddr (r.drop 3) = .ok (m.addr, rest) := by
  unfold parseMsg4 at h
  split at h
  · rename_i v c rsv t r0
    obtain ⟨a, hpa, hm⟩ := liftAddr_ok c _ _ m rest h
    obtain ⟨hwf, used, hused, hlen, _⟩ := parseAddr_ok (t :: r0) a rest hpa
    subst hm
    refine ⟨?_, hwf, ?_, by simp, by simpa using hpa⟩
    · have hl : (t :: r0).length = used.length + rest.length := by rw [hused]; simp
      simp only [List.length_cons] at hl ⊢
      have : r0.length + 1 + 1 + 1 + 1 - rest.length = used.length + 3 := by omega
      rw [this, hused]
      simp [List.take_succ_cons]
    · have hl : (t :: r0).length = used.length + rest.length := by rw [hused]; simp
      simp only [List.length_cons] at hl
      simp only [List.length_cons, List.length_take]
      omega
  · cases h

/-- the two header variants agree whenever the version byte is 5 -/
theorem parseMsg4_eq (r : Bytes) (h : r[0]? = some 0x05) : parseMsg4 r = parseMsg r := by
  match r with
  | [] => rfl
  | [_] => rfl
  | [_, _] => rfl
  | [v, c, rsv] =>
    simp only [List.getElem?_cons_zero, Option.some.injEq] at h
    subst h
    simp [parseMsg4, parseMsg, parseAddr, liftAddr]
  | v :: c :: rsv :: t :: rest =>
    simp only [List.getElem?_cons_zero, Option.some.injEq] at h
    subst h
    simp [parseMsg4, parseMsg]

end Mieru.SocksReq
