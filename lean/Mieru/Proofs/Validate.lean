import Mieru.Model.Validate
import Mieru.Proofs.UrlLink
/-! # Facts about the validators (`Mieru.Validate`) -/
namespace Mieru.Validate
open Mieru.Url
open Mieru.Base64 (Bytes)

theorem firstErr_none_iff {α} (f : α → Option VErr) (l : List α) :
    firstErr f l = none ↔ ∀ x ∈ l, f x = none := by
  induction l with
  | nil => simp [firstErr]
  | cons x xs ih =>
    unfold firstErr
    cases h : f x with
    | some e => simp [h]
    | none => simp [h, ih]

/-- an accepted binding names TCP or UDP and denotes a non-empty interval of valid ports -/
theorem bindingErr_none (b : Binding) (h : bindingErr b = none) :
    (b.protocol.getD 0 = tcp ∨ b.protocol.getD 0 = udp) ∧
    ∃ lo hi, span b = some (lo, hi) ∧ 1 ≤ lo ∧ lo ≤ hi ∧ hi ≤ 65535 := by
  unfold bindingErr at h
  simp only [] at h
  split at h
  · cases h
  · split at h
    · rename_i hp
      split at h
      · cases h
      · rename_i hr
        split at h
        · rename_i hpr
          refine ⟨hpr, b.port.getD 0, b.port.getD 0, ?_, ?_, Int.le_refl _, ?_⟩
          · unfold span; rw [if_pos hp]
          · omega
          · omega
        · cases h
    · rename_i hp
      have hp0 : b.port.getD 0 = 0 := by
        by_cases h0 : b.port.getD 0 = 0
        · exact h0
        · exact absurd h0 hp
      split at h
      · cases h
      · rename_i a c hm
        split at h
        · cases h
        · rename_i small hs
          split at h
          · cases h
          · rename_i big hb
            split at h
            · cases h
            · split at h
              · cases h
              · split at h
                · cases h
                · split at h
                  · rename_i h1 h2 h3 hpr
                    refine ⟨hpr, small, big, ?_, by omega, by omega, by omega⟩
                    unfold span
                    rw [if_neg (by rw [hp0]; simp), hm]
                    simp only [hs, hb]
                  · cases h

/-- `FlatPortBindings` succeeds exactly when every binding passes, and then every port it returns lies in
    [1, 65535] and is covered by a binding of that protocol (and every covered port is returned) -/
theorem flat_ok_iff (bs : List Binding) :
    (∃ r, flatPortBindings bs = .ok r) ↔ ∀ b ∈ bs, bindingErr b = none := by
  unfold flatPortBindings
  rw [← firstErr_none_iff]
  cases h : firstErr bindingErr bs <;> simp

theorem mem_portsOf (proto : Int) (bs : List Binding) (p : Int) :
    p ∈ portsOf proto bs ↔ (0 ≤ p ∧ p < 65536) ∧ ∃ b ∈ bs, covers proto p b = true := by
  unfold portsOf
  simp only [List.mem_filter, List.mem_map, List.mem_range, List.any_eq_true]
  constructor
  · rintro ⟨⟨n, hn, rfl⟩, hb⟩
    exact ⟨⟨Int.natCast_nonneg n, by show (n : Int) < 65536; omega⟩, hb⟩
  · rintro ⟨⟨h0, h1⟩, hb⟩
    exact ⟨⟨p.toNat, by omega, by simp [Int.toNat_of_nonneg h0]⟩, hb⟩

theorem flat_ports_sound (bs : List Binding) (t u : List Int) (h : flatPortBindings bs = .ok (t, u)) (p : Int) :
    (p ∈ t ↔ ∃ b ∈ bs, covers tcp p b = true) ∧ (p ∈ u ↔ ∃ b ∈ bs, covers udp p b = true) ∧
    (p ∈ t ∨ p ∈ u → 1 ≤ p ∧ p ≤ 65535) := by
  have hall : ∀ b ∈ bs, bindingErr b = none := (flat_ok_iff bs).mp ⟨_, h⟩
  unfold flatPortBindings at h
  cases hf : firstErr bindingErr bs with
  | some e => rw [hf] at h; cases h
  | none =>
    rw [hf] at h
    simp only [Except.ok.injEq, Prod.mk.injEq] at h
    obtain ⟨rfl, rfl⟩ := h
    have key : ∀ proto, ∀ b ∈ bs, covers proto p b = true → 1 ≤ p ∧ p ≤ 65535 := by
      intro proto b hb hc
      obtain ⟨_, lo, hi, hs, h1, h2, h3⟩ := bindingErr_none b (hall b hb)
      unfold covers at hc
      rw [hs] at hc
      simp only [Bool.and_eq_true, decide_eq_true_eq] at hc
      omega
    refine ⟨?_, ?_, ?_⟩
    · rw [mem_portsOf]
      constructor
      · exact fun h => h.2
      · rintro ⟨b, hb, hc⟩
        have := key tcp b hb hc
        exact ⟨by omega, b, hb, hc⟩
    · rw [mem_portsOf]
      constructor
      · exact fun h => h.2
      · rintro ⟨b, hb, hc⟩
        have := key udp b hb hc
        exact ⟨by omega, b, hb, hc⟩
    · rintro (h | h)
      · obtain ⟨_, b, hb, hc⟩ := (mem_portsOf _ _ _).mp h
        exact key tcp b hb hc
      · obtain ⟨_, b, hb, hc⟩ := (mem_portsOf _ _ _).mp h
        exact key udp b hb hc

/-- the full server validation accepts only what the patch validation accepts, a non-empty message, with a port binding -/
theorem fullServer_none (c : VServer) (h : fullServerErr c = none) :
    serverPatchErr c = none ∧ c.isEmptyMsg = false ∧ c.bindings ≠ [] ∧ (∀ b ∈ c.bindings, bindingErr b = none) ∧
    (∀ u ∈ c.users, userErr u = none) := by
  unfold fullServerErr at h
  cases hp : serverPatchErr c with
  | some e => rw [hp] at h; cases h
  | none =>
    rw [hp] at h
    simp only [] at h
    split at h
    · cases h
    · split at h
      · cases h
      · rename_i he hb
        refine ⟨rfl, by simpa using he, hb, ?_, ?_⟩
        · unfold serverPatchErr at hp
          cases hf : firstErr bindingErr c.bindings with
          | some e => rw [hf] at hp; cases hp
          | none => exact (firstErr_none_iff _ _).mp hf
        · unfold serverPatchErr at hp
          cases hf : firstErr bindingErr c.bindings with
          | some e => rw [hf] at hp; cases hp
          | none =>
            rw [hf] at hp
            cases hu : firstErr userErr c.users with
            | some e => rw [hu] at hp; cases hp
            | none => exact (firstErr_none_iff _ _).mp hu

/-- what an accepted user looks like (the user rules) -/
theorem userErr_none (v : VUser) (h : userErr v = none) :
    v.u.getName ≠ [] ∧ v.u.getName.length ≤ 64 ∧
    (v.u.password.getD [] ≠ [] ∨ v.u.hashedPassword.getD [] ≠ []) ∧ (v.u.password.getD []).length ≤ 64 ∧
    ∀ q ∈ v.quotas, 0 < q.1 ∧ 0 < q.2 := by
  unfold userErr at h
  split at h
  · cases h
  · rename_i hc
    have hq : ∀ q ∈ v.quotas, 0 < q.1 ∧ 0 < q.2 := by
      intro q hm
      have := (firstErr_none_iff _ _).mp h q hm
      unfold quotaErr at this
      split at this
      · cases this
      · split at this
        · cases this
        · omega
    unfold credErr at hc
    split at hc
    · cases hc
    · split at hc
      · cases hc
      · split at hc
        · cases hc
        · split at hc
          · cases hc
          · rename_i h1 h2 h3 h4
            refine ⟨h1, by omega, ?_, ?_, hq⟩
            · by_cases hp : v.u.password.getD [] = []
              · right; intro hh; exact h2 ⟨hp, hh⟩
              · left; exact hp
            · by_cases hp : v.u.password.getD [] = []
              · rw [hp]; simp
              · have : ¬ (v.u.password.getD []).length > 64 := fun hh => h4 ⟨hp, hh⟩
                omega

theorem cut_some (sep : UInt8) : ∀ (s a c : Bytes), cut sep s = (a, some c) → s = a ++ sep :: c := by
  intro s
  induction s with
  | nil => intro a c h; simp [cut] at h
  | cons x xs ih =>
    intro a c h
    unfold cut at h
    by_cases hx : x = sep
    · rw [if_pos hx] at h
      simp only [Prod.mk.injEq, Option.some.injEq] at h
      obtain ⟨rfl, rfl⟩ := h
      simp [hx]
    · rw [if_neg hx] at h
      simp only [Prod.mk.injEq] at h
      obtain ⟨rfl, h2⟩ := h
      have := ih (cut sep xs).1 c (Prod.ext rfl h2)
      simp only [List.cons_append]
      rw [← this]

/-- what an exportable binding needs beyond validity: `port` and `portRange` not both set, and a range written
    without leading zeros (the importer re-renders the numbers) -/
def Exportable (b : Binding) : Prop :=
  (b.port.getD 0 ≠ 0 → b.portRange.getD [] = []) ∧
  ∀ a c x y, rangeMatch (b.portRange.getD []) = some (a, c) → atoi a = some x → atoi c = some y → a = itoa x ∧ c = itoa y

theorem rangeMatch_some (s a c : Bytes) (h : rangeMatch s = some (a, c)) : s = a ++ 45 :: c := by
  unfold rangeMatch at h
  split at h
  · rename_i a' c' hc
    split at h
    · simp only [Option.some.injEq, Prod.mk.injEq] at h
      obtain ⟨rfl, rfl⟩ := h
      exact cut_some 45 s _ _ hc
    · cases h
  · cases h

theorem bindingOK_of_valid (b : Binding) (h : bindingErr b = none) (he : Exportable b) : BindingOK b := by
  obtain ⟨hpr, lo, hi, hs, h1, h2, h3⟩ := bindingErr_none b h
  refine ⟨by rcases hpr with h | h <;> rw [h] <;> decide, ?_⟩
  unfold span at hs
  by_cases hp : b.port.getD 0 ≠ 0
  · rw [if_pos hp] at hs
    simp only [Option.some.injEq, Prod.mk.injEq] at hs
    left
    exact ⟨he.1 hp, by omega, by omega⟩
  · rw [if_neg hp] at hs
    right
    split at hs
    · rename_i a c hm
      split at hs
      · rename_i x y hx hy
        simp only [Option.some.injEq, Prod.mk.injEq] at hs
        obtain ⟨rfl, rfl⟩ := hs
        obtain ⟨ha, hc⟩ := he.2 a c x y hm hx hy
        have := rangeMatch_some _ _ _ hm
        refine ⟨x, y, ?_, h1, h2, h3⟩
        cases hr : b.portRange with
        | none => rw [hr] at this; simp at this
        | some r => rw [hr] at this; simp only [Option.getD_some] at this; rw [this, ha, hc]
      · cases hs
    · cases hs

/-- **valid ⇒ ExportOK** -/
theorem valid_export_ok (isIP : Bytes → Bool) (v : VProfile) (s : Server)
    (hv : profileErr isIP v = none) (hs : s ∈ v.p.servers)
    (hpw : v.p.password.getD [] ≠ [])
    (hmux : ∀ l, v.p.multiplexing = some (some l) → 0 ≤ l ∧ l ≤ 4)
    (hhs : ∀ h, v.p.handshakeMode = some h → 0 ≤ h ∧ h ≤ 2)
    (hb : ∀ b ∈ s.bindings, Exportable b) : ExportOK v.p s := by
  unfold profileErr at hv
  split at hv
  · cases hv
  · rename_i hname
    split at hv
    · cases hv
    · rename_i hcred
      split at hv
      · cases hv
      · split at hv
        · cases hv
        · split at hv
          · cases hv
          · rename_i hserv
            split at hv
            · cases hv
            · rename_i hmtu
              have hse := (firstErr_none_iff _ _).mp hserv s hs
              unfold serverErr at hse
              split at hse
              · cases hse
              · rename_i hhost
                split at hse
                · cases hse
                · split at hse
                  · cases hse
                  · rename_i hne
                    have hbs := (firstErr_none_iff _ _).mp hse
                    have huser : v.p.userName.getD [] ≠ [] := by
                      unfold credErr at hcred
                      split at hcred
                      · cases hcred
                      · assumption
                    refine { name := hname, user := huser, pw := hpw, host := ?_, nonempty := hne, mtu := ?_, mux := hmux, hs := hhs,
                             bind := fun b hb' => bindingOK_of_valid b (hbs b hb') (hb b hb') }
                    · unfold serverHost
                      by_cases hd : s.domainName.getD [] ≠ []
                      · rw [if_pos hd]; exact hd
                      · rw [if_neg hd]
                        intro hip
                        exact hhost ⟨hip, by simpa using hd⟩
                    · intro m hm
                      unfold mtuErr at hmtu
                      rw [hm] at hmtu
                      simp only [Option.getD_some] at hmtu
                      split at hmtu
                      · cases hmtu
                      · omega
end Mieru.Validate
