import Mieru.Model.Validate
/-! # Facts about the validators (`Mieru.Validate`) -/
namespace Mieru.Validate
open Mieru.Url (Binding Server Profile atoi cut isDigit)
open Mieru.Base64 (Bytes)

theorem firstErr_none_iff {α} (f : α → Option VErr) (l : List α) :
    firstErr f l = none ↔ ∀ x ∈ l, f x = none := by
  induction l with
  | nil => simp [firstErr]
  | cons x xs ih =>
    unfold firstErr
    cases h : f x with
    | some e => simp [h]
    | none => simp [h, ih]

/-- an accepted binding names TCP or UDP and denotes a non-empty interval of valid ports -/
theorem bindingErr_none (b : Binding) (h : bindingErr b = none) :
    (b.protocol.getD 0 = tcp ∨ b.protocol.getD 0 = udp) ∧
    ∃ lo hi, span b = some (lo, hi) ∧ 1 ≤ lo ∧ lo ≤ hi ∧ hi ≤ 65535 := by
  unfold bindingErr at h
  simp only [] at h
  split at h
  · cases h
  · split at h
    · rename_i hp
      split at h
      · cases h
      · rename_i hr
        split at h
        · rename_i hpr
          refine ⟨hpr, b.port.getD 0, b.port.getD 0, ?_, ?_, Int.le_refl _, ?_⟩
          · unfold span; rw [if_pos hp]
          · omega
          · omega
        · cases h
    · rename_i hp
      have hp0 : b.port.getD 0 = 0 := by
        by_cases h0 : b.port.getD 0 = 0
        · exact h0
        · exact absurd h0 hp
      split at h
      · cases h
      · rename_i a c hm
        split at h
        · cases h
        · rename_i small hs
          split at h
          · cases h
          · rename_i big hb
            split at h
            · cases h
            · split at h
              · cases h
              · split at h
                · cases h
                · split at h
                  · rename_i h1 h2 h3 hpr
                    refine ⟨hpr, small, big, ?_, by omega, by omega, by omega⟩
                    unfold span
                    rw [if_neg (by rw [hp0]; simp), hm]
                    simp only [hs, hb]
                  · cases h

/-- `FlatPortBindings` succeeds exactly when every binding passes, and then every port it returns lies in
    [1, 65535] and is covered by a binding of that protocol (and every covered port is returned) -/
theorem flat_ok_iff (bs : List Binding) :
    (∃ r, flatPortBindings bs = .ok r) ↔ ∀ b ∈ bs, bindingErr b = none := by
  unfold flatPortBindings
  rw [← firstErr_none_iff]
  cases h : firstErr bindingErr bs <;> simp

theorem mem_portsOf (proto : Int) (bs : List Binding) (p : Int) :
    p ∈ portsOf proto bs ↔ (0 ≤ p ∧ p < 65536) ∧ ∃ b ∈ bs, covers proto p b = true := by
  unfold portsOf
  simp only [List.mem_filter, List.mem_map, List.mem_range, List.any_eq_true]
  constructor
  · rintro ⟨⟨n, hn, rfl⟩, hb⟩
    exact ⟨⟨Int.natCast_nonneg n, by show (n : Int) < 65536; omega⟩, hb⟩
  · rintro ⟨⟨h0, h1⟩, hb⟩
    exact ⟨⟨p.toNat, by omega, by simp [Int.toNat_of_nonneg h0]⟩, hb⟩

theorem flat_ports_sound (bs : List Binding) (t u : List Int) (h : flatPortBindings bs = .ok (t, u)) (p : Int) :
    (p ∈ t ↔ ∃ b ∈ bs, covers tcp p b = true) ∧ (p ∈ u ↔ ∃ b ∈ bs, covers udp p b = true) ∧
    (p ∈ t ∨ p ∈ u → 1 ≤ p ∧ p ≤ 65535) := by
  have hall : ∀ b ∈ bs, bindingErr b = none := (flat_ok_iff bs).mp ⟨_, h⟩
  unfold flatPortBindings at h
  cases hf : firstErr bindingErr bs with
  | some e => rw [hf] at h; cases h
  | none =>
    rw [hf] at h
    simp only [Except.ok.injEq, Prod.mk.injEq] at h
    obtain ⟨rfl, rfl⟩ := h
    have key : ∀ proto, ∀ b ∈ bs, covers proto p b = true → 1 ≤ p ∧ p ≤ 65535 := by
      intro proto b hb hc
      obtain ⟨_, lo, hi, hs, h1, h2, h3⟩ := bindingErr_none b (hall b hb)
      unfold covers at hc
      rw [hs] at hc
      simp only [Bool.and_eq_true, decide_eq_true_eq] at hc
      omega
    refine ⟨?_, ?_, ?_⟩
    · rw [mem_portsOf]
      constructor
      · exact fun h => h.2
      · rintro ⟨b, hb, hc⟩
        have := key tcp b hb hc
        exact ⟨by omega, b, hb, hc⟩
    · rw [mem_portsOf]
      constructor
      · exact fun h => h.2
      · rintro ⟨b, hb, hc⟩
        have := key udp b hb hc
        exact ⟨by omega, b, hb, hc⟩
    · rintro (h | h)
      · obtain ⟨_, b, hb, hc⟩ := (mem_portsOf _ _ _).mp h
        exact key tcp b hb hc
      · obtain ⟨_, b, hb, hc⟩ := (mem_portsOf _ _ _).mp h
        exact key udp b hb hc

/-- the full server validation accepts only what the patch validation accepts, a non-empty message, with a port binding -/
theorem fullServer_none (c : VServer) (h : fullServerErr c = none) :
    serverPatchErr c = none ∧ c.isEmptyMsg = false ∧ c.bindings ≠ [] ∧ (∀ b ∈ c.bindings, bindingErr b = none) ∧
    (∀ u ∈ c.users, userErr u = none) := by
  unfold fullServerErr at h
  cases hp : serverPatchErr c with
  | some e => rw [hp] at h; cases h
  | none =>
    rw [hp] at h
    simp only [] at h
    split at h
    · cases h
    · split at h
      · cases h
      · rename_i he hb
        refine ⟨rfl, by simpa using he, hb, ?_, ?_⟩
        · unfold serverPatchErr at hp
          cases hf : firstErr bindingErr c.bindings with
          | some e => rw [hf] at hp; cases hp
          | none => exact (firstErr_none_iff _ _).mp hf
        · unfold serverPatchErr at hp
          cases hf : firstErr bindingErr c.bindings with
          | some e => rw [hf] at hp; cases hp
          | none =>
            rw [hf] at hp
            cases hu : firstErr userErr c.users with
            | some e => rw [hu] at hp; cases hp
            | none => exact (firstErr_none_iff _ _).mp hu

/-- what an accepted user looks like (the user rules) -/
theorem userErr_none (v : VUser) (h : userErr v = none) :
    v.u.getName ≠ [] ∧ v.u.getName.length ≤ 64 ∧
    (v.u.password.getD [] ≠ [] ∨ v.u.hashedPassword.getD [] ≠ []) ∧ (v.u.password.getD []).length ≤ 64 ∧
    ∀ q ∈ v.quotas, 0 < q.1 ∧ 0 < q.2 := by
  unfold userErr at h
  split at h
  · cases h
  · rename_i hc
    have hq : ∀ q ∈ v.quotas, 0 < q.1 ∧ 0 < q.2 := by
      intro q hm
      have := (firstErr_none_iff _ _).mp h q hm
      unfold quotaErr at this
      split at this
      · cases this
      · split at this
        · cases this
        · omega
    unfold credErr at hc
    split at hc
    · cases hc
    · split at hc
      · cases hc
      · split at hc
        · cases hc
        · split at hc
          · cases hc
          · rename_i h1 h2 h3 h4
            refine ⟨h1, by omega, ?_, ?_, hq⟩
            · by_cases hp : v.u.password.getD [] = []
              · right; intro hh; exact h2 ⟨hp, hh⟩
              · left; exact hp
            · by_cases hp : v.u.password.getD [] = []
              · rw [hp]; simp
              · have : ¬ (v.u.password.getD []).length > 64 := fun hh => h4 ⟨hp, hh⟩
                omega

end Mieru.Validate
