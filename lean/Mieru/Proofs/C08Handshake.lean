import Mieru.Model.Handshake
import Mieru.Proofs.C08
import Mieru.Proofs.C09
import Mieru.Proofs.C09Server
/-!
# Lemmas for the three-instant handshake theorems of C08
-/
namespace Mieru.Proofs.C08
open Mieru Mieru.Spec Mieru.Time Mieru.Handshake

/-- the true key bound: slots agree up to 120 s of skew (same proof as for 60 s) -/
theorem slot_agreement_120 (t d : Int) (h1 : -120000000000 ≤ d) (h2 : d ≤ 120000000000) :
    epoch t = epoch (t + d) - 120 ∨ epoch t = epoch (t + d) ∨ epoch t = epoch (t + d) + 120 := by
  obtain ⟨q, hq, ha, hb⟩ := epoch_nearest t
  obtain ⟨q', hq', ha', hb'⟩ := epoch_nearest (t + d)
  omega

theorem mem_saltTimes (e t : Int) :
    e ∈ saltTimes t ↔ e = epoch t - 120 ∨ e = epoch t ∨ e = epoch t + 120 := by
  simp only [saltTimes, keyRefreshSec, List.mem_cons, List.not_mem_nil, or_false]

/-! ## key selection -/

theorem selectKey_mem (A : AeadFns) (n c : Bytes) (cands : List Bytes) (k mb : Bytes)
    (h : selectKey A n c cands = some (k, mb)) : k ∈ cands ∧ A.openF k n c = some mb := by
  induction cands with
  | nil => simp [selectKey] at h
  | cons k0 ks ih =>
    simp only [selectKey] at h
    split at h
    · rename_i mb0 ho
      simp only [Option.some.injEq, Prod.mk.injEq] at h
      obtain ⟨rfl, rfl⟩ := h
      exact ⟨by simp, ho⟩
    · obtain ⟨h1, h2⟩ := ih h
      exact ⟨by simp [h1], h2⟩

theorem selectKey_none (A : AeadFns) (n c : Bytes) (cands : List Bytes)
    (h : ∀ k ∈ cands, A.openF k n c = none) : selectKey A n c cands = none := by
  induction cands with
  | nil => rfl
  | cons k0 ks ih =>
    simp only [selectKey, h k0 (by simp)]
    exact ih (fun k hk => h k (by simp [hk]))

/-- whatever a keyless receiver parses was opened by one of its candidate keys -/
theorem parseOne_ok_key (A : AeadFns) (r : Rx) (hk : r.key = none) (k : Bytes) (md : Meta) (p : Bytes)
    (n : Nat) (nn : Bytes) (h : parseOne A r = .ok k md p n nn) : k ∈ r.cands := by
  simp only [parseOne, hk, Option.isNone_none, if_true] at h
  split at h
  · cases h
  · split at h
    · cases h
    · rename_i k' mb hsel
      have hm := (selectKey_mem A _ _ _ _ _ hsel).1
      split at h
      · cases h
      · split at h
        · split at h
          · cases h
          · simp only [Parse.ok.injEq] at h
            rw [← h.1]; exact hm
        · split at h
          · cases h
          · split at h
            · cases h
            · simp only [Parse.ok.injEq] at h
              rw [← h.1]; exact hm

/-- a first segment whose metadata no candidate key opens is refused with the authentication
    error (never `.ok`, never `.need`) -/
theorem parseOne_no_key (A : AeadFns) (cands : List Bytes) (n0 mct rest : Bytes)
    (hn : n0.length = 24) (hm : mct.length = 48)
    (h : ∀ k ∈ cands, A.openF k n0 mct = none) :
    parseOne A { Rx.new cands with buf := n0 ++ (mct ++ rest) } = .bad .auth := by
  have hl0 : ¬ (n0 ++ (mct ++ rest)).length < 24 + 48 := by
    simp only [List.length_append, hn, hm]; omega
  have ht : (n0 ++ (mct ++ rest)).take 24 = n0 := take_left _ _ _ hn
  have hmt : ((n0 ++ (mct ++ rest)).drop 24).take 48 = mct := by
    rw [drop_left _ _ _ hn]; exact take_left _ _ _ hm
  simp only [parseOne, Rx.new, Option.isNone_none, if_true, hl0, if_false, ht, hmt,
    selectKey_none A n0 mct cands h]

theorem tcpSeal_first_shape (A : AeadFns) (key n0 : Bytes) (s : Segment) (lePad : Bool) (bytes : Bytes) (t' : Tx)
    (hs : tcpSeal A ⟨key, n0, false⟩ s lePad = some (bytes, t')) :
    ∃ tl, bytes = n0 ++ (A.sealF key n0 s.md.encode ++ tl) := by
  simp only [tcpSeal, Option.map_eq_some_iff, Prod.mk.injEq] at hs
  obtain ⟨body, _, hb, _⟩ := hs
  refine ⟨s.pad1 ++ (body ++ s.pad2), ?_⟩
  rw [← hb]; simp

/-! ## timestamps on the uint32 counter the code compares -/

theorem stamp_accept_u32 (ts tr : Int) (hts : 0 ≤ ts) (htr : 0 ≤ tr)
    (hws : ts < 257698037760000000000) (hwr : tr < 257698037760000000000)
    (h1 : -60000000000 ≤ tr - ts) (h2 : tr - ts ≤ 60000000000) :
    tsAccept (minuteU32 tr : Int) (minuteU32 ts : Int) = true := by
  rw [minuteU32_eq tr htr hwr, minuteU32_eq ts hts hws]
  have := minute_agreement ts (tr - ts) hts (by omega) h1 h2
  have e : ts + (tr - ts) = tr := by omega
  rw [e] at this
  exact (withinRange_iff _ _ 1 (by omega)).mpr (by omega)

theorem stamp_reject_u32 (ts tr : Int) (hts : 0 ≤ ts) (htr : 0 ≤ tr)
    (hws : ts < 257698037760000000000) (hwr : tr < 257698037760000000000)
    (h : tr - ts ≤ -120000000000 ∨ 120000000000 ≤ tr - ts) :
    tsAccept (minuteU32 tr : Int) (minuteU32 ts : Int) = false := by
  rw [minuteU32_eq tr htr hwr, minuteU32_eq ts hts hws]
  have := minute_far ts (tr - ts) hts (by omega) h
  have e : ts + (tr - ts) = tr := by omega
  rw [e] at this
  cases hacc : tsAccept (minute tr) (minute ts) with
  | false => rfl
  | true =>
    have := (withinRange_iff (minute tr) (minute ts) 1 (by omega)).mp hacc
    omega

end Mieru.Proofs.C08
