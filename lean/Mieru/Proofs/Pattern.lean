import Mieru.Model.Pattern
/-!
# Helper lemmas for C16: `Validate` as a predicate, ranges of the generated values
-/
namespace Mieru.Pattern

/-- the hypothesis every theorem makes about `rng.FixedInt` -/
def FixedIntOK (fi : Nat → String → Nat) : Prop := ∀ n h, 0 < n → fi n h < n

theorem fixedIntGo_nonneg (fi : Nat → String → Nat) (n : Int) (h : String) : 0 ≤ fixedIntGo fi n h := by
  unfold fixedIntGo; split <;> omega

theorem fixedIntGo_lt (fi : Nat → String → Nat) (hfi : FixedIntOK fi) (n : Int) (h : String) (hn : 0 < n) :
    fixedIntGo fi n h < n := by
  unfold fixedIntGo
  split
  · omega
  · have := hfi n.toNat h (by omega); omega

theorem fixedIntGo_zero (fi : Nat → String → Nat) (n : Int) (h : String) (hn : n ≤ 0) : fixedIntGo fi n h = 0 := by
  unfold fixedIntGo; simp [hn]

/-! ### Validate as predicates -/

def TcpValid (o : Option TcpFragment) : Prop :=
  ∀ f, o = some f → ∀ v, f.maxSleepMs = some v → 0 ≤ v ∧ v ≤ 100

def HexListValid (l : List Bytes) : Prop := ∀ s ∈ l, validHex s = true ∧ s.length / 2 ≤ 12

def NonceValid (o : Option NoncePattern) : Prop :=
  ∀ n, o = some n →
    (∀ a, n.minLen = some a → 0 ≤ a ∧ a ≤ 12) ∧ (∀ b, n.maxLen = some b → 0 ≤ b ∧ b ≤ 12) ∧
    (∀ a b, n.minLen = some a → n.maxLen = some b → a ≤ b) ∧ HexListValid n.customHex

def PaddingValid (o : Option PaddingPattern) : Prop :=
  ∀ p, o = some p → (∀ v, p.maxMiddle = some v → 0 ≤ v ∧ v ≤ 255) ∧ (∀ v, p.maxEnd = some v → 0 ≤ v ∧ v ≤ 255)

def LowEntropyValid (o : Option LowEntropyPattern) : Prop :=
  ∀ l, o = some l → (∀ m, l.mode = some m → validMode m) ∧ (∀ r, l.maskRotation = some r → validRotation r)

/-- what `Validate` checks, as a predicate -/
def Valid (p : TrafficPattern) : Prop :=
  TcpValid p.tcpFragment ∧ NonceValid p.nonce ∧ PaddingValid p.padding ∧ LowEntropyValid p.lowEntropy

theorem validateTcp_iff (o : Option TcpFragment) : validateTcpFragment o = .ok () ↔ TcpValid o := by
  unfold validateTcpFragment TcpValid
  cases o with
  | none => simp
  | some f =>
    cases h : f.maxSleepMs with
    | none => simp [h]
    | some v =>
      simp only [Option.some.injEq, forall_eq']
      simp [h]
      split
      · simp; omega
      · split <;> simp <;> omega

theorem validateHexList_iff (l : List Bytes) (i : Nat) : validateHexList l i = .ok () ↔ HexListValid l := by
  induction l generalizing i with
  | nil => simp [validateHexList, HexListValid]
  | cons s rest ih =>
    unfold validateHexList
    by_cases h1 : validHex s = true
    · by_cases h2 : s.length / 2 > 12
      · simp [h1, h2, HexListValid]; omega
      · simp [h1, h2, ih, HexListValid]; omega
    · simp [h1, HexListValid]


theorem validateNonce_iff (o : Option NoncePattern) : validateNonce o = .ok () ↔ NonceValid o := by
  unfold validateNonce NonceValid
  cases o with
  | none => simp
  | some n =>
    simp only [Option.some.injEq, forall_eq']
    rw [← validateHexList_iff n.customHex 0]
    cases h1 : n.minLen <;> cases h2 : n.maxLen <;>
      simp [bind, Except.bind, throw, throwThe, MonadExceptOf.throw, maxNonceLen]
    all_goals (repeat' split)
    all_goals first | (simp; omega) | (constructor <;> intro h <;> simp_all <;> omega)

theorem validatePadding_iff (o : Option PaddingPattern) : validatePadding o = .ok () ↔ PaddingValid o := by
  unfold validatePadding PaddingValid
  cases o with
  | none => simp
  | some n =>
    simp only [Option.some.injEq, forall_eq']
    cases h1 : n.maxMiddle <;> cases h2 : n.maxEnd <;>
      simp [bind, Except.bind, throw, throwThe, MonadExceptOf.throw, maxPaddingLen, pure, Except.pure]
    all_goals (repeat' split)
    all_goals first | (simp; omega) | (constructor <;> intro h <;> simp_all <;> omega)

theorem validateLowEntropy_iff (o : Option LowEntropyPattern) : validateLowEntropy o = .ok () ↔ LowEntropyValid o := by
  unfold validateLowEntropy LowEntropyValid
  cases o with
  | none => simp
  | some n =>
    simp only [Option.some.injEq, forall_eq']
    cases h1 : n.mode <;> cases h2 : n.maskRotation <;>
      simp [bind, Except.bind, throw, throwThe, MonadExceptOf.throw, pure, Except.pure]
    all_goals (repeat' split)
    all_goals simp_all

theorem validate_iff (p : TrafficPattern) : validate p = .ok () ↔ Valid p := by
  unfold validate Valid
  rw [← validateTcp_iff, ← validateNonce_iff, ← validatePadding_iff, ← validateLowEntropy_iff]
  cases validateTcpFragment p.tcpFragment <;> cases validateNonce p.nonce <;>
    cases validatePadding p.padding <;> cases validateLowEntropy p.lowEntropy <;>
    simp [bind, Except.bind]

/-! ### the generated values are valid -/

theorem orElse_eq {α} (o : Option α) (g v : α) (h : orElse o g = some v) : o = some v ∨ (o = none ∧ v = g) := by
  unfold orElse at h; cases o <;> simp_all

theorem genTcp_valid (fi) (hfi : FixedIntOK fi) (seed ua) (o : Option TcpFragment) (h : TcpValid o) :
    TcpValid (some (genTcpFragment fi seed ua o)) := by
  intro f hf v hv
  simp only [Option.some.injEq] at hf
  subst hf
  simp only [genTcpFragment] at hv
  rcases orElse_eq _ _ _ hv with h1 | ⟨_, h1⟩
  · cases o with
    | none => simp at h1
    | some f => exact h f rfl v (by simpa using h1)
  · subst h1
    have a := fixedIntGo_nonneg fi 100 (hint seed "tcpFragment.maxSleepMs")
    have b := fixedIntGo_lt fi hfi 100 (hint seed "tcpFragment.maxSleepMs") (by omega)
    split <;> omega

theorem genMinLenRaw_range (fi) (hfi : FixedIntOK fi) (seed ua) :
    0 ≤ genMinLenRaw fi seed ua ∧ genMinLenRaw fi seed ua ≤ 12 := by
  unfold genMinLenRaw
  have a := fixedIntGo_nonneg fi 13 (hint seed "nonce.minLen")
  have b := fixedIntGo_lt fi hfi 13 (hint seed "nonce.minLen") (by omega)
  have c := fixedIntGo_nonneg fi 7 (hint seed "nonce.minLen")
  have d := fixedIntGo_lt fi hfi 7 (hint seed "nonce.minLen") (by omega)
  split <;> omega

theorem genNonce_valid (fi) (hfi : FixedIntOK fi) (seed ua) (o : Option NoncePattern) (h : NonceValid o) :
    NonceValid (some (genNonce fi seed ua o)) := by
  intro n hn
  simp only [Option.some.injEq] at hn
  subst hn
  have hr := genMinLenRaw_range fi hfi seed ua
  simp only [genNonce]
  -- facts about the explicit part
  have hex : (∀ a, (o.getD {}).minLen = some a → 0 ≤ a ∧ a ≤ 12) ∧ (∀ b, (o.getD {}).maxLen = some b → 0 ≤ b ∧ b ≤ 12) ∧
      (∀ a b, (o.getD {}).minLen = some a → (o.getD {}).maxLen = some b → a ≤ b) ∧ HexListValid (o.getD {}).customHex := by
    cases o with
    | none => simp [HexListValid]
    | some n => exact h n rfl
  obtain ⟨e1, e2, e3, e4⟩ := hex
  generalize o.getD {} = n0 at *
  -- effective minLen
  have hmin : ∀ a, orElse n0.minLen (genMinLen fi seed ua n0.maxLen) = some a →
      0 ≤ a ∧ a ≤ 12 ∧ (∀ b, n0.maxLen = some b → a ≤ b) := by
    intro a ha
    rcases orElse_eq _ _ _ ha with h1 | ⟨h1, h2⟩
    · exact ⟨(e1 a h1).1, (e1 a h1).2, fun b hb => e3 a b h1 hb⟩
    · subst h2
      unfold genMinLen
      cases hm : n0.maxLen with
      | none => simp; omega
      | some m =>
        have := e2 m hm
        simp only
        refine ⟨by split <;> omega, by split <;> omega, ?_⟩
        intro b hb; cases hb; split <;> omega
  refine ⟨fun a ha => ⟨(hmin a ha).1, (hmin a ha).2.1⟩, ?_, ?_, e4⟩
  · intro b hb
    rcases orElse_eq _ _ _ hb with h1 | ⟨_, h2⟩
    · exact e2 b h1
    · subst h2
      cases hm : orElse n0.minLen (genMinLen fi seed ua n0.maxLen) with
      | none => unfold orElse at hm; split at hm <;> simp at hm
      | some m =>
        have := hmin m hm
        simp only [Option.getD_some]
        have a := fixedIntGo_nonneg fi (13 - m) (hint seed "nonce.maxLen")
        have b := fixedIntGo_lt fi hfi (13 - m) (hint seed "nonce.maxLen") (by omega)
        omega
  · intro a b ha hb
    have hm := hmin a ha
    rcases orElse_eq _ _ _ hb with h1 | ⟨_, h2⟩
    · exact hm.2.2 b h1
    · subst h2
      simp only [ha, Option.getD_some]
      have := fixedIntGo_nonneg fi (13 - a) (hint seed "nonce.maxLen")
      omega

theorem genPadding_valid (fi) (hfi : FixedIntOK fi) (seed ua) (o : Option PaddingPattern) (h : PaddingValid o) :
    PaddingValid (some (genPadding fi seed ua o)) := by
  intro n hn
  simp only [Option.some.injEq] at hn
  subst hn
  simp only [genPadding]
  have hex : (∀ v, (o.getD {}).maxMiddle = some v → 0 ≤ v ∧ v ≤ 255) ∧ (∀ v, (o.getD {}).maxEnd = some v → 0 ≤ v ∧ v ≤ 255) := by
    cases o with
    | none => simp
    | some n => exact h n rfl
  obtain ⟨e1, e2⟩ := hex
  generalize o.getD {} = n0 at *
  have a := fixedIntGo_nonneg fi 256 (hint seed "padding.maxMiddlePaddingLen")
  have b := fixedIntGo_lt fi hfi 256 (hint seed "padding.maxMiddlePaddingLen") (by omega)
  have c := fixedIntGo_nonneg fi 256 (hint seed "padding.maxEndPaddingLen")
  have d := fixedIntGo_lt fi hfi 256 (hint seed "padding.maxEndPaddingLen") (by omega)
  constructor
  · intro v hv
    rcases orElse_eq _ _ _ hv with h1 | ⟨_, h2⟩
    · exact e1 v h1
    · subst h2; split <;> omega
  · intro v hv
    rcases orElse_eq _ _ _ hv with h1 | ⟨_, h2⟩
    · exact e2 v h1
    · subst h2; split <;> omega

theorem rotationOfIndex_valid (i : Int) (h0 : 0 ≤ i) (h1 : i < 31) : validRotation (rotationOfIndex i) := by
  unfold validRotation rotationOfIndex
  split <;> omega

theorem genLowEntropy_valid (fi) (hfi : FixedIntOK fi) (seed ua) (o : Option LowEntropyPattern) (h : LowEntropyValid o) :
    LowEntropyValid (some (genLowEntropy fi seed ua o)) := by
  intro n hn
  simp only [Option.some.injEq] at hn
  subst hn
  simp only [genLowEntropy]
  have hex : (∀ m, (o.getD {}).mode = some m → validMode m) ∧ (∀ r, (o.getD {}).maskRotation = some r → validRotation r) := by
    cases o with
    | none => simp
    | some n => exact h n rfl
  obtain ⟨e1, e2⟩ := hex
  generalize o.getD {} = n0 at *
  have a := fixedIntGo_nonneg fi modeCount (hint seed "lowEntropy.mode")
  have b := fixedIntGo_lt fi hfi modeCount (hint seed "lowEntropy.mode") (by decide)
  have c := fixedIntGo_nonneg fi rotationCount (hint seed "lowEntropy.maskRotation")
  have d := fixedIntGo_lt fi hfi rotationCount (hint seed "lowEntropy.maskRotation") (by decide)
  constructor
  · intro v hv
    rcases orElse_eq _ _ _ hv with h1 | ⟨_, h2⟩
    · exact e1 v h1
    · subst h2; unfold validMode; simp only [modeCount] at a b ⊢; split <;> omega
  · intro v hv
    rcases orElse_eq _ _ _ hv with h1 | ⟨_, h2⟩
    · exact e2 v h1
    · subst h2; exact rotationOfIndex_valid _ c (by simpa [rotationCount] using d)

theorem effective_valid (fi) (hfi : FixedIntOK fi) (host : Int) (p : TrafficPattern) (h : Valid p) :
    Valid (effective fi host p) := by
  obtain ⟨h1, h2, h3, h4⟩ := h
  exact ⟨genTcp_valid fi hfi _ _ _ h1, genNonce_valid fi hfi _ _ _ h2, genPadding_valid fi hfi _ _ _ h3,
    genLowEntropy_valid fi hfi _ _ _ h4⟩

end Mieru.Pattern
