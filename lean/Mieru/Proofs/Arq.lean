import Mieru.Model.Arq
/-!
# Invariants of the sliding-window model (helper file for Props/C02, C13)
-/
namespace Mieru.Arq

structure Inv (s : St) : Prop where
  order : s.lo ≤ s.nextRecv ∧ s.nextRecv ≤ s.qLo ∧ s.qLo ≤ s.segs.length
  net : ∀ m ∈ s.netData, m.seq < s.qLo ∧ s.segs[m.seq]? = some m.pay
  buf : ∀ m ∈ s.recvBuf, m.seq < s.qLo ∧ s.segs[m.seq]? = some m.pay
  deliv : s.delivered = s.segs.take s.nextRecv
  acks : ∀ a ∈ s.netAck, a ≤ s.nextRecv
  hist : ∀ m ∈ s.sent, m.seq < s.qLo ∧ s.segs[m.seq]? = some m.pay
  ackHist : ∀ a ∈ s.acked, a ≤ s.nextRecv

theorem inv_init : Inv init := by
  constructor <;> simp [init]

theorem take_succ_of_get {l : List Nat} {n p : Nat} (h : l[n]? = some p) :
    l.take (n+1) = l.take n ++ [p] := by
  rw [List.take_add_one, h]; rfl

theorem drain_inv (fuel : Nat) (s : St) (h : Inv s) : Inv (drain fuel s) := by
  induction fuel generalizing s with
  | zero => simpa [drain]
  | succ n ih =>
    unfold drain
    split
    · rename_i m hm
      have hmem := List.mem_of_find?_eq_some hm
      have hseq : m.seq = s.nextRecv := by
        have := List.find?_some hm; simpa using this
      obtain ⟨hlt, hget⟩ := h.buf m hmem
      apply ih
      refine ⟨?_, ?_, ?_, ?_, ?_, ?_, ?_⟩
      · have := h.order; simp; omega
      · exact h.net
      · intro x hx; simp at hx; exact h.buf x hx.1
      · simp; rw [h.deliv, take_succ_of_get (hseq ▸ hget)]
      · intro a ha; have := h.acks a ha; simp; omega
      · exact h.hist
      · intro a ha; have := h.ackHist a ha; simp; omega
    · exact h

/-- draining never loses what was delivered and never moves `nextRecv` backwards -/
theorem drain_mono (fuel : Nat) (s : St) :
    s.nextRecv ≤ (drain fuel s).nextRecv ∧ (drain fuel s).segs = s.segs ∧ (drain fuel s).qLo = s.qLo ∧
    (drain fuel s).lo = s.lo ∧ (drain fuel s).sent = s.sent ∧ (drain fuel s).acked = s.acked := by
  induction fuel generalizing s with
  | zero => simp [drain]
  | succ n ih =>
    unfold drain
    split
    · rename_i m _
      have := ih { s with nextRecv := s.nextRecv + 1, delivered := s.delivered ++ [m.pay],
                          recvBuf := s.recvBuf.filter (fun x => x.seq != s.nextRecv) }
      simp only at this
      refine ⟨by omega, this.2.1, this.2.2.1, this.2.2.2.1, this.2.2.2.2.1, this.2.2.2.2.2⟩
    · simp

theorem step_inv {W : Nat} {s t : St} (h : Inv s) (st : Step W s t) : Inv t := by
  cases st with
  | write p =>
    refine ⟨?_, ?_, ?_, ?_, h.acks, ?_, h.ackHist⟩
    · have := h.order; simp; omega
    · intro m hm; obtain ⟨a, b⟩ := h.net m hm
      exact ⟨a, by simp; rw [List.getElem?_append_left (by have := h.order; omega)]; exact b⟩
    · intro m hm; obtain ⟨a, b⟩ := h.buf m hm
      exact ⟨a, by simp; rw [List.getElem?_append_left (by have := h.order; omega)]; exact b⟩
    · simp; rw [h.deliv, List.take_append_of_le_length (by have := h.order; omega)]
    · intro m hm; obtain ⟨a, b⟩ := h.hist m hm
      exact ⟨a, by simp; rw [List.getElem?_append_left (by have := h.order; omega)]; exact b⟩
  | sendNew p hp hw =>
    have hlen : s.qLo < s.segs.length := by
      have := List.getElem?_eq_some_iff.mp hp; exact this.1
    refine ⟨?_, ?_, ?_, h.deliv, h.acks, ?_, h.ackHist⟩
    · have := h.order; simp; omega
    · intro m hm; simp at hm
      rcases hm with rfl | hm
      · exact ⟨by simp, hp⟩
      · obtain ⟨a, b⟩ := h.net m hm; exact ⟨by simp; omega, b⟩
    · intro m hm; obtain ⟨a, b⟩ := h.buf m hm; exact ⟨by simp; omega, b⟩
    · intro m hm; simp at hm
      rcases hm with rfl | hm
      · exact ⟨by simp, hp⟩
      · obtain ⟨a, b⟩ := h.hist m hm; exact ⟨by simp; omega, b⟩
  | retransmit k p hk hp =>
    refine ⟨h.order, ?_, h.buf, h.deliv, h.acks, ?_, h.ackHist⟩
    · intro m hm; simp at hm
      rcases hm with rfl | hm
      · exact ⟨hk.2, hp⟩
      · exact h.net m hm
    · intro m hm; simp at hm
      rcases hm with rfl | hm
      · exact ⟨hk.2, hp⟩
      · exact h.hist m hm
  | dropData m =>
    exact ⟨h.order, fun x hx => h.net x (List.mem_of_mem_erase hx), h.buf, h.deliv, h.acks, h.hist, h.ackHist⟩
  | dupData m hm =>
    refine ⟨h.order, ?_, h.buf, h.deliv, h.acks, h.hist, h.ackHist⟩
    intro x hx; simp at hx; rcases hx with rfl | hx
    · exact h.net _ hm
    · exact h.net x hx
  | recvData m hm =>
    unfold recv
    apply drain_inv
    refine ⟨h.order, fun x hx => h.net x (List.mem_of_mem_erase hx), ?_, h.deliv, h.acks, h.hist, h.ackHist⟩
    intro x hx
    simp only at hx
    split at hx
    · exact h.buf x hx
    · simp at hx; rcases hx with rfl | hx
      · exact h.net _ hm
      · exact h.buf x hx
  | sendAck =>
    refine ⟨h.order, h.net, h.buf, h.deliv, ?_, h.hist, ?_⟩
    · intro a ha; simp at ha; rcases ha with rfl | ha
      · exact Nat.le_refl _
      · exact h.acks a ha
    · intro a ha; simp at ha; rcases ha with rfl | ha
      · exact Nat.le_refl _
      · exact h.ackHist a ha
  | dropAck a =>
    exact ⟨h.order, h.net, h.buf, h.deliv, fun x hx => h.acks x (List.mem_of_mem_erase hx), h.hist, h.ackHist⟩
  | dupAck a ha =>
    refine ⟨h.order, h.net, h.buf, h.deliv, ?_, h.hist, h.ackHist⟩
    intro x hx; simp at hx; rcases hx with rfl | hx
    · exact h.acks _ ha
    · exact h.acks x hx
  | recvAck a ha =>
    refine ⟨?_, h.net, h.buf, h.deliv, fun x hx => h.acks x (List.mem_of_mem_erase hx), h.hist, h.ackHist⟩
    have := h.order; have := h.acks a ha; simp; omega

theorem reach_inv {W : Nat} {s : St} (h : Reach W s) : Inv s := by
  induction h with
  | init => exact inv_init
  | step _ st ih => exact step_inv ih st

/-- nothing a step does ever shrinks what was delivered, acknowledged or discarded -/
theorem step_mono {W : Nat} {s t : St} (st : Step W s t) :
    s.nextRecv ≤ t.nextRecv ∧ s.lo ≤ t.lo ∧ s.qLo ≤ t.qLo ∧ s.segs.length ≤ t.segs.length := by
  cases st with
  | write p => simp
  | sendNew p hp hw => simp
  | retransmit k p hk hp => simp
  | dropData m => simp
  | dupData m hm => simp
  | recvData m hm =>
    unfold recv
    have := drain_mono (s.recvBuf.length + 2)
      { s with netData := s.netData.erase m, recvBuf := if m.seq < s.nextRecv then s.recvBuf else m :: s.recvBuf }
    simp only at this
    refine ⟨this.1, by rw [this.2.2.2.1]; exact Nat.le_refl _, by rw [this.2.2.1]; exact Nat.le_refl _, by rw [this.2.1]; exact Nat.le_refl _⟩
  | sendAck => simp
  | dropAck a => simp
  | dupAck a ha => simp
  | recvAck a ha => simp; omega

theorem steps_trans {W : Nat} {s t u : St} (a : Steps W s t) (b : Steps W t u) : Steps W s u := by
  induction a with
  | refl => exact b
  | cons st _ ih => exact Steps.cons st (ih b)

theorem reach_steps {W : Nat} {s t : St} (h : Reach W s) (st : Steps W s t) : Reach W t := by
  induction st with
  | refl => exact h
  | cons a _ ih => exact ih (Reach.step h a)

/-- receiving the segment numbered `nextRecv` advances the receiver -/
theorem recv_advances (s : St) (p : Nat) :
    s.nextRecv < (recv s ⟨s.nextRecv, p⟩).nextRecv := by
  unfold recv
  simp only [Nat.lt_irrefl, if_false]
  generalize hs' : ({ s with netData := s.netData.erase ⟨s.nextRecv, p⟩, recvBuf := ⟨s.nextRecv, p⟩ :: s.recvBuf } : St) = s'
  have hn : s'.nextRecv = s.nextRecv := by rw [← hs']
  have hb : s'.recvBuf = ⟨s.nextRecv, p⟩ :: s.recvBuf := by rw [← hs']
  have hfuel : s.recvBuf.length + 2 = (s.recvBuf.length + 1) + 1 := rfl
  rw [hfuel]
  unfold drain
  have hfind : s'.recvBuf.find? (fun m => m.seq == s'.nextRecv) = some ⟨s.nextRecv, p⟩ := by
    rw [hb, hn]; simp
  rw [hfind]
  simp only
  have := (drain_mono (s.recvBuf.length + 1)
    { s' with nextRecv := s'.nextRecv + 1, delivered := s'.delivered ++ [p],
              recvBuf := s'.recvBuf.filter (fun x => x.seq != s'.nextRecv) }).1
  simp only at this
  omega

/-- every sequence number below `qLo` has been transmitted at least once (no gaps) -/
theorem reach_dense {W : Nat} {s : St} (h : Reach W s) : ∀ k, k < s.qLo → ∃ m ∈ s.sent, m.seq = k := by
  induction h with
  | init => intro k hk; simp [init] at hk
  | @step s0 t0 _ st ih =>
    cases st with
    | write p => exact ih
    | sendNew p hp hw =>
      intro k hk
      simp only at hk
      by_cases he : k = s0.qLo
      · exact ⟨⟨s0.qLo, p⟩, by simp, he.symm⟩
      · obtain ⟨m, hm, hs⟩ := ih k (by omega)
        exact ⟨m, by simp [hm], hs⟩
    | retransmit k' p hk' hp =>
      intro k hk
      obtain ⟨m, hm, hs⟩ := ih k hk
      exact ⟨m, by simp [hm], hs⟩
    | dropData m => exact ih
    | dupData m hm => exact ih
    | recvData m hm =>
      intro k hk
      have hm' := drain_mono (s0.recvBuf.length + 2)
        { s0 with netData := s0.netData.erase m, recvBuf := if m.seq < s0.nextRecv then s0.recvBuf else m :: s0.recvBuf }
      unfold recv at hk ⊢
      rw [hm'.2.2.1] at hk
      rw [hm'.2.2.2.2.1]
      exact ih k hk
    | sendAck => exact ih
    | dropAck a => exact ih
    | dupAck a ha => exact ih
    | recvAck a ha => exact ih

/-- the acceptor only accepts histories that keep the invariant -/
theorem accept_inv {s t : St} (e : Ev) (h : Inv s) (ha : accept s e = some t) : Inv t := by
  cases e with
  | write p =>
    simp only [accept, Option.some.injEq] at ha
    subst ha
    exact step_inv (W := 1) h (Step.write s p)
  | send k p =>
    simp only [accept] at ha
    split at ha
    · simp at ha
    · rename_i hc
      have hp : s.segs[k]? = some p := by simpa using hc
      split at ha
      · rename_i hk
        subst hk
        simp only [Option.some.injEq] at ha
        subst ha
        have hlen : s.qLo < s.segs.length := (List.getElem?_eq_some_iff.mp hp).1
        refine ⟨?_, ?_, ?_, h.deliv, h.acks, ?_, h.ackHist⟩
        · have := h.order; simp; omega
        · intro m hm; simp at hm
          rcases hm with rfl | hm
          · exact ⟨by simp, hp⟩
          · obtain ⟨a, b⟩ := h.net m hm; exact ⟨by simp; omega, b⟩
        · intro m hm; obtain ⟨a, b⟩ := h.buf m hm; exact ⟨by simp; omega, b⟩
        · intro m hm; simp at hm
          rcases hm with rfl | hm
          · exact ⟨by simp, hp⟩
          · obtain ⟨a, b⟩ := h.hist m hm; exact ⟨by simp; omega, b⟩
      · split at ha
        · rename_i hk
          simp only [Option.some.injEq] at ha
          subst ha
          refine ⟨h.order, ?_, h.buf, h.deliv, h.acks, ?_, h.ackHist⟩
          · intro m hm; simp at hm
            rcases hm with rfl | hm
            · exact ⟨hk, hp⟩
            · exact h.net m hm
          · intro m hm; simp at hm
            rcases hm with rfl | hm
            · exact ⟨hk, hp⟩
            · exact h.hist m hm
        · simp at ha
  | deliver k p =>
    simp only [accept] at ha
    split at ha
    · rename_i hmem
      simp only [Option.some.injEq] at ha
      subst ha
      have hs := h.hist ⟨k, p⟩ hmem
      have h1 : Inv { s with netData := ⟨k, p⟩ :: s.netData } := by
        refine ⟨h.order, ?_, h.buf, h.deliv, h.acks, h.hist, h.ackHist⟩
        intro m hm; simp at hm
        rcases hm with rfl | hm
        · exact hs
        · exact h.net m hm
      exact step_inv (W := 1) h1 (Step.recvData _ ⟨k, p⟩ (by simp))
    · simp at ha
  | ack a =>
    simp only [accept] at ha
    split at ha
    · rename_i hle
      simp only [Option.some.injEq] at ha
      subst ha
      refine ⟨h.order, h.net, h.buf, h.deliv, ?_, h.hist, ?_⟩
      · intro x hx; simp at hx; rcases hx with rfl | hx
        · exact hle
        · exact h.acks x hx
      · intro x hx; simp at hx; rcases hx with rfl | hx
        · exact hle
        · exact h.ackHist x hx
    · simp at ha
  | ackIn a =>
    simp only [accept] at ha
    split at ha
    · rename_i hmem
      simp only [Option.some.injEq] at ha
      subst ha
      refine ⟨?_, h.net, h.buf, h.deliv, h.acks, h.hist, h.ackHist⟩
      have := h.order; have := h.ackHist a hmem; simp; omega
    · simp at ha

theorem acceptAll_inv (es : List Ev) {s t : St} (h : Inv s) (ha : acceptAll s es = some t) : Inv t := by
  induction es generalizing s with
  | nil => simp [acceptAll] at ha; subst ha; exact h
  | cons e es ih =>
    simp only [acceptAll] at ha
    split at ha
    · simp at ha
    · rename_i s' hs'
      exact ih (accept_inv e h hs') ha

end Mieru.Arq
