import Mieru.Model.PatternWire
/-!
# Lemmas about the emission models of `Mieru.Model.PatternWire` (C16 wire clauses)
-/
namespace Mieru.PatternWire
open Mieru.Pattern

/-! ## §1 the low-entropy session machine -/

theorem step_isClient (s : LESession) (e : LEEvent) : (step s e).1.isClient = s.isClient := by
  cases e <;> simp [step] <;> split <;> rfl

theorem step_pattern (s : LESession) (e : LEEvent) : (step s e).1.pattern = s.pattern := by
  cases e <;> simp [step] <;> split <;> rfl

theorem runState_isClient (s : LESession) (evs : List LEEvent) : (runState s evs).isClient = s.isClient := by
  induction evs generalizing s with
  | nil => rfl
  | cons e es ih => simp [runState, ih, step_isClient]

theorem runState_pattern (s : LESession) (evs : List LEEvent) : (runState s evs).pattern = s.pattern := by
  induction evs generalizing s with
  | nil => rfl
  | cons e es ih => simp [runState, ih, step_pattern]

theorem runState_append (s : LESession) (a b : List LEEvent) : runState s (a ++ b) = runState (runState s a) b := by
  induction a generalizing s with
  | nil => rfl
  | cons e es ih => simp [runState, ih]

theorem runEmits_append (s : LESession) (a b : List LEEvent) :
    runEmits s (a ++ b) = runEmits s a ++ runEmits (runState s a) b := by
  induction a generalizing s with
  | nil => rfl
  | cons e es ih => simp [runEmits, runState, ih]

/-- the flag is set only by the receipt of a client low-entropy data segment, in server role -/
theorem step_flag (s : LESession) (e : LEEvent) (h : (step s e).1.clientUsedLE = true) :
    s.clientUsedLE = true ∨ (s.isClient = false ∧ e = .recv dataClientToServerLowEntropy) := by
  cases e with
  | sendChunk n => left; simpa [step] using h
  | recv p =>
    simp only [step] at h
    split at h
    · rename_i hc
      right
      simp only [Bool.and_eq_true, Bool.not_eq_true', beq_iff_eq] at hc
      exact ⟨hc.1, by rw [hc.2]⟩
    · left; exact h

theorem runState_flag (s : LESession) (evs : List LEEvent) (h : (runState s evs).clientUsedLE = true) :
    s.clientUsedLE = true ∨ (s.isClient = false ∧ LEEvent.recv dataClientToServerLowEntropy ∈ evs) := by
  induction evs generalizing s with
  | nil => left; exact h
  | cons e es ih =>
    rcases ih (step s e).1 h with h1 | ⟨h1, h2⟩
    · rcases step_flag s e h1 with h3 | ⟨h3, h4⟩
      · left; exact h3
      · right; exact ⟨h3, by simp [h4]⟩
    · right; exact ⟨by rw [← step_isClient s e]; exact h1, by simp [h2]⟩

/-- what a `sendChunk` emits is decided by `lowEntropySendConfig` on the current flag -/
theorem mem_step_sendChunk (s : LESession) (n : Nat) (e : Emit) (h : e ∈ (step s (.sendChunk n)).2) :
    e = ⟨dataProtocolOf s.isClient (lowEntropySendConfig s.pattern s.isClient s.clientUsedLE).2.2,
         (lowEntropySendConfig s.pattern s.isClient s.clientUsedLE).1,
         (lowEntropySendConfig s.pattern s.isClient s.clientUsedLE).2.1⟩ := by
  simp only [step] at h
  exact (List.mem_replicate.mp h).2

theorem isLE_dataProtocolOf (c le : Bool) (m r : Int) : (Emit.isLE ⟨dataProtocolOf c le, m, r⟩) = le := by
  cases c <;> cases le <;> rfl

/-- every emission of a history comes from some `sendChunk` executed in the state reached by the prefix -/
theorem mem_runEmits (s : LESession) (evs : List LEEvent) (e : Emit) (h : e ∈ runEmits s evs) :
    ∃ pre n post, evs = pre ++ .sendChunk n :: post ∧ e ∈ (step (runState s pre) (.sendChunk n)).2 := by
  induction evs generalizing s with
  | nil => simp [runEmits] at h
  | cons ev es ih =>
    simp only [runEmits, List.mem_append] at h
    rcases h with h | h
    · cases ev with
      | recv p => simp [step] at h
      | sendChunk n => exact ⟨[], n, es, rfl, h⟩
    · obtain ⟨pre, n, post, h1, h2⟩ := ih _ h
      exact ⟨ev :: pre, n, post, by simp [h1], by simpa [runState] using h2⟩

/-! ## §2 nonces -/

theorem stepFlags_none (st : Bool) (n : Nat) (a : Bool) : stepFlags none st n a = List.replicate n false := by
  induction n generalizing a with
  | zero => rfl
  | succ n ih => simp [stepFlags, newNonceStep, ih, List.replicate_succ]

theorem stepFlags_some (ty : Int) (all st : Bool) (n : Nat) (a : Bool) :
    stepFlags (some (ty, all)) st n a = rewriteFlags st all n a := by
  induction n generalizing a with
  | zero => rfl
  | succ n ih =>
    simp only [stepFlags, rewriteFlags, newNonceStep]
    cases h : nonceApplies st a all
    · simp only [Bool.false_eq_true, ↓reduceIte, Bool.or_false, ih]
    · simp only [↓reduceIte, Bool.or_true, ih]

theorem newNonceStep_applied_some (ty : Int) (all st a : Bool) :
    (newNonceStep (some (ty, all)) st a).applied = (a || nonceApplies st a all) := by
  simp only [newNonceStep]
  cases h : nonceApplies st a all <;> simp

theorem encryptN_implicit_rest (pat : Option (Int × Bool)) (n : Nat) (a : Bool) :
    encryptN pat n { implicitMode := true, hasImplicitNonce := true, applied := a } = List.replicate n ⟨false, none⟩ := by
  induction n with
  | zero => rfl
  | succ n ih => simp [encryptN, encrypt, ih, List.replicate_succ]

/-- TCP (implicit nonce mode): only the first Encrypt of a cipher object sends a nonce; it is drawn by
    `newNonceTo` in stateful mode, starting from `noncePatternApplied = false` -/
theorem encryptN_tcp (pat : Option (Int × Bool)) (n : Nat) :
    encryptN pat (n + 1) { implicitMode := true } =
      ⟨true, some (newNonceStep pat false false)⟩ :: List.replicate n ⟨false, none⟩ := by
  simp [encryptN, encrypt, encryptN_implicit_rest]

/-- UDP (stateless): every Encrypt sends a nonce; which ones carry the pattern is `stepFlags` -/
theorem encryptN_udp (pat : Option (Int × Bool)) (n : Nat) (a : Bool) :
    (encryptN pat n { implicitMode := false, applied := a }).map (·.sentNonce) = List.replicate n true ∧
    (encryptN pat n { implicitMode := false, applied := a }).map (·.patterned) = stepFlags pat true n a := by
  induction n generalizing a with
  | zero => exact ⟨rfl, rfl⟩
  | succ n ih =>
    have := ih (newNonceStep pat true a).applied
    simp only [encryptN, encrypt, Bool.false_eq_true, ↓reduceIte, List.map_cons, stepFlags, List.replicate_succ]
    exact ⟨by rw [this.1], by rw [this.2]; simp [EncOut.patterned]⟩

/-- "first use of its cipher object" -/
def firstUse : List Nat → List Nat → List Bool
  | [], _ => []
  | id :: rest, seen => (!seen.contains id) :: firstUse rest (id :: seen)

theorem wireFlags_none (ids seen : List Nat) : wireFlags none ids seen = List.replicate ids.length false := by
  induction ids generalizing seen with
  | nil => rfl
  | cons id rest ih =>
    have h : (newNonceStep none true (seen.contains id)).applied = seen.contains id := rfl
    simp only [wireFlags, List.length_cons, List.replicate_succ, h]
    split <;> simp [newNonceStep, ih]

/-- with a pattern: a packet's nonce carries it iff `applyToAllUDPPacket` or the packet is the first one
    encrypted by its cipher object -/
theorem wireFlags_some (ty : Int) (all : Bool) (ids seen : List Nat) :
    wireFlags (some (ty, all)) ids seen = (firstUse ids seen).map (all || ·) := by
  induction ids generalizing seen with
  | nil => rfl
  | cons id rest ih =>
    simp only [wireFlags, firstUse, List.map_cons]
    have hap : (newNonceStep (some (ty, all)) true (seen.contains id)).applied = true := by
      rw [newNonceStep_applied_some]; simp only [nonceApplies]
      cases seen.contains id <;> cases all <;> rfl
    have hre : (newNonceStep (some (ty, all)) true (seen.contains id)).reached = (all || !seen.contains id) := by
      simp only [newNonceStep, nonceApplies]
      cases seen.contains id <;> cases all <;> rfl
    rw [hap, hre]
    simp only [↓reduceIte]
    rw [ih]

theorem firstUse_replicate (n id : Nat) (seen : List Nat) (h : seen.contains id = true) :
    firstUse (List.replicate n id) seen = List.replicate n false := by
  induction n generalizing seen with
  | zero => rfl
  | succ n ih =>
    simp only [List.replicate_succ, firstUse, h, Bool.not_true]
    rw [ih (id :: seen) (by simp)]

/-! ## §3 byte classes -/

theorem toCommon64_mem (b : UInt8) : toCommon64 b ∈ common64Set := by
  unfold toCommon64
  have hlt : (b &&& 0x3f).toNat < common64Set.length := by
    have : (b &&& 0x3f).toNat ≤ 63 := by
      rw [UInt8.toNat_and]; exact Nat.and_le_right
    have hl : common64Set.length = 64 := by decide
    omega
  rw [List.getD_eq_getElem?_getD, List.getElem?_eq_getElem hlt, Option.getD_some]
  exact List.getElem_mem _

theorem isPrintable_drawByte (r : Nat) : isPrintable (drawByte r) = true := by
  unfold isPrintable drawByte
  have h1 : r % 95 + 32 < 256 := by omega
  simp only [Bool.and_eq_true, decide_eq_true_eq, UInt8.le_iff_toNat_le, UInt8.toNat_ofNat', Nat.mod_eq_of_lt h1]
  constructor
  · show 32 ≤ r % 95 + 32; omega
  · show r % 95 + 32 ≤ 126; omega

theorem printableDet_printable (b b' : UInt8) (h : printableDet b = some b') : isPrintable b' = true := by
  unfold printableDet at h
  split at h
  · cases h; assumption
  · split at h
    · rename_i h2; cases h; simp only [Bool.and_eq_true] at h2; exact h2.2
    · cases h

theorem printableDet_of_printable (b : UInt8) (h : isPrintable b = true) : printableDet b = some b := by
  simp [printableDet, h]

theorem toPrintable_length (bs : Bytes) (ds : List Nat) : (toPrintable bs ds).length = bs.length := by
  induction bs generalizing ds with
  | nil => rfl
  | cons b bs ih => simp only [toPrintable]; split <;> simp [ih]

theorem toPrintable_all (bs : Bytes) (ds : List Nat) : ∀ x ∈ toPrintable bs ds, isPrintable x = true := by
  induction bs generalizing ds with
  | nil => simp [toPrintable]
  | cons b bs ih =>
    intro x hx
    simp only [toPrintable] at hx
    split at hx
    · rename_i b' hb
      rcases List.mem_cons.mp hx with h | h
      · subst h; exact printableDet_printable b _ hb
      · exact ih _ x h
    · rcases List.mem_cons.mp hx with h | h
      · subst h; exact isPrintable_drawByte _
      · exact ih _ x h

/-- printable input bytes are kept (the rewrite is the identity on them) -/
theorem toPrintable_of_all_printable (bs : Bytes) (ds : List Nat) (h : ∀ x ∈ bs, isPrintable x = true) :
    toPrintable bs ds = bs := by
  induction bs generalizing ds with
  | nil => rfl
  | cons b bs ih =>
    simp only [toPrintable, printableDet_of_printable b (h b (by simp))]
    rw [ih ds (fun x hx => h x (by simp [hx]))]

theorem applyFixed_spec (nonce pre : Bytes) (size : Nat) (hs : size = nonce.length) :
    (applyFixed nonce pre size).length = nonce.length ∧
    (applyFixed nonce pre size).take (min pre.length size) = pre.take (min pre.length size) ∧
    (applyFixed nonce pre size).drop (min pre.length size) = nonce.drop (min pre.length size) := by
  subst hs
  unfold applyFixed
  have hk : (pre.take (min pre.length nonce.length)).length = min pre.length nonce.length := by
    simp only [List.length_take]; omega
  refine ⟨?_, ?_, ?_⟩
  · simp only [List.length_append, List.length_take, List.length_drop]; omega
  · rw [List.take_append_of_le_length (by omega), List.take_take]; simp
  · rw [List.drop_append_of_le_length (by omega), List.drop_eq_nil_of_le (by omega)]; simp

/-- the user hint overwrites only the last four bytes: a rewritten prefix of at most `len − 4` bytes
    (rewrite lengths are ≤ 12, the nonce has 24 bytes) is not touched -/
theorem withHint_take (nonce hint4 : Bytes) (n : Nat) (h : n ≤ nonce.length - 4) :
    (withHint nonce hint4).take n = nonce.take n := by
  unfold withHint
  rw [List.take_append_of_le_length (by simp only [List.length_take]; omega), List.take_take]
  congr 1; omega

/-! ## §4 TCP fragmentation -/

theorem fragLen_pos (total remaining sq draw : Nat) (h : 0 < remaining) : 0 < fragLen total remaining sq draw := by
  unfold fragLen; simp only; omega

theorem fragLen_le (total remaining sq draw : Nat) : fragLen total remaining sq draw ≤ remaining := by
  unfold fragLen; simp only; omega

theorem fragLen_le_hi (total remaining sq draw : Nat) :
    fragLen total remaining sq draw ≤ max (sq + 1) (total / 2) := by
  unfold fragLen; simp only
  have := Nat.mod_lt draw (show 0 < max (sq + 1) (total / 2) - (sq + 1) + 1 by omega)
  omega

theorem fragLen_ge_lo_or_all (total remaining sq draw : Nat) :
    sq + 1 ≤ fragLen total remaining sq draw ∨ fragLen total remaining sq draw = remaining := by
  unfold fragLen; simp only; omega

theorem pieces_flatten {α} (total sq : Nat) (draws : Nat → Nat) (fuel k : Nat) (rem : List α) (h : rem.length ≤ fuel) :
    (pieces total sq draws fuel k rem).flatten = rem := by
  induction fuel generalizing k rem with
  | zero =>
    have : rem = [] := List.length_eq_zero_iff.mp (by omega)
    subst this; rfl
  | succ fuel ih =>
    unfold pieces
    split
    · rename_i he; simp only [List.isEmpty_iff] at he; subst he; rfl
    · rename_i he
      have hpos : 0 < rem.length := by
        cases rem with
        | nil => simp at he
        | cons _ _ => simp
      have h1 := fragLen_pos total rem.length sq (draws k) hpos
      simp only [List.flatten_cons]
      rw [ih (k + 1) _ (by simp only [List.length_drop]; omega)]
      exact List.take_append_drop _ _

theorem pieces_nonempty {α} (total sq : Nat) (draws : Nat → Nat) (fuel k : Nat) (rem : List α) :
    ∀ p ∈ pieces total sq draws fuel k rem, p ≠ [] := by
  induction fuel generalizing k rem with
  | zero => intro p hp; simp [pieces] at hp
  | succ fuel ih =>
    intro p hp
    unfold pieces at hp
    split at hp
    · simp at hp
    · rename_i he
      have hpos : 0 < rem.length := by
        cases rem with
        | nil => simp at he
        | cons _ _ => simp
      have h1 := fragLen_pos total rem.length sq (draws k) hpos
      rcases List.mem_cons.mp hp with h | h
      · subst h
        intro hnil
        have := congrArg List.length hnil
        simp only [List.length_take, List.length_nil] at this
        omega
      · exact ih _ _ p h

theorem pieces_sizesOK {α} (total sq : Nat) (draws : Nat → Nat) (fuel k : Nat) (rem : List α) (h : rem.length ≤ fuel) :
    sizesOK total sq rem.length ((pieces total sq draws fuel k rem).map List.length) = true := by
  induction fuel generalizing k rem with
  | zero =>
    have : rem = [] := List.length_eq_zero_iff.mp (by omega)
    subst this; rfl
  | succ fuel ih =>
    unfold pieces
    split
    · rename_i he; simp only [List.isEmpty_iff] at he; subst he; rfl
    · rename_i he
      have hpos : 0 < rem.length := by
        cases rem with
        | nil => simp at he
        | cons _ _ => simp
      have h1 := fragLen_pos total rem.length sq (draws k) hpos
      have h2 := fragLen_le total rem.length sq (draws k)
      have h3 := fragLen_le_hi total rem.length sq (draws k)
      have h4 := fragLen_ge_lo_or_all total rem.length sq (draws k)
      have hl : (rem.take (fragLen total rem.length sq (draws k))).length = fragLen total rem.length sq (draws k) := by
        simp only [List.length_take]; omega
      have ih' := ih (k + 1) (rem.drop (fragLen total rem.length sq (draws k))) (by simp only [List.length_drop]; omega)
      simp only [List.length_drop] at ih'
      simp only [List.map_cons, sizesOK, hl, Bool.and_eq_true, decide_eq_true_eq, Bool.or_eq_true, beq_iff_eq]
      exact ⟨⟨⟨⟨h1, h3⟩, h2⟩, h4⟩, ih'⟩

end Mieru.PatternWire
