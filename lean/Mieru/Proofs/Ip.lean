import Mieru.Model.Ip
/-!
# Go's byte tests on addresses = the RFC ranges (helper lemmas for C12)
-/
namespace Mieru.Ip

theorem foldl_be (l : List UInt8) (acc : Nat) :
    l.foldl (fun acc b => acc * 256 + b.toNat) acc = acc * 256 ^ l.length + beVal l := by
  induction l generalizing acc with
  | nil => simp [beVal]
  | cons a l ih =>
    simp only [List.foldl_cons, List.length_cons, beVal]
    rw [ih, ih (0 * 256 + a.toNat)]
    simp only [Nat.zero_mul, Nat.zero_add, Nat.pow_succ]
    rw [Nat.add_mul, Nat.mul_assoc, Nat.mul_comm 256 (256 ^ l.length), Nat.add_assoc]

theorem beVal_nil : beVal [] = 0 := rfl

theorem beVal_cons (a : UInt8) (l : List UInt8) : beVal (a :: l) = a.toNat * 256 ^ l.length + beVal l := by
  have := foldl_be l (0 * 256 + a.toNat)
  simp only [Nat.zero_mul, Nat.zero_add] at this
  simpa [beVal] using this

theorem beVal_lt (l : List UInt8) : beVal l < 256 ^ l.length := by
  induction l with
  | nil => simp [beVal]
  | cons a l ih =>
    rw [beVal_cons, List.length_cons, Nat.pow_succ]
    have ha := a.toNat_lt
    have : a.toNat * 256 ^ l.length + 256 ^ l.length ≤ 256 ^ l.length * 256 := by
      rw [Nat.mul_comm (256 ^ l.length) 256]
      have : (a.toNat + 1) * 256 ^ l.length ≤ 256 * 256 ^ l.length := Nat.mul_le_mul_right _ (by omega)
      rw [Nat.add_mul, Nat.one_mul] at this
      exact this
    omega

theorem beVal_append (p s : List UInt8) : beVal (p ++ s) = beVal p * 256 ^ s.length + beVal s := by
  induction p with
  | nil => simp [beVal_nil]
  | cons a p ih =>
    rw [List.cons_append, beVal_cons, beVal_cons, ih, List.length_append, Nat.pow_add, Nat.add_mul,
      Nat.mul_assoc, Nat.add_assoc]

/-- base-`K` digits are unique -/
theorem digits_unique {a b x y K : Nat} (hx : x < K) (hy : y < K) (h : a * K + x = b * K + y) :
    a = b ∧ x = y := by
  have hK : 0 < K := by omega
  have h1 : (a * K + x) / K = a := by
    rw [Nat.mul_comm, Nat.mul_add_div hK, Nat.div_eq_of_lt hx, Nat.add_zero]
  have h2 : (b * K + y) / K = b := by
    rw [Nat.mul_comm, Nat.mul_add_div hK, Nat.div_eq_of_lt hy, Nat.add_zero]
  have hab : a = b := by rw [← h1, ← h2, h]
  subst hab
  exact ⟨rfl, by omega⟩

theorem beVal_inj : ∀ (p q : List UInt8), p.length = q.length → beVal p = beVal q → p = q
  | [], [], _, _ => rfl
  | [], _ :: _, hl, _ => by simp at hl
  | _ :: _, [], hl, _ => by simp at hl
  | a :: p, b :: q, hl, hv => by
    have hl' : p.length = q.length := by simpa using hl
    rw [beVal_cons, beVal_cons, hl'] at hv
    have hp := beVal_lt p
    rw [hl'] at hp
    obtain ⟨hab, hpq⟩ := digits_unique hp (beVal_lt q) hv
    have : a = b := UInt8.toNat_inj.mp hab
    rw [this, beVal_inj p q hl' hpq]

/-- an address equals a constant of the same length iff the values agree -/
theorem eq_iff_beVal (ip c : List UInt8) (hl : ip.length = c.length) : ip = c ↔ beVal ip = beVal c :=
  ⟨fun h => by rw [h], beVal_inj ip c hl⟩

theorem list4 {l : List UInt8} (h : l.length = 4) : ∃ a b c d, l = [a, b, c, d] := by
  match l, h with
  | [a, b, c, d], _ => exact ⟨a, b, c, d, rfl⟩

theorem beVal4 (a b c d : UInt8) :
    beVal [a, b, c, d] = a.toNat * 16777216 + b.toNat * 65536 + c.toNat * 256 + d.toNat := by
  simp [beVal]; omega

theorem and_f0 : ∀ n, n < 256 → ((n &&& 240 = 16) ↔ (16 ≤ n ∧ n ≤ 31)) := by decide +kernel
theorem and_fe : ∀ n, n < 256 → ((n &&& 254 = 252) ↔ (252 ≤ n ∧ n ≤ 253)) := by decide +kernel

theorem u8_and_f0 (b : UInt8) : ((b &&& 0xf0) == 16) = true ↔ (16 ≤ b.toNat ∧ b.toNat ≤ 31) := by
  rw [beq_iff_eq, ← UInt8.toNat_inj, UInt8.toNat_and]
  exact and_f0 b.toNat b.toNat_lt

theorem u8_and_fe (b : UInt8) : ((b &&& 0xfe) == 0xfc) = true ↔ (252 ≤ b.toNat ∧ b.toNat ≤ 253) := by
  rw [beq_iff_eq, ← UInt8.toNat_inj, UInt8.toNat_and]
  exact and_fe b.toNat b.toNat_lt

theorem u8_beq (a : UInt8) (n : Nat) (hn : n < 256) : (a == UInt8.ofNat n) = true ↔ a.toNat = n := by
  rw [beq_iff_eq, ← UInt8.toNat_inj]
  simp [UInt8.toNat_ofNat, Nat.mod_eq_of_lt hn]

/-- a 16-byte address is IPv4-mapped (Go: first 12 bytes = `v4InV6Prefix`) iff its value lies in
    `::ffff:0.0.0.0 – ::ffff:255.255.255.255`; its IPv4 value is then that of the last 4 bytes -/
theorem mapped_iff (ip : IP) (h : ip.length = 16) :
    (ip.take 12 = v4InV6Prefix ↔ (0xffff00000000 ≤ beVal ip ∧ beVal ip ≤ 0xffffffffffff)) ∧
    beVal ip = beVal (ip.take 12) * 4294967296 + beVal (ip.drop 12) ∧ beVal (ip.drop 12) < 4294967296 := by
  have hsplit : ip = ip.take 12 ++ ip.drop 12 := (List.take_append_drop 12 ip).symm
  have hlt : (ip.take 12).length = 12 := by simp; omega
  have hld : (ip.drop 12).length = 4 := by simp; omega
  have hv : beVal ip = beVal (ip.take 12) * 4294967296 + beVal (ip.drop 12) := by
    conv => lhs; rw [hsplit]
    rw [beVal_append, hld]
  have hs : beVal (ip.drop 12) < 4294967296 := by
    have := beVal_lt (ip.drop 12); rw [hld] at this; exact this
  have hpre : beVal v4InV6Prefix = 65535 := by decide
  refine ⟨?_, hv, hs⟩
  rw [eq_iff_beVal _ _ (by rw [hlt]; rfl), hpre]
  omega

theorem case4 (a b c d : UInt8) :
    to4 [a, b, c, d] = some [a, b, c, d] ∧ v4Val [a, b, c, d] = some (beVal [a, b, c, d]) ∧
    v6Val [a, b, c, d] = none := by
  simp [to4, v4Val, v6Val]

theorem case16m (ip : IP) (h : ip.length = 16) (hm : ip.take 12 = v4InV6Prefix) :
    ∃ a b c d, ip = v4InV6Prefix ++ [a, b, c, d] ∧ to4 ip = some [a, b, c, d] ∧
      v4Val ip = some (beVal [a, b, c, d]) ∧ v6Val ip = none := by
  obtain ⟨hiff, hv, hs⟩ := mapped_iff ip h
  have hr := hiff.mp hm
  obtain ⟨a, b, c, d, hd⟩ := list4 (l := ip.drop 12) (by simp; omega)
  refine ⟨a, b, c, d, ?_, ?_, ?_, ?_⟩
  · rw [← hm, ← hd]; exact (List.take_append_drop 12 ip).symm
  · simp [to4, h, hm, hd]
  · have hpre : beVal v4InV6Prefix = 65535 := by decide
    rw [hm, hpre, hd] at hv
    simp only [v4Val, h, hr]
    simp
    omega
  · simp [v6Val, h, hr]

theorem case16n (ip : IP) (h : ip.length = 16) (hm : ip.take 12 ≠ v4InV6Prefix) :
    to4 ip = none ∧ v4Val ip = none ∧ v6Val ip = some (beVal ip) := by
  obtain ⟨hiff, _, _⟩ := mapped_iff ip h
  have hr : ¬ (0xffff00000000 ≤ beVal ip ∧ beVal ip ≤ 0xffffffffffff) := fun x => hm (hiff.mpr x)
  refine ⟨by simp [to4, h, hm], ?_, ?_⟩
  · simp only [v4Val, h]; simp; omega
  · simp only [v6Val, h]; simp; omega

/-- Go's `IsLoopback` = 127.0.0.0/8 (also IPv4-mapped) ∪ {::1} -/
theorem isLoopback_spec (ip : IP) (h : ip.length = 4 ∨ ip.length = 16) :
    isLoopback ip = true ↔ specLoopback ip := by
  rcases h with h | h
  · obtain ⟨a, b, c, d, rfl⟩ := list4 h
    obtain ⟨h1, h2, h3⟩ := case4 a b c d
    have ha := a.toNat_lt; have hb := b.toNat_lt; have hc := c.toNat_lt; have hd := d.toNat_lt
    simp only [isLoopback, specLoopback, h1, h2, h3, beVal4, List.head?_cons]
    have : ((some a == some 127) = true) ↔ a.toNat = 127 := by
      rw [beq_iff_eq, Option.some.injEq, ← UInt8.toNat_inj]; rfl
    rw [this]
    constructor
    · intro e; exact Or.inl ⟨_, rfl, by omega, by omega⟩
    · rintro (⟨v, hv, h1, h2⟩ | h) <;> simp at *; omega
  · by_cases hm : ip.take 12 = v4InV6Prefix
    · obtain ⟨a, b, c, d, _, h1, h2, h3⟩ := case16m ip h hm
      have ha := a.toNat_lt; have hb := b.toNat_lt; have hc := c.toNat_lt; have hd := d.toNat_lt
      simp only [isLoopback, specLoopback, h1, h2, h3, beVal4, List.head?_cons]
      have : ((some a == some 127) = true) ↔ a.toNat = 127 := by
        rw [beq_iff_eq, Option.some.injEq, ← UInt8.toNat_inj]; rfl
      rw [this]
      constructor
      · intro e; exact Or.inl ⟨_, rfl, by omega, by omega⟩
      · rintro (⟨v, hv, h1, h2⟩ | h) <;> simp at *; omega
    · obtain ⟨h1, h2, h3⟩ := case16n ip h hm
      simp only [isLoopback, specLoopback, h1, h2, h3]
      rw [beq_iff_eq, eq_iff_beVal ip ipv6loopback (by rw [h]; rfl)]
      have : beVal ipv6loopback = 1 := by decide
      rw [this]
      simp

theorem priv4 (a b c d : UInt8) :
    ((a == 10 || (a == 172 && (b &&& 0xf0) == 16) || (a == 192 && b == 168)) = true) ↔
    ((0x0a000000 ≤ beVal [a, b, c, d] ∧ beVal [a, b, c, d] ≤ 0x0affffff) ∨
     (0xac100000 ≤ beVal [a, b, c, d] ∧ beVal [a, b, c, d] ≤ 0xac1fffff) ∨
     (0xc0a80000 ≤ beVal [a, b, c, d] ∧ beVal [a, b, c, d] ≤ 0xc0a8ffff)) := by
  have ha := a.toNat_lt; have hb := b.toNat_lt; have hc := c.toNat_lt; have hd := d.toNat_lt
  have e10 := u8_beq a 10 (by omega)
  have e172 := u8_beq a 172 (by omega)
  have e192 := u8_beq a 192 (by omega)
  have e168 := u8_beq b 168 (by omega)
  have ef0 := u8_and_f0 b
  simp only [Bool.or_eq_true, Bool.and_eq_true]
  rw [beVal4]
  have x10 : (a == 10) = true ↔ a.toNat = 10 := e10
  have x172 : (a == 172) = true ↔ a.toNat = 172 := e172
  have x192 : (a == 192) = true ↔ a.toNat = 192 := e192
  have x168 : (b == 168) = true ↔ b.toNat = 168 := e168
  rw [x10, x172, x192, x168, ef0]
  omega

/-- Go's `IsPrivate` = RFC 1918 (also IPv4-mapped) ∪ RFC 4193 fc00::/7 -/
theorem isPrivate_spec (ip : IP) (h : ip.length = 4 ∨ ip.length = 16) :
    isPrivate ip = true ↔ specPrivate ip := by
  rcases h with h | h
  · obtain ⟨a, b, c, d, rfl⟩ := list4 h
    obtain ⟨h1, h2, h3⟩ := case4 a b c d
    simp only [isPrivate, specPrivate, h1, h2, h3]
    rw [priv4 a b c d]
    constructor
    · intro e; exact Or.inl ⟨_, rfl, e⟩
    · rintro (⟨v, hv, e⟩ | ⟨v, hv, _⟩)
      · cases hv; exact e
      · cases hv
  · by_cases hm : ip.take 12 = v4InV6Prefix
    · obtain ⟨a, b, c, d, _, h1, h2, h3⟩ := case16m ip h hm
      simp only [isPrivate, specPrivate, h1, h2, h3]
      rw [priv4 a b c d]
      constructor
      · intro e; exact Or.inl ⟨_, rfl, e⟩
      · rintro (⟨v, hv, e⟩ | ⟨v, hv, _⟩)
        · cases hv; exact e
        · cases hv
    · obtain ⟨h1, h2, h3⟩ := case16n ip h hm
      match ip, h with
      | a :: rest, h =>
        have hr : rest.length = 15 := by simpa using h
        have hv := beVal_cons a rest
        have hlt := beVal_lt rest
        rw [hr] at hv hlt
        have hp : (256 : Nat) ^ 15 = 1329227995784915872903807060280344576 := by decide
        have hq : (2 : Nat) ^ 112 = 5192296858534827628530496329220096 := by decide
        rw [hp] at hv hlt
        have ha := a.toNat_lt
        simp only [isPrivate, specPrivate, h1, h2, h3, h, hq]
        have : ((16 : Nat) == 16) = true := rfl
        simp only [List.length_cons, hr, Bool.and_eq_true, this, true_and]
        rw [u8_and_fe a]
        constructor
        · intro e; exact Or.inr ⟨_, rfl, by omega, by omega⟩
        · rintro (⟨v, hv', _⟩ | ⟨v, hv', e1, e2⟩)
          · cases hv'
          · cases hv'; omega

/-- Go's `IsUnspecified` = 0.0.0.0 (also IPv4-mapped) or :: -/
theorem isUnspecified_spec (ip : IP) (h : ip.length = 4 ∨ ip.length = 16) :
    isUnspecified ip = true ↔ specUnspecified ip := by
  have z4 : beVal ipv4zero = 0 := by decide
  have z16 : beVal ipv6unspecified = 0 := by decide
  have zm : beVal (v4InV6Prefix ++ ipv4zero) = 0xffff00000000 := by decide
  rcases h with h | h
  · obtain ⟨a, b, c, d, rfl⟩ := list4 h
    obtain ⟨h1, h2, h3⟩ := case4 a b c d
    simp only [isUnspecified, specUnspecified, h2, h3, Bool.or_eq_true, beq_iff_eq]
    rw [eq_iff_beVal [a, b, c, d] ipv4zero rfl, z4]
    have n1 : ¬ ([a, b, c, d] = v4InV6Prefix ++ ipv4zero) := by intro e; simpa [v4InV6Prefix, ipv4zero] using congrArg List.length e
    have n2 : ¬ ([a, b, c, d] = ipv6unspecified) := by intro e; simpa [ipv6unspecified] using congrArg List.length e
    simp [n1, n2]
  · have n0 : ¬ (ip = ipv4zero) := by intro e; rw [e] at h; simp [ipv4zero] at h
    by_cases hm : ip.take 12 = v4InV6Prefix
    · obtain ⟨a, b, c, d, he, h1, h2, h3⟩ := case16m ip h hm
      simp only [isUnspecified, specUnspecified, h2, h3, Bool.or_eq_true, beq_iff_eq]
      have n2 : ¬ (ip = ipv6unspecified) := by
        intro e; rw [e] at hm; revert hm; decide
      have : ip = v4InV6Prefix ++ ipv4zero ↔ beVal [a, b, c, d] = 0 := by
        rw [he]
        constructor
        · intro e
          have := List.append_cancel_left e
          rw [this]; exact z4
        · intro e
          have : [a, b, c, d] = ipv4zero := (eq_iff_beVal [a, b, c, d] ipv4zero rfl).mpr (by rw [e, z4])
          rw [this]
      simp [n0, n2, this]
    · obtain ⟨h1, h2, h3⟩ := case16n ip h hm
      simp only [isUnspecified, specUnspecified, h2, h3, Bool.or_eq_true, beq_iff_eq]
      have n1 : ¬ (ip = v4InV6Prefix ++ ipv4zero) := by
        intro e; apply hm; rw [e]; decide
      rw [eq_iff_beVal ip ipv6unspecified (by rw [h]; rfl), z16]
      simp [n0, n1]

/-- the classes are disjoint where the egress check needs it -/
theorem loopback_not_private (ip : IP) (h : isLoopback ip = true) : isPrivate ip = false := by
  unfold isLoopback at h
  unfold isPrivate
  cases h4 : to4 ip with
  | some ip4 =>
    rw [h4] at h
    match ip4, h with
    | [], h => simp at h
    | [a], _ => rfl
    | a :: b :: _, h =>
      have : a = 127 := by simpa using h
      subst this
      simp
  | none =>
    rw [h4] at h
    have : ip = ipv6loopback := by simpa using h
    subst this
    decide

theorem unspecified_not_private (ip : IP) (h : isUnspecified ip = true) : isPrivate ip = false := by
  unfold isUnspecified at h
  simp only [Bool.or_eq_true, beq_iff_eq] at h
  rcases h with (h | h) | h <;> subst h <;> decide

end Mieru.Ip
