import Mieru.Model.UnderlayClose
/-!
Termination half of "Close always completes": every step the transport's own goroutines take strictly
decreases `UClose.measure`, whatever the shape of the code.
-/
namespace Mieru.UClose

@[simp] theorem upd_same {α : Type} (f : Nat → α) (i : Nat) (v : α) : upd f i v i = v := by simp [upd]
theorem upd_other {α : Type} (f : Nat → α) {i j : Nat} (v : α) (h : j ≠ i) : upd f i v j = f j := by simp [upd, h]

theorem sumTo_congr {f g : Nat → Nat} {n : Nat} (h : ∀ j, j < n → g j = f j) : sumTo g n = sumTo f n := by
  induction n with
  | zero => rfl
  | succ k ih =>
    simp only [sumTo]
    rw [ih (fun j hj => h j (by omega)), h k (by omega)]

theorem sumTo_change {f g : Nat → Nat} {n i : Nat} (hi : i < n) (h : ∀ j, j ≠ i → g j = f j) :
    sumTo g n + f i = sumTo f n + g i := by
  induction n with
  | zero => omega
  | succ k ih =>
    simp only [sumTo]
    by_cases hik : i = k
    · subst hik
      have := sumTo_congr (f := f) (g := g) (n := i) (fun j hj => h j (by omega))
      omega
    · have := ih (by omega)
      have := h k (fun e => hik e.symm)
      omega

/-- the closers' part of the measure when slot `k` moves from `s.cl k` to `v` -/
theorem crank_sum_upd (n m : Nat) (cl : Nat → CPC) (k : Nat) (v : CPC) (hk : k < m) :
    sumTo (fun j => crank n (upd cl k v j)) m + crank n (cl k) = sumTo (fun j => crank n (cl j)) m + crank n v := by
  have := sumTo_change (f := fun j => crank n (cl j)) (g := fun j => crank n (upd cl k v j)) hk
    (fun j hj => by simp [upd_other cl v hj])
  simpa using this

end Mieru.UClose

namespace Mieru.UClose

theorem srank_sum_same (s t : St) (hn : t.n = s.n) (hr : t.req = s.req) (hc : t.closed = s.closed)
    (hru : t.run = s.run) (hne : t.net = s.net) : sumTo (srank t) t.n = sumTo (srank s) s.n := by
  rw [hn]
  apply sumTo_congr
  intro j _
  simp [srank, hr, hc, hru, hne]

/-- the session part of the measure when only session `i` changed -/
theorem srank_sum_at (s t : St) (i : Nat) (hn : t.n = s.n) (hi : i < s.n)
    (h : ∀ j, j ≠ i → t.req j = s.req j ∧ t.closed j = s.closed j ∧ t.run j = s.run j ∧ t.net j = s.net j) :
    sumTo (srank t) t.n + srank s i = sumTo (srank s) s.n + srank t i := by
  rw [hn]
  apply sumTo_change hi
  intro j hj
  obtain ⟨a, b, c, d⟩ := h j hj
  simp [srank, a, b, c, d]

theorem srank_sum_req (s : St) (i : Nat) :
    sumTo (srank { s with req := upd s.req i true }) s.n ≤ sumTo (srank s) s.n + 1 := by
  by_cases hi : i < s.n
  · have := srank_sum_at s { s with req := upd s.req i true } i rfl hi
      (fun j hj => by simp [upd_other s.req true hj])
    simp only [srank, upd_same] at this
    split at this <;> split at this <;> omega
  · have : sumTo (srank { s with req := upd s.req i true }) s.n = sumTo (srank s) s.n := by
      apply sumTo_congr
      intro j hj
      have : j ≠ i := by omega
      simp [srank, upd_other s.req true this]
    omega

theorem lbase_le (dl : Dl) (l : LoopPC) : lbase dl l ≤ lbase .past l ∧ lbase .past l ≤ lbase dl l + 5 := by
  induction l with
  | inClose a ih => simp only [lbase]; omega
  | clean r => cases r <;> simp [lbase]
  | _ => cases dl <;> simp [lbase]

end Mieru.UClose

namespace Mieru.UClose

macro "crk" : tactic => `(tactic| simp only [crank] at *)

/-- a step of a caller of `Close` that touches neither the sessions nor the read deadline -/
theorem closer_plain (s t : St) (k : Nat) (v : CPC) (hk : k < s.m)
    (hn : t.n = s.n) (hm : t.m = s.m) (hcl : t.cl = upd s.cl k v) (hdl : t.dl = s.dl) (hl : t.loop = s.loop)
    (hmx : t.mux = s.mux) (hr : t.req = s.req) (hc : t.closed = s.closed) (hru : t.run = s.run) (hne : t.net = s.net)
    (hv : crank s.n v < crank s.n (s.cl k)) : measure t < measure s := by
  have key := crank_sum_upd s.n s.m s.cl k v hk
  have hs := srank_sum_same s t hn hr hc hru hne
  simp only [measure, hn, hm, hcl, hdl, hl, hmx] at *
  omega

/-- a step of the event loop alone (possibly changing the read deadline) -/
theorem loop_plain (s t : St) (hn : t.n = s.n) (hm : t.m = s.m) (hcl : t.cl = s.cl)
    (hmx : t.mux = s.mux) (hr : t.req = s.req) (hc : t.closed = s.closed) (hru : t.run = s.run) (hne : t.net = s.net)
    (hv : lrank s.n t.dl t.loop < lrank s.n s.dl s.loop) : measure t < measure s := by
  have hs := srank_sum_same s t hn hr hc hru hne
  simp only [measure, hn, hm, hcl, hmx] at *
  omega

theorem own_decreases {sh : Shape} {s t : St} (h : OwnStep sh s t) : measure t < measure s := by
  cases h with
  | finClose i hi h hc =>
    have := srank_sum_at s { s with closed := upd s.closed i true } i rfl hi
      (fun j hj => by simp [upd_other s.closed true hj])
    simp only [measure, srank, upd_same, h, hc] at *
    simp at this
    omega
  | loopExit i hi h hr =>
    have := srank_sum_at s { s with run := upd s.run i (s.run i - 1) } i rfl hi
      (fun j hj => by simp [upd_other s.run _ hj])
    simp only [measure, srank, upd_same] at *
    omega
  | netWake i hi h hw =>
    have := srank_sum_at s { s with net := upd s.net i (s.net i - 1), run := upd s.run i (s.run i + 1) } i rfl hi
      (fun j hj => by simp [upd_other s.run _ hj, upd_other s.net _ hj])
    simp only [measure, srank, upd_same] at *
    omega
  | lock k hk h hh => exact closer_plain s _ k .chk hk rfl rfl rfl rfl rfl rfl rfl rfl rfl rfl (by rw [h]; crk; omega)
  | chkDone k hk h hd => exact closer_plain s _ k .unlock hk rfl rfl rfl rfl rfl rfl rfl rfl rfl rfl (by rw [h]; crk; omega)
  | chkOpen k hk h hd => exact closer_plain s _ k .poke1 hk rfl rfl rfl rfl rfl rfl rfl rfl rfl rfl (by rw [h]; crk; omega)
  | poke1 k hk h =>
    have key := crank_sum_upd s.n s.m s.cl k (.sess 0 s.n) hk
    have hl := lbase_le s.dl s.loop
    have hs := srank_sum_same s { s with dl := .past, wpast := s.wpast || s.stream, snap := s.n, cl := upd s.cl k (.sess 0 s.n) } rfl rfl rfl rfl rfl
    simp only [measure, lrank] at *
    rw [h] at key
    crk
    omega
  | sessClose k i b hk h hi =>
    have key := crank_sum_upd s.n s.m s.cl k (.wait i b) hk
    have hs := srank_sum_req s i
    simp only [measure] at *
    rw [h] at key
    crk
    have e : sumTo (srank { s with req := upd s.req i true, cl := upd s.cl k (.wait i b) }) s.n
        = sumTo (srank { s with req := upd s.req i true }) s.n := sumTo_congr (fun j _ => by simp [srank])
    rw [e]
    omega
  | sessEnd k i b hk h hi => exact closer_plain s _ k .closeDone hk rfl rfl rfl rfl rfl rfl rfl rfl rfl rfl (by rw [h]; crk; omega)
  | wgWait k i b hk h hi hc hr hn => exact closer_plain s _ k (.sess (i + 1) b) hk rfl rfl rfl rfl rfl rfl rfl rfl rfl rfl (by rw [h]; crk; omega)
  | closeDone k hk h =>
    exact closer_plain s _ k _ hk rfl rfl rfl rfl rfl rfl rfl rfl rfl rfl (by rw [h]; cases sh.pokeAfterDone <;> (simp only [if_true, if_false, Bool.false_eq_true]; crk; omega))
  | poke2 k hk h =>
    have key := crank_sum_upd s.n s.m s.cl k .unlock hk
    have hl := lbase_le s.dl s.loop
    have hs := srank_sum_same s { s with dl := .past, poked2 := true, cl := upd s.cl k .unlock } rfl rfl rfl rfl rfl
    simp only [measure, lrank] at *
    rw [h] at key
    crk
    omega
  | unlock k hk h => exact closer_plain s _ k .ret hk rfl rfl rfl rfl rfl rfl rfl rfl rfl rfl (by rw [h]; crk; omega)
  | muxCancel h =>
    have hs := srank_sum_same s { s with ctx := s.ctx || s.server, mux := .call } rfl rfl rfl rfl rfl
    simp only [measure, h, mrank] at *
    omega
  | muxCall hm h hc =>
    have key := crank_sum_upd s.n s.m s.cl 1 .lock hm
    have hs := srank_sum_same s { s with cl := upd s.cl 1 .lock, mux := .closing } rfl rfl rfl rfl rfl
    rw [hc] at key
    simp only [measure, h, mrank, callCost] at *
    crk
    omega
  | muxClosed h hc =>
    have hs := srank_sum_same s { s with mux := .wait } rfl rfl rfl rfl rfl
    simp only [measure, h, mrank] at *
    omega
  | muxWait h hl =>
    have hs := srank_sum_same s { s with mux := .ret } rfl rfl rfl rfl rfl
    simp only [measure, h, mrank] at *
    omega
  | topCtxStream h hc hs => exact loop_plain s _ rfl rfl rfl rfl rfl rfl rfl rfl (by simp only [lrank, h, lbase, lcalls]; omega)
  | topCtxPacket h hc hs => exact loop_plain s _ rfl rfl rfl rfl rfl rfl rfl rfl (by simp only [lrank, h, lbase, lcalls]; omega)
  | topDone h hc hd => exact loop_plain s _ rfl rfl rfl rfl rfl rfl rfl rfl (by simp only [lrank, h, lbase, lcalls]; omega)
  | topRead h hc hd => exact loop_plain s _ rfl rfl rfl rfl rfl rfl rfl rfl (by cases s.stream <;> simp [lrank, h, lbase, lcalls])
  | cleanDone r h hcl =>
    exact loop_plain s _ rfl rfl rfl rfl rfl rfl rfl rfl (by cases r <;> simp [lrank, h, lbase, lcalls] <;> omega)
  | ctxCloseCall hm h hc =>
    have key := crank_sum_upd s.n s.m s.cl 0 .lock hm
    have hs := srank_sum_same s { s with cl := upd s.cl 0 .lock, loop := .inClose (.clean true) } rfl rfl rfl rfl rfl
    rw [hc] at key
    simp only [measure, lrank, h, lbase, lcalls, callCost] at *
    crk
    omega
  | closeReturned a hm h hc =>
    have key := crank_sum_upd s.n s.m s.cl 0 .idle hm
    have hs := srank_sum_same s { s with cl := upd s.cl 0 .idle, loop := a } rfl rfl rfl rfl rfl
    rw [hc] at key
    simp only [measure, lrank, h, lbase, lcalls] at *
    crk
    omega
  | preClosed h hd => exact loop_plain s _ rfl rfl rfl rfl rfl rfl rfl rfl (by simp only [lrank, h, lbase, lcalls]; omega)
  | preOpen h hd => exact loop_plain s _ rfl rfl rfl rfl rfl rfl rfl rfl (by simp only [lrank, h, lbase, lcalls]; omega)
  | arm h =>
    exact loop_plain s _ rfl rfl rfl rfl rfl rfl rfl rfl (by cases sh.checkAfterArm <;> simp [lrank, h, lbase, lcalls])
  | checkDone h hd =>
    exact loop_plain s _ rfl rfl rfl rfl rfl rfl rfl rfl (by simp only [lrank, h, lbase, lcalls]; split <;> omega)
  | checkOpen h hd =>
    exact loop_plain s _ rfl rfl rfl rfl rfl rfl rfl rfl (by simp only [lrank, h, lbase, lcalls]; split <;> omega)
  | readTimeout h hp =>
    exact loop_plain s _ rfl rfl rfl rfl rfl rfl rfl rfl (by simp [lrank, h, hp, lbase, lcalls])
  | readMoreTimeout h hp =>
    exact loop_plain s _ rfl rfl rfl rfl rfl rfl rfl rfl (by simp [lrank, h, hp, lbase, lcalls])
  | errDone c h hd => exact loop_plain s _ rfl rfl rfl rfl rfl rfl rfl rfl (by simp only [lrank, h, lbase, lcalls]; omega)
  | errDrain h hd hs => exact loop_plain s _ rfl rfl rfl rfl rfl rfl rfl rfl (by simp only [lrank, h, lbase, lcalls]; omega)
  | errReturn c h hd hs => exact loop_plain s _ rfl rfl rfl rfl rfl rfl rfl rfl (by simp only [lrank, h, lbase, lcalls]; omega)
  | drainArm h =>
    exact loop_plain s _ rfl rfl rfl rfl rfl rfl rfl rfl (by cases sh.drainChecked <;> cases s.done <;> simp [lrank, h, lbase, lcalls])
  | drainTimeout h hp =>
    exact loop_plain s _ rfl rfl rfl rfl rfl rfl rfl rfl (by simp [lrank, h, hp, lbase, lcalls])
  | deliverGiveUp i h hc => exact loop_plain s _ rfl rfl rfl rfl rfl rfl rfl rfl (by simp only [lrank, h, lbase, lcalls]; omega)
  | readyGiveUp h hd =>
    exact loop_plain s _ rfl rfl rfl rfl rfl rfl rfl rfl (by cases s.stream <;> simp [lrank, h, lbase, lcalls] <;> omega)
  | returned h => exact loop_plain s _ rfl rfl rfl rfl rfl rfl rfl rfl (by simp only [lrank, h, lbase, lcalls]; omega)
  | ownCloseCall hm h hc =>
    have key := crank_sum_upd s.n s.m s.cl 0 .lock hm
    have hs := srank_sum_same s { s with cl := upd s.cl 0 .lock, loop := .inClose .exited } rfl rfl rfl rfl rfl
    rw [hc] at key
    simp only [measure, lrank, h, lbase, lcalls, callCost] at *
    crk
    omega
end Mieru.UClose
