import Mieru.Model.CloseWriter
import Mieru.Proofs.StreamPrefix
/-!
# The stream-transport writer: what reaches the wire, and in which order (helper file for Props/C03)
-/
namespace Mieru.CloseStream
open Mieru

/-! ## List lemmas -/

theorem closeReq_not_data (frags : List Bytes) : Item.closeReq ∉ frags.map Item.data := by
  intro h
  obtain ⟨p, _, hp⟩ := List.mem_map.mp h
  cases hp

/-- a prefix of the mapped fragments is the map of a prefix of the fragments -/
theorem prefix_of_map (frags : List Bytes) (w q : List Item) (h : w ++ q = frags.map Item.data) :
    w = (frags.take w.length).map Item.data := by
  have : w = (w ++ q).take w.length := by simp
  rw [h] at this
  rw [List.map_take]
  exact this

/-- a prefix of `F ++ [closeReq]` is a prefix of `F` or all of it -/
theorem prefix_of_map_close (frags : List Bytes) (w q : List Item)
    (h : w ++ q = frags.map Item.data ++ [Item.closeReq]) :
    w = (frags.take w.length).map Item.data ∨ (q = [] ∧ w = frags.map Item.data ++ [Item.closeReq]) := by
  rcases List.eq_nil_or_concat q with hq | ⟨q', y, hq⟩
  · subst hq; right; exact ⟨rfl, by simpa using h⟩
  · subst hq
    rw [List.concat_eq_append, ← List.append_assoc] at h
    have hh := List.append_inj' h (by simp)
    left
    exact prefix_of_map frags w q' hh.1

/-- once the close request is on the wire, everything queued before it is too -/
theorem close_on_wire (frags : List Bytes) (w q : List Item)
    (h : w ++ q = frags.map Item.data ++ [Item.closeReq]) (hc : Item.closeReq ∈ w) :
    q = [] ∧ w = frags.map Item.data ++ [Item.closeReq] := by
  rcases prefix_of_map_close frags w q h with hw | hw
  · exfalso
    rw [hw] at hc
    exact closeReq_not_data _ hc
  · exact hw

theorem wireOk_of_prefix (frags : List Bytes) (w q : List Item) (h : w ++ q = frags.map Item.data) :
    WireOk frags w := Or.inl ⟨w.length, prefix_of_map frags w q h⟩

theorem wireOk_of_prefix_close (frags : List Bytes) (w q : List Item)
    (h : w ++ q = frags.map Item.data ++ [Item.closeReq]) : WireOk frags w := by
  rcases prefix_of_map_close frags w q h with hw | ⟨_, hw⟩
  · exact Or.inl ⟨w.length, hw⟩
  · exact Or.inr ⟨[], hw⟩

/-! ## The invariant of the writer under `wAssumed` -/

def ifl (s : WSt) : List Item := s.inflight.toList

/-- the close request and everything queued before it are still on their way, in order -/
def Pending (s : WSt) : Prop := s.wire ++ ifl s ++ s.queue = s.frags.map Item.data ++ [Item.closeReq]

/-- every fragment is on the wire, followed by the close request, followed by close requests /
    responses only; nothing is queued or in flight -/
def Sent (s : WSt) : Prop :=
  s.inflight = none ∧ s.queue = [] ∧
  ∃ rest, s.wire = s.frags.map Item.data ++ Item.closeReq :: rest ∧ ∀ x ∈ rest, x = Item.closeReq ∨ x = Item.closeResp

/-- where the data and the close request are, by phase -/
def Shape (s : WSt) : Prop :=
  match s.ph with
  | .idle => s.wire ++ ifl s ++ s.queue = s.frags.map Item.data
  | .waiting => Pending s ∨ Sent s
  | .forcing => (Pending s ∧ (s.olock = true ∨ (s.inflight = none ∧ s.queue = []))) ∨ Sent s
  | .discarding => Sent s
  | .done => Sent s

structure WInv (s : WSt) : Prop where
  noErr : s.outErr = false
  lockI : s.inflight ≠ none → s.olock = true
  capI : s.ph = .idle → s.queue.length < s.cap
  shape : Shape s

theorem winv_init (cap : Nat) (hcap : 0 < cap) : WInv (winit cap) := by
  refine ⟨rfl, by simp [winit], fun _ => by simpa [winit] using hcap, ?_⟩
  simp [Shape, winit, ifl]

/-- `Pending` with the close request already on the wire is `Sent` -/
theorem pending_sent {s : WSt} (hp : Pending s) (hc : Item.closeReq ∈ s.wire) : Sent s := by
  unfold Pending at hp
  rw [List.append_assoc] at hp
  obtain ⟨hq, hwire⟩ := close_on_wire s.frags s.wire _ hp hc
  have h1 : s.inflight = none := by
    cases hi : s.inflight with
    | none => rfl
    | some y => simp [ifl, hi] at hq
  have h2 : s.queue = [] := by simpa [ifl, h1] using hq
  exact ⟨h1, h2, [], hwire, by simp⟩

theorem wstep_winv {s t : WSt} (h : WInv s) (st : WStep wAssumed s t) : WInv t := by
  have hsh := h.shape
  cases st with
  | write ps hp hl he hroom =>
    refine ⟨h.noErr, h.lockI, fun _ => ?_, ?_⟩
    · simp only [List.length_append, List.length_map]; omega
    · simp only [Shape, hp, ifl] at hsh ⊢
      simp only [List.map_append, ← List.append_assoc]
      rw [hsh]
  | outLock hl he hi =>
    refine ⟨h.noErr, fun _ => rfl, h.capI, ?_⟩
    unfold Shape at hsh ⊢
    cases hp : s.ph <;> simp only [hp] at hsh ⊢
    · exact hsh
    · exact hsh
    · rcases hsh with ⟨hpd, _⟩ | hs
      · exact Or.inl ⟨hpd, Or.inl (by simp)⟩
      · exact Or.inr hs
    · exact hsh
    · exact hsh
  | outDequeue x q hl hi hq =>
    have hnotSent : ¬ Sent s := by intro hs; rw [hs.2.1] at hq; simp at hq
    have hpend : Pending s → Pending { s with queue := q, inflight := some x } := by
      intro hp
      unfold Pending at hp ⊢
      simp only [ifl, hi, hq, Option.toList_none, Option.toList_some, List.append_nil] at hp ⊢
      simpa using hp
    refine ⟨h.noErr, fun _ => hl, fun hp => ?_, ?_⟩
    · have := h.capI hp; rw [hq] at this; simp only [List.length_cons] at this
      show q.length < s.cap
      omega
    · unfold Shape at hsh ⊢
      cases hp : s.ph <;> simp only [hp] at hsh ⊢
      · simp only [ifl, hi, hq, Option.toList_none, Option.toList_some, List.append_nil] at hsh ⊢
        simpa using hsh
      · rcases hsh with hpd | hs
        · exact Or.inl (hpend hpd)
        · exact absurd hs hnotSent
      · rcases hsh with ⟨hpd, _⟩ | hs
        · exact Or.inl ⟨hpend hpd, Or.inl hl⟩
        · exact absurd hs hnotSent
      · exact absurd hsh hnotSent
      · exact absurd hsh hnotSent
  | outWrite x hi hl =>
    have hl' : s.olock = true := hl rfl
    have hnotSent : ¬ Sent s := by intro hs; rw [hs.1] at hi; simp at hi
    have hpend : Pending s → Pending { s with inflight := none, wire := s.wire ++ [x] } := by
      intro hp
      unfold Pending at hp ⊢
      simp only [ifl, hi, Option.toList_none, Option.toList_some, List.append_nil] at hp ⊢
      simpa using hp
    refine ⟨h.noErr, fun hn => absurd rfl hn, h.capI, ?_⟩
    unfold Shape at hsh ⊢
    cases hp : s.ph <;> simp only [hp] at hsh ⊢
    · simp only [ifl, hi, Option.toList_none, Option.toList_some, List.append_nil] at hsh ⊢
      simpa using hsh
    · rcases hsh with hpd | hs
      · exact Or.inl (hpend hpd)
      · exact absurd hs hnotSent
    · rcases hsh with ⟨hpd, _⟩ | hs
      · exact Or.inl ⟨hpend hpd, Or.inl hl'⟩
      · exact absurd hs hnotSent
    · exact absurd hsh hnotSent
    · exact absurd hsh hnotSent
  | outUnlock hl hi hq =>
    refine ⟨h.noErr, fun hn => absurd hi hn, h.capI, ?_⟩
    unfold Shape at hsh ⊢
    cases hp : s.ph <;> simp only [hp] at hsh ⊢
    · exact hsh
    · exact hsh
    · rcases hsh with ⟨hpd, _⟩ | hs
      · exact Or.inl ⟨hpd, Or.inr ⟨hi, hq⟩⟩
      · exact Or.inr hs
    · exact hsh
    · exact hsh
  | outUnlockEarly hd _ => exact absurd hd (by simp [wAssumed])
  | outFailIdle x ok hw _ _ => exact absurd hw (by simp [wAssumed])
  | outFailClosing x hw _ _ => exact absurd hw (by simp [wAssumed])
  | closeQueued hp hl hroom =>
    refine ⟨h.noErr, h.lockI, fun hp' => by simp at hp', ?_⟩
    simp only [Shape, hp, ifl] at hsh ⊢
    left
    unfold Pending
    simp only [ifl]
    rw [← List.append_assoc, hsh]
  | closeInsertFails hp hl hfull =>
    have := h.capI hp
    omega
  | waitDone hp hw =>
    refine ⟨h.noErr, h.lockI, fun hp' => by simp at hp', ?_⟩
    simp only [Shape, hp] at hsh ⊢
    rcases hsh with hpd | hs
    · exact pending_sent hpd hw
    · exact hs
  | waitExpire hp hs =>
    refine ⟨h.noErr, h.lockI, fun hp' => by simp at hp', ?_⟩
    simp only [Shape, hp] at hsh ⊢
    rcases hsh with hpd | hsent
    · left
      refine ⟨hpd, ?_⟩
      rcases hs rfl with hl | hi | hq | he
      · exact Or.inl hl
      · exact Or.inl (h.lockI hi)
      · by_cases hi : s.inflight = none
        · exact Or.inr ⟨hi, hq⟩
        · exact Or.inl (h.lockI hi)
      · rw [h.noErr] at he; exact absurd he (by simp)
    · exact Or.inr hsent
  | forceOut ok hp hl hw =>
    have hok : ok = true := hw rfl
    subst hok
    refine ⟨h.noErr, h.lockI, fun hp' => by simp at hp', ?_⟩
    simp only [Shape, hp] at hsh ⊢
    simp only [if_true]
    rcases hsh with ⟨hpd, hor⟩ | hsent
    · rcases hor with hl' | ⟨hi, hq⟩
      · rw [hl] at hl'; exact absurd hl' (by simp)
      · unfold Pending at hpd
        simp only [ifl, hi, hq, Option.toList_none, List.append_nil] at hpd
        exact ⟨hi, hq, [Item.closeReq], by rw [hpd]; simp, by simp⟩
    · obtain ⟨hi, hq, rest, hw', hr⟩ := hsent
      refine ⟨hi, hq, rest ++ [Item.closeReq], by rw [hw']; simp, ?_⟩
      intro x hx
      simp only [List.mem_append, List.mem_singleton] at hx
      rcases hx with hx | hx
      · exact hr x hx
      · exact Or.inl hx
  | discard hp =>
    refine ⟨h.noErr, h.lockI, fun hp' => by simp at hp', ?_⟩
    simp only [Shape, hp] at hsh ⊢
    exact ⟨hsh.1, by simp, hsh.2.2⟩
  | respOut hq hl =>
    have hsent : Sent s → Sent { s with wire := s.wire ++ [Item.closeResp] } := by
      intro ⟨hi, hqq, rest, hw', hr⟩
      refine ⟨hi, hqq, rest ++ [Item.closeResp], by show s.wire ++ _ = _; rw [hw']; simp, ?_⟩
      intro x hx
      simp only [List.mem_append, List.mem_singleton] at hx
      rcases hx with hx | hx
      · exact hr x hx
      · exact Or.inr hx
    refine ⟨h.noErr, h.lockI, h.capI, ?_⟩
    unfold Shape at hsh ⊢
    cases hp : s.ph <;> simp only [hp] at hsh ⊢
    · -- idle: no close request can be on the wire yet
      exfalso
      have : s.wire = (s.frags.take s.wire.length).map Item.data :=
        prefix_of_map s.frags s.wire (ifl s ++ s.queue) (by rw [← List.append_assoc]; exact hsh)
      rw [this] at hq
      exact closeReq_not_data _ hq
    · rcases hsh with hpd | hs
      · exact Or.inr (hsent (pending_sent hpd hq))
      · exact Or.inr (hsent hs)
    · rcases hsh with ⟨hpd, _⟩ | hs
      · exact Or.inr (hsent (pending_sent hpd hq))
      · exact Or.inr (hsent hs)
    · exact hsent hsh
    · exact hsent hsh

theorem wreach_winv {cap : Nat} (hcap : 0 < cap) {s : WSt} (h : WReach wAssumed cap s) : WInv s := by
  induction h with
  | init => exact winv_init cap hcap
  | step _ st ih => exact wstep_winv ih st

theorem sent_wireOk {s : WSt} (h : Sent s) : WireOk s.frags s.wire := by
  obtain ⟨_, _, rest, hw, _⟩ := h
  exact Or.inr ⟨rest, hw⟩

theorem pending_wireOk {s : WSt} (h : Pending s) : WireOk s.frags s.wire := by
  unfold Pending at h
  rw [List.append_assoc] at h
  exact wireOk_of_prefix_close _ _ _ h

/-- the invariant gives the order on the wire -/
theorem winv_wireOk {s : WSt} (h : WInv s) : WireOk s.frags s.wire := by
  have hsh := h.shape
  unfold Shape at hsh
  cases hp : s.ph <;> simp only [hp] at hsh
  · rw [List.append_assoc] at hsh; exact wireOk_of_prefix _ _ _ hsh
  · rcases hsh with hpd | hs
    · exact pending_wireOk hpd
    · exact sent_wireOk hs
  · rcases hsh with ⟨hpd, _⟩ | hs
    · exact pending_wireOk hpd
    · exact sent_wireOk hs
  · exact sent_wireOk hsh
  · exact sent_wireOk hsh

/-- relaxing the assumptions only adds behaviours (for a code that holds the lock across the drain) -/
theorem wstep_asIs {s t : WSt} (st : WStep wAssumed s t) : WStep wAsIs s t := by
  cases st with
  | write ps hp hl he hroom => exact .write s ps hp hl he hroom
  | outLock hl he hi => exact .outLock s hl he hi
  | outDequeue x q hl hi hq => exact .outDequeue s x q hl hi hq
  | outWrite x hi hl => exact .outWrite s x hi (fun _ => hl rfl)
  | outUnlock hl hi hq => exact .outUnlock s hl hi hq
  | outUnlockEarly hd _ => exact absurd hd (by simp [wAssumed])
  | outFailIdle x ok hw _ _ => exact absurd hw (by simp [wAssumed])
  | outFailClosing x hw _ _ => exact absurd hw (by simp [wAssumed])
  | closeQueued hp hl hroom => exact .closeQueued s hp hl hroom
  | closeInsertFails hp hl hfull => exact .closeInsertFails s hp hl hfull
  | waitDone hp hw => exact .waitDone s hp hw
  | waitExpire hp hs => exact .waitExpire s hp (by intro hf; simp [wAsIs] at hf)
  | forceOut ok hp hl hw => exact .forceOut s ok hp hl (by intro hf; simp [wAsIs] at hf)
  | discard hp => exact .discard s hp
  | respOut hq hl => exact .respOut s hq hl

/-! ## The receiving side, for any wire that is `WireOk` -/

theorem run_closed (q : List Bytes) (items : List Item) : run ⟨q, true⟩ items = ⟨q, true⟩ := by
  induction items with
  | nil => simp [run]
  | cons x xs ih =>
    simp only [run, List.foldl_cons] at ih ⊢
    cases x <;> simp [input, ih]

/-- A session whose items on the wire are `WireOk` for `frags`: after ANY prefix of those items the
    queue is a prefix of `frags`, and the session is closed only if the queue holds all of `frags`. -/
theorem run_prefix_ok (frags : List Bytes) (pre rest : List Item) (h : WireOk frags (pre ++ rest)) :
    (∃ more, (run SRx.init pre).queue ++ more = frags) ∧
    ((run SRx.init pre).closed = true → (run SRx.init pre).queue = frags) := by
  have hdata : ∀ (l1 : List Bytes), (∃ more, l1 ++ more = frags) → pre = l1.map Item.data →
      (∃ more, (run SRx.init pre).queue ++ more = frags) ∧
      ((run SRx.init pre).closed = true → (run SRx.init pre).queue = frags) := by
    intro l1 hl1 hpre
    subst hpre
    have := run_data [] l1
    simp only [List.nil_append] at this
    unfold SRx.init
    rw [this]
    exact ⟨hl1, by simp⟩
  rcases h with ⟨j, hj⟩ | ⟨r, hr⟩
  · obtain ⟨l1, l2, hf, h1, _⟩ := List.map_eq_append_iff.mp hj.symm
    refine hdata l1 ⟨l2 ++ frags.drop j, ?_⟩ h1.symm
    rw [← List.append_assoc, ← hf, List.take_append_drop]
  · rcases List.append_eq_append_iff.mp hr with ⟨a', hF, _⟩ | ⟨c', hpre, hc⟩
    · obtain ⟨l1, l2, hf, h1, _⟩ := List.map_eq_append_iff.mp hF
      exact hdata l1 ⟨l2, hf.symm⟩ h1.symm
    · cases c' with
      | nil =>
        rw [List.append_nil] at hpre
        exact hdata frags ⟨[], by simp⟩ hpre
      | cons y ys =>
        simp only [List.cons_append, List.cons.injEq] at hc
        obtain ⟨hy, _⟩ := hc
        subst hy
        rw [hpre, run_append]
        have := run_data [] frags
        simp only [List.nil_append] at this
        unfold SRx.init
        rw [this]
        have h2 : run ⟨frags, false⟩ (Item.closeReq :: ys) = run ⟨frags, true⟩ ys := by
          simp [run, input]
        rw [h2, run_closed]
        exact ⟨⟨[], by simp⟩, fun _ => rfl⟩

/-! ## Soundness of the executable writer acceptor -/

def ASent (c : WAcc) : Prop := c.queue = [] ∧ ∃ rest, c.wire = c.frags.map Item.data ++ Item.closeReq :: rest

def AShape (c : WAcc) : Prop :=
  match c.ph with
  | .idle => c.wire ++ c.queue = c.frags.map Item.data
  | .waiting => c.wire ++ c.queue = c.frags.map Item.data ++ [Item.closeReq] ∨ ASent c
  | .forcing => False
  | .discarding => ASent c
  | .done => ASent c

def WAInv (c : WAcc) : Prop := c.sched = true → AShape c

theorem wainv_init : WAInv {} := by
  intro _; simp [AShape]

theorem asent_out {c : WAcc} (x : Item) (h : ASent c) : ASent { c with wire := c.wire ++ [x] } := by
  obtain ⟨hq, rest, hw⟩ := h
  exact ⟨hq, rest ++ [x], by show c.wire ++ _ = _; rw [hw]; simp⟩

theorem waccept_wainv {c c' : WAcc} (e : WEv) (h : WAInv c) (ha : waccept c e = some c') : WAInv c' := by
  cases e with
  | write lens =>
    simp only [waccept] at ha
    split at ha
    · simp at ha
    · rename_i hp
      have hp' : c.ph = .idle := by simpa using hp
      simp only [Option.some.injEq] at ha; subst ha
      intro hs
      have := h hs
      simp only [AShape, hp'] at this ⊢
      simp only [List.map_append, ← List.append_assoc]
      rw [this]
  | closeCall =>
    simp only [waccept] at ha
    split at ha
    · simp at ha
    · rename_i hp
      have hp' : c.ph = .idle := by simpa using hp
      simp only [Option.some.injEq] at ha; subst ha
      intro hs
      have := h hs
      simp only [AShape, hp'] at this ⊢
      left
      rw [← List.append_assoc, this]
  | out x ms =>
    simp only [waccept] at ha
    split at ha
    · rename_i y q hq
      have hnot : ¬ ASent c := by intro hs; rw [hs.1] at hq; simp at hq
      split at ha
      · rename_i hxy
        subst hxy
        simp only [Option.some.injEq] at ha; subst ha
        intro hs
        have := h hs
        unfold AShape at this ⊢
        cases hp : c.ph <;> simp only [hp] at this ⊢
        · simp only [hq] at this; simpa using this
        · rcases this with hpd | hsent
          · left; simp only [hq] at hpd; simpa using hpd
          · exact absurd hsent hnot
        · exact absurd this hnot
        · exact absurd this hnot
      · split at ha
        · simp only [Option.some.injEq] at ha; subst ha
          intro hs; exact absurd hs (by simp)
        · simp at ha
    · rename_i hq
      split at ha
      · rename_i hg
        obtain ⟨hx, hcw⟩ := hg
        simp only [Option.some.injEq] at ha; subst ha
        intro hs
        have := h hs
        have hsent : ASent c := by
          unfold AShape at this
          cases hp : c.ph <;> simp only [hp] at this
          · exfalso
            rw [hq, List.append_nil] at this
            rw [this] at hcw
            exact closeReq_not_data _ hcw
          · rcases this with hpd | hsent
            · obtain ⟨_, hw⟩ := close_on_wire c.frags c.wire c.queue hpd hcw
              exact ⟨hq, [], hw⟩
            · exact hsent
          · exact this
          · exact this
        have h2 := asent_out x hsent
        unfold AShape
        cases hp : c.ph <;> simp only [hp]
        · -- idle is impossible: the close request is on the wire
          exfalso
          have hi := h hs
          simp only [AShape, hp, hq, List.append_nil] at hi
          rw [hi] at hcw
          exact closeReq_not_data _ hcw
        · exact Or.inr h2
        · have hi := h hs; simp only [AShape, hp] at hi
        · exact h2
        · exact h2
      · split at ha
        · rename_i hg
          obtain ⟨hx, hp, _⟩ := hg
          simp only [Option.some.injEq] at ha; subst ha
          intro hs
          have := h hs
          simp only [AShape, hp, hq, List.append_nil] at this ⊢
          rcases this with hpd | hsent
          · exact ⟨by simp, [x], by rw [hpd, hx]; simp⟩
          · obtain ⟨_, rest, hw⟩ := hsent
            exact ⟨by simp, rest ++ [x], by rw [hw]; simp⟩
        · split at ha
          · rename_i hg
            obtain ⟨hp, _⟩ := hg
            simp only [Option.some.injEq] at ha; subst ha
            intro hs
            have := h hs
            simp only [AShape, hp] at this ⊢
            exact asent_out x this
          · simp at ha
  | closeRet =>
    simp only [waccept] at ha
    split at ha
    · rename_i hg
      obtain ⟨hp, hc⟩ := hg
      simp only [Option.some.injEq] at ha; subst ha
      intro hs
      have := h hs
      simp only [AShape, hp] at this ⊢
      rcases this with hpd | hsent
      · obtain ⟨_, hw⟩ := close_on_wire c.frags c.wire c.queue hpd hc
        exact ⟨by simp, [], hw⟩
      · exact ⟨by simp, hsent.2⟩
    · split at ha
      · rename_i hp
        simp only [Option.some.injEq] at ha; subst ha
        intro hs
        have := h hs
        simp only [AShape, hp] at this ⊢
        exact ⟨by simp, this.2⟩
      · simp at ha

theorem wacceptAll_wainv (es : List WEv) {c0 c : WAcc} (h : WAInv c0) (ha : wacceptAll c0 es = some c) : WAInv c := by
  induction es generalizing c0 with
  | nil => simp only [wacceptAll, Option.some.injEq] at ha; subst ha; exact h
  | cons e es ih =>
    simp only [wacceptAll] at ha
    split at ha
    · simp at ha
    · rename_i c1 hc1
      exact ih (waccept_wainv e h hc1) ha

theorem wainv_wireOk {c : WAcc} (h : WAInv c) (hs : c.sched = true) : WireOk c.frags c.wire := by
  have hsh := h hs
  unfold AShape at hsh
  cases hp : c.ph <;> simp only [hp] at hsh
  · exact wireOk_of_prefix _ _ _ hsh
  · rcases hsh with hpd | hsent
    · exact wireOk_of_prefix_close _ _ _ hpd
    · exact Or.inr hsent.2
  · exact Or.inr hsh.2
  · exact Or.inr hsh.2

theorem wireOkB_iff (frags : List Bytes) (w : List Item) : wireOkB frags w = true ↔ WireOk frags w := by
  unfold wireOkB WireOk
  simp only [Bool.or_eq_true, beq_iff_eq, List.length_map]
  constructor
  · rintro (hw | hw)
    · left; exact ⟨w.length, by rw [List.map_take]; exact hw.symm⟩
    · right
      refine ⟨w.drop (frags.length + 1), ?_⟩
      have h1 : w = w.take (frags.length + 1) ++ w.drop (frags.length + 1) := (List.take_append_drop _ _).symm
      rw [hw] at h1
      simpa using h1
  · rintro (⟨j, hj⟩ | ⟨rest, hr⟩)
    · left
      subst hj
      rw [← List.map_take, List.length_map, List.length_take]
      congr 1
      rcases Nat.le_total j frags.length with hle | hge
      · rw [Nat.min_eq_left hle]
      · rw [Nat.min_eq_right hge, List.take_of_length_le hge, List.take_length]
    · right
      subst hr
      have : frags.length + 1 = (frags.map Item.data).length + 1 := by simp
      rw [this, List.take_append]
      simp [List.take_of_length_le]
end Mieru.CloseStream
