import Mieru.Proofs.UnderlayCloseMeasure
/-!
Invariants of the underlay transition system (`Mieru.UClose`), each over the raw components it talks
about, each preserved by every own step and every environment step.
-/
namespace Mieru.UClose

/-- the caller holds `closeMutex` -/
def holding : CPC → Bool
  | .chk | .poke1 | .sess _ _ | .wait _ _ | .closeDone | .poke2 | .unlock => true
  | _ => false

/-- mutual exclusion of `closeMutex`, over the raw components -/
structure MutexOk (cl : Nat → CPC) (holder : Option Nat) (m : Nat) : Prop where
  hold : ∀ k, holding (cl k) = true → holder = some k
  held : ∀ k, holder = some k → k < m ∧ holding (cl k) = true
  out : ∀ k, m ≤ k → cl k = .idle

def InvA (s : St) : Prop := MutexOk s.cl s.holder s.m

/-- a step of the holder from one holding pc to another -/
theorem mutex_move {cl : Nat → CPC} {holder : Option Nat} {m : Nat} (h : MutexOk cl holder m) (k : Nat) (v : CPC)
    (hk : k < m) (h0 : holding (cl k) = true) (hv : holding v = true) : MutexOk (upd cl k v) holder m := by
  refine ⟨?_, ?_, ?_⟩
  · intro k' hk'
    by_cases e : k' = k
    · subst e; exact h.hold _ h0
    · rw [upd_other _ _ e] at hk'; exact h.hold _ hk'
  · intro k' hk'
    have := h.held k' hk'
    by_cases e : k' = k
    · subst e; simp [hv, hk]
    · rw [upd_other _ _ e]; exact this
  · intro k' hk'
    have e : k' ≠ k := by omega
    rw [upd_other _ _ e]; exact h.out k' hk'

/-- a slot that holds nothing changes between pcs that hold nothing -/
theorem mutex_free {cl : Nat → CPC} {holder : Option Nat} {m : Nat} (h : MutexOk cl holder m) (k : Nat) (v : CPC)
    (hk : k < m) (h0 : holding (cl k) = false) (hv : holding v = false) : MutexOk (upd cl k v) holder m := by
  refine ⟨?_, ?_, ?_⟩
  · intro k' hk'
    by_cases e : k' = k
    · subst e; simp [hv] at hk'
    · rw [upd_other _ _ e] at hk'; exact h.hold _ hk'
  · intro k' hk'
    have := h.held k' hk'
    by_cases e : k' = k
    · subst e; rw [h0] at this; simp at this
    · rw [upd_other _ _ e]; exact this
  · intro k' hk'
    have e : k' ≠ k := by omega
    rw [upd_other _ _ e]; exact h.out k' hk'

theorem invA_own {sh : Shape} {s t : St} (h : InvA s) (st : OwnStep sh s t) : InvA t := by
  cases st with
  | lock k hk hl hh =>
    refine ⟨?_, ?_, ?_⟩
    · intro k' hk'
      by_cases e : k' = k
      · subst e; rfl
      · dsimp only at hk'
        rw [upd_other _ _ e] at hk'
        have := h.hold _ hk'
        rw [hh] at this; cases this
    · intro k' hk'
      dsimp only at hk' ⊢
      simp only [Option.some.injEq] at hk'
      subst hk'
      simp [holding, hk]
    · intro k' hk'
      dsimp only at hk' ⊢
      have e : k' ≠ k := by omega
      rw [upd_other _ _ e]; exact h.out k' hk'
  | chkDone k hk hc hd => exact mutex_move h k _ hk (by rw [hc]; rfl) rfl
  | chkOpen k hk hc hd => exact mutex_move h k _ hk (by rw [hc]; rfl) rfl
  | poke1 k hk hc => exact mutex_move h k (.sess 0 s.n) hk (by rw [hc]; rfl) rfl
  | sessClose k i b hk hc hi => exact mutex_move h k (.wait i b) hk (by rw [hc]; rfl) rfl
  | sessEnd k i b hk hc hi => exact mutex_move h k _ hk (by rw [hc]; rfl) rfl
  | wgWait k i b hk hc hi _ _ _ => exact mutex_move h k _ hk (by rw [hc]; rfl) rfl
  | closeDone k hk hc =>
    exact mutex_move h k (if sh.pokeAfterDone then .poke2 else .unlock) hk (by rw [hc]; rfl) (by cases sh.pokeAfterDone <;> rfl)
  | poke2 k hk hc => exact mutex_move h k .unlock hk (by rw [hc]; rfl) rfl
  | unlock k hk hc =>
    have hk0 := h.hold k (by rw [hc]; rfl)
    refine ⟨?_, ?_, ?_⟩
    · intro k' hk'
      dsimp only at hk' ⊢
      by_cases e : k' = k
      · subst e; simp [holding] at hk'
      · rw [upd_other _ _ e] at hk'
        have := h.hold _ hk'
        rw [hk0] at this
        simp only [Option.some.injEq] at this
        exact absurd this.symm e
    · intro k' hk'; cases hk'
    · intro k' hk'
      dsimp only at hk' ⊢
      have e : k' ≠ k := by omega
      rw [upd_other _ _ e]; exact h.out k' hk'
  | muxCall hm hx hc => exact mutex_free h 1 .lock hm (by rw [hc]; rfl) rfl
  | ctxCloseCall hm hx hc => exact mutex_free h 0 .lock hm (by rw [hc]; rfl) rfl
  | ownCloseCall hm hx hc => exact mutex_free h 0 .lock hm (by rw [hc]; rfl) rfl
  | closeReturned a hm hx hc => exact mutex_free h 0 .idle hm (by rw [hc]; rfl) rfl
  | _ => exact h

theorem invA_env {s t : St} (h : InvA s) (st : EnvStep s t) : InvA t := by
  cases st with
  | call k hk h2 hc => exact mutex_free h k .lock hk (by rw [hc]; rfl) rfl
  | _ => exact h

end Mieru.UClose

set_option linter.unusedSimpArgs false
namespace Mieru.UClose

def isInClose : LoopPC → Bool
  | .inClose _ => true
  | _ => false

/-- closer slot 0 belongs to the event-loop goroutine, slot 1 to Mux.Close -/
structure SlotOk (cl : Nat → CPC) (loop : LoopPC) (mux : MuxPC) (sock server : Bool) : Prop where
  in0 : ∀ a, loop = .inClose a → cl 0 ≠ .idle ∧ (a = .exited ∨ a = .clean true)
  out0 : isInClose loop = false → cl 0 = .idle
  m1a : mux = .idle ∨ mux = .cancel ∨ mux = .call → cl 1 = .idle
  m1b : mux = .closing → cl 1 ≠ .idle
  m1c : mux = .wait ∨ mux = .ret → cl 1 = .ret
  sk : loop = .exited ∨ loop = .ownClose ∨ loop = .inClose .exited → sock = true
  mr : mux = .ret → server = true → loop = .exited

def InvS (s : St) : Prop := SlotOk s.cl s.loop s.mux s.sock s.server

/-- a caller of Close moves on: its slot was neither idle nor returned and does not become idle -/
theorem slot_closer {cl : Nat → CPC} {loop : LoopPC} {mux : MuxPC} {sock server : Bool}
    (h : SlotOk cl loop mux sock server) (k : Nat) (v : CPC) (h0 : cl k ≠ .idle) (h1 : cl k ≠ .ret) (hv : v ≠ .idle) :
    SlotOk (upd cl k v) loop mux sock server := by
  refine ⟨?_, ?_, ?_, ?_, ?_, h.sk, h.mr⟩
  · intro a ha
    refine ⟨?_, (h.in0 a ha).2⟩
    by_cases e : (0 : Nat) = k
    · subst e; simpa using hv
    · rw [upd_other _ _ e]; exact (h.in0 a ha).1
  · intro hl
    have := h.out0 hl
    by_cases e : (0 : Nat) = k
    · subst e; exact absurd this h0
    · rw [upd_other _ _ e]; exact this
  · intro hm
    have := h.m1a hm
    by_cases e : (1 : Nat) = k
    · subst e; exact absurd this h0
    · rw [upd_other _ _ e]; exact this
  · intro hm
    by_cases e : (1 : Nat) = k
    · subst e; simpa using hv
    · rw [upd_other _ _ e]; exact h.m1b hm
  · intro hm
    have := h.m1c hm
    by_cases e : (1 : Nat) = k
    · subst e; exact absurd this h1
    · rw [upd_other _ _ e]; exact this

theorem invS_own {sh : Shape} {s t : St} (h : InvS s) (st : OwnStep sh s t) : InvS t := by
  cases st with
  | lock k hk hl hh => exact slot_closer h k _ (by rw [hl]; simp) (by rw [hl]; simp) (by simp)
  | chkDone k hk hc hd => exact slot_closer h k _ (by rw [hc]; simp) (by rw [hc]; simp) (by simp)
  | chkOpen k hk hc hd => exact slot_closer h k _ (by rw [hc]; simp) (by rw [hc]; simp) (by simp)
  | poke1 k hk hc => exact slot_closer h k (.sess 0 s.n) (by rw [hc]; simp) (by rw [hc]; simp) (by simp)
  | sessClose k i b hk hc hi => exact slot_closer h k (.wait i b) (by rw [hc]; simp) (by rw [hc]; simp) (by simp)
  | sessEnd k i b hk hc hi => exact slot_closer h k _ (by rw [hc]; simp) (by rw [hc]; simp) (by simp)
  | wgWait k i b hk hc hi _ _ _ => exact slot_closer h k _ (by rw [hc]; simp) (by rw [hc]; simp) (by simp)
  | closeDone k hk hc =>
    exact slot_closer h k (if sh.pokeAfterDone then .poke2 else .unlock) (by rw [hc]; simp) (by rw [hc]; simp) (by cases sh.pokeAfterDone <;> simp)
  | poke2 k hk hc => exact slot_closer h k .unlock (by rw [hc]; simp) (by rw [hc]; simp) (by simp)
  | unlock k hk hc => exact slot_closer h k .ret (by rw [hc]; simp) (by rw [hc]; simp) (by simp)
  | finClose i hi hr hc => exact h
  | loopExit i hi hr hc => exact h
  | netWake i hi hr hc => exact h
  | muxWait hx hl =>
    obtain ⟨in0, out0, m1a, m1b, m1c, sk, mr⟩ := h
    refine ⟨in0, out0, ?_, ?_, ?_, sk, ?_⟩ <;> simp_all
    rcases hl with hl | hl <;> simp_all
  | cleanDone r hx hcl =>
    obtain ⟨in0, out0, m1a, m1b, m1c, sk, mr⟩ := h
    cases r <;> (refine ⟨?_, ?_, ?_, ?_, ?_, ?_, ?_⟩ <;> simp_all [isInClose, upd])
  | closeReturned a hm hx hc =>
    obtain ⟨in0, out0, m1a, m1b, m1c, sk, mr⟩ := h
    rcases (in0 a hx).2 with e | e <;> subst e <;>
      (refine ⟨?_, ?_, ?_, ?_, ?_, ?_, ?_⟩ <;> simp_all [isInClose, upd])
  | arm hx =>
    obtain ⟨in0, out0, m1a, m1b, m1c, sk, mr⟩ := h
    cases sh.checkAfterArm <;> (refine ⟨?_, ?_, ?_, ?_, ?_, ?_, ?_⟩ <;> simp_all [isInClose, upd])
  | drainArm hx =>
    obtain ⟨in0, out0, m1a, m1b, m1c, sk, mr⟩ := h
    cases sh.drainChecked <;> cases s.done <;> (refine ⟨?_, ?_, ?_, ?_, ?_, ?_, ?_⟩ <;> simp_all [isInClose, upd])
  | readyGiveUp hx hd =>
    obtain ⟨in0, out0, m1a, m1b, m1c, sk, mr⟩ := h
    cases s.stream <;> (refine ⟨?_, ?_, ?_, ?_, ?_, ?_, ?_⟩ <;> simp_all [isInClose, upd])
  | topRead hx hc hd =>
    obtain ⟨in0, out0, m1a, m1b, m1c, sk, mr⟩ := h
    cases s.stream <;> (refine ⟨?_, ?_, ?_, ?_, ?_, ?_, ?_⟩ <;> simp_all [isInClose, upd])
  | _ =>
    obtain ⟨in0, out0, m1a, m1b, m1c, sk, mr⟩ := h
    refine ⟨?_, ?_, ?_, ?_, ?_, ?_, ?_⟩ <;> simp_all [isInClose, upd]

theorem invS_env {s t : St} (h : InvS s) (st : EnvStep s t) : InvS t := by
  cases st with
  | call k hk h2 hc =>
    obtain ⟨in0, out0, m1a, m1b, m1c, sk, mr⟩ := h
    have e0 : (0 : Nat) ≠ k := by omega
    have e1 : (1 : Nat) ≠ k := by omega
    refine ⟨?_, ?_, ?_, ?_, ?_, sk, mr⟩ <;> simp_all [upd_other]
  | readTo to hx ht =>
    obtain ⟨in0, out0, m1a, m1b, m1c, sk, mr⟩ := h
    rcases ht with ⟨i, _, e⟩ | e | e | e | ⟨c, e⟩ | ⟨e, _⟩ <;> subst e <;> rcases hx with hx | hx <;>
      (refine ⟨?_, ?_, ?_, ?_, ?_, ?_, ?_⟩ <;> simp_all [isInClose])
  | _ =>
    obtain ⟨in0, out0, m1a, m1b, m1c, sk, mr⟩ := h
    refine ⟨?_, ?_, ?_, ?_, ?_, ?_, ?_⟩ <;> simp_all [isInClose, upd]

end Mieru.UClose

namespace Mieru.UClose

/-- session `j` is closed and both of its loops are gone -/
def gone (closed : Nat → Bool) (run net : Nat → Nat) (j : Nat) : Prop := closed j = true ∧ run j = 0 ∧ net j = 0

/-- the closing Range of `baseUnderlay.Close`, `done`, and the wake-ups -/
structure RangeOk (pokeAfterDone stream : Bool) (n : Nat) (req closed : Nat → Bool) (run net : Nat → Nat)
    (wpast done : Bool) (cl : Nat → CPC) (snap : Nat) (poked2 : Bool) (m : Nat) : Prop where
  rng : ∀ k i b, (cl k = .sess i b ∨ cl k = .wait i b) →
    b = snap ∧ done = false ∧ (stream = true → wpast = true) ∧ ∀ j, j < i → j < b → gone closed run net j
  wt : ∀ k i b, cl k = .wait i b → i < b ∧ req i = true
  cd : ∀ k, cl k = .closeDone → done = false ∧ (stream = true → wpast = true) ∧ ∀ j, j < snap → gone closed run net j
  p1 : ∀ k, cl k = .poke1 → done = false
  p2 : ∀ k, cl k = .poke2 → done = true
  ur : ∀ k, (cl k = .unlock ∨ cl k = .ret) → done = true
  dn : done = true → (stream = true → wpast = true) ∧ ∀ j, j < snap → gone closed run net j
  sn : snap ≤ n
  pk : pokeAfterDone = true → done = true → poked2 = true ∨ ∃ k, k < m ∧ cl k = .poke2
  pd : poked2 = true → done = true

def InvB (sh : Shape) (s : St) : Prop :=
  RangeOk sh.pokeAfterDone s.stream s.n s.req s.closed s.run s.net s.wpast s.done s.cl s.snap s.poked2 s.m

/-- the sessions change in a way that keeps closed-and-gone sessions closed and gone, and requests requested -/
theorem range_frame {pa stream : Bool} {n n' : Nat} {req req' closed closed' : Nat → Bool} {run run' net net' : Nat → Nat}
    {wpast done : Bool} {cl : Nat → CPC} {snap : Nat} {poked2 : Bool} {m : Nat}
    (h : RangeOk pa stream n req closed run net wpast done cl snap poked2 m) (hn : n ≤ n')
    (hg : ∀ j, j < n → gone closed run net j → gone closed' run' net' j)
    (hr : ∀ j, j < n → req j = true → req' j = true) :
    RangeOk pa stream n' req' closed' run' net' wpast done cl snap poked2 m := by
  obtain ⟨rng, wt, cd, p1, p2, ur, dn, sn, pk, pd⟩ := h
  refine ⟨?_, ?_, ?_, p1, p2, ur, ?_, by omega, pk, pd⟩
  · intro k i b hk
    obtain ⟨a, b', c, d⟩ := rng k i b hk
    exact ⟨a, b', c, fun j hj hjb => hg j (by omega) (d j hj hjb)⟩
  · intro k i b hk
    obtain ⟨a, b'⟩ := wt k i b hk
    have := (rng k i b (Or.inr hk)).1
    exact ⟨a, hr i (by omega) b'⟩
  · intro k hk
    obtain ⟨a, b, c⟩ := cd k hk
    exact ⟨a, b, fun j hj => hg j (by omega) (c j hj)⟩
  · intro hd
    obtain ⟨a, b⟩ := dn hd
    exact ⟨a, fun j hj => hg j (by omega) (b j hj)⟩

/-- a slot that is idle or returned becomes idle or asks for the mutex -/
theorem range_slot {pa stream : Bool} {n : Nat} {req closed : Nat → Bool} {run net : Nat → Nat}
    {wpast done : Bool} {cl : Nat → CPC} {snap : Nat} {poked2 : Bool} {m : Nat}
    (h : RangeOk pa stream n req closed run net wpast done cl snap poked2 m) (k : Nat) (v : CPC)
    (h0 : cl k = .idle ∨ cl k = .ret ∨ cl k = .lock) (hv : v = .idle ∨ v = .lock ∨ v = .chk) :
    RangeOk pa stream n req closed run net wpast done (upd cl k v) snap poked2 m := by
  obtain ⟨rng, wt, cd, p1, p2, ur, dn, sn, pk, pd⟩ := h
  have key : ∀ k' (P : CPC → Prop), (P .idle → False) → (P .lock → False) → (P .chk → False) → P (upd cl k v k') → P (cl k') ∧ k' ≠ k := by
    intro k' P hi hl hc hp
    by_cases e : k' = k
    · subst e
      rw [upd_same] at hp
      rcases hv with hv | hv | hv <;> subst hv
      · exact (hi hp).elim
      · exact (hl hp).elim
      · exact (hc hp).elim
    · rw [upd_other _ _ e] at hp; exact ⟨hp, e⟩
  refine ⟨?_, ?_, ?_, ?_, ?_, ?_, dn, sn, ?_, pd⟩
  · intro k' i b hk
    exact rng k' i b (key k' (fun c => c = .sess i b ∨ c = .wait i b) (by simp) (by simp) (by simp) hk).1
  · intro k' i b hk
    exact wt k' i b (key k' (fun c => c = .wait i b) (by simp) (by simp) (by simp) hk).1
  · intro k' hk
    exact cd k' (key k' (fun c => c = .closeDone) (by simp) (by simp) (by simp) hk).1
  · intro k' hk
    exact p1 k' (key k' (fun c => c = .poke1) (by simp) (by simp) (by simp) hk).1
  · intro k' hk
    exact p2 k' (key k' (fun c => c = .poke2) (by simp) (by simp) (by simp) hk).1
  · intro k' hk
    by_cases e : k' = k
    · subst e
      rw [upd_same] at hk
      rcases hv with hv | hv | hv <;> subst hv <;> simp at hk
    · rw [upd_other _ _ e] at hk; exact ur k' hk
  · intro hp hd
    rcases pk hp hd with h | ⟨k', hk', hc⟩
    · exact Or.inl h
    · refine Or.inr ⟨k', hk', ?_⟩
      have e : k' ≠ k := by
        intro e; subst e
        rcases h0 with h0 | h0 | h0 <;> rw [h0] at hc <;> cases hc
      rw [upd_other _ _ e]; exact hc

/-- the holder of `closeMutex` moves from one pc to another -/
theorem range_holder {pa stream : Bool} {n : Nat} {req closed : Nat → Bool} {run net : Nat → Nat}
    {wpast done : Bool} {cl : Nat → CPC} {snap : Nat} {poked2 : Bool} {m : Nat} {holder : Option Nat}
    (h : RangeOk pa stream n req closed run net wpast done cl snap poked2 m) (hA : MutexOk cl holder m)
    (k : Nat) (hk : holding (cl k) = true) (hkm : k < m) (v : CPC) (req' : Nat → Bool) (wpast' done' : Bool) (snap' : Nat) (poked2' : Bool)
    (hdone : done = true → done' = true)
    (hv_rng : ∀ i b, (v = .sess i b ∨ v = .wait i b) →
      b = snap' ∧ done' = false ∧ (stream = true → wpast' = true) ∧ ∀ j, j < i → j < b → gone closed run net j)
    (hv_wt : ∀ i b, v = .wait i b → i < b ∧ req' i = true)
    (hv_cd : v = .closeDone → done' = false ∧ (stream = true → wpast' = true) ∧ ∀ j, j < snap' → gone closed run net j)
    (hv_p1 : v = .poke1 → done' = false)
    (hv_p2 : v = .poke2 → done' = true)
    (hv_ur : (v = .unlock ∨ v = .ret) → done' = true)
    (hdn : done' = true → (stream = true → wpast' = true) ∧ ∀ j, j < snap' → gone closed run net j)
    (hsn : snap' ≤ n)
    (hpk : pa = true → done' = true → poked2' = true ∨ v = .poke2)
    (hpd : poked2' = true → done' = true) :
    RangeOk pa stream n req' closed run net wpast' done' (upd cl k v) snap' poked2' m := by
  obtain ⟨rng, wt, cd, p1, p2, ur, dn, sn, pk, pd⟩ := h
  have others : ∀ k', k' ≠ k → holding (cl k') = false := by
    intro k' e
    cases hh : holding (cl k') with
    | false => rfl
    | true =>
      have a := hA.hold k' hh
      have b := hA.hold k hk
      rw [a] at b
      simp only [Option.some.injEq] at b
      exact absurd b e
  refine ⟨?_, ?_, ?_, ?_, ?_, ?_, hdn, hsn, ?_, hpd⟩
  · intro k' i b hc
    by_cases e : k' = k
    · subst e; rw [upd_same] at hc; exact hv_rng i b hc
    · rw [upd_other _ _ e] at hc
      have := others k' e
      rcases hc with hc | hc <;> rw [hc] at this <;> simp [holding] at this
  · intro k' i b hc
    by_cases e : k' = k
    · subst e; rw [upd_same] at hc; exact hv_wt i b hc
    · rw [upd_other _ _ e] at hc
      have := others k' e
      rw [hc] at this; simp [holding] at this
  · intro k' hc
    by_cases e : k' = k
    · subst e; rw [upd_same] at hc; exact hv_cd hc
    · rw [upd_other _ _ e] at hc
      have := others k' e
      rw [hc] at this; simp [holding] at this
  · intro k' hc
    by_cases e : k' = k
    · subst e; rw [upd_same] at hc; exact hv_p1 hc
    · rw [upd_other _ _ e] at hc
      have := others k' e
      rw [hc] at this; simp [holding] at this
  · intro k' hc
    by_cases e : k' = k
    · subst e; rw [upd_same] at hc; exact hv_p2 hc
    · rw [upd_other _ _ e] at hc
      have := others k' e
      rw [hc] at this; simp [holding] at this
  · intro k' hc
    by_cases e : k' = k
    · subst e; rw [upd_same] at hc; exact hv_ur hc
    · rw [upd_other _ _ e] at hc
      exact hdone (ur k' hc)
  · intro hp hd
    rcases hpk hp hd with h | h
    · exact Or.inl h
    · exact Or.inr ⟨k, hkm, by rw [upd_same]; exact h⟩

/-- if the holder is not at `poke2`, nobody is: a closed `done` has been followed by the second wake-up -/
theorem pk_holder {pa stream : Bool} {n : Nat} {req closed : Nat → Bool} {run net : Nat → Nat}
    {wpast done : Bool} {cl : Nat → CPC} {snap : Nat} {poked2 : Bool} {m : Nat} {holder : Option Nat}
    (h : RangeOk pa stream n req closed run net wpast done cl snap poked2 m) (hA : MutexOk cl holder m)
    (k : Nat) (hk : holding (cl k) = true) (hne : cl k ≠ .poke2) (hp : pa = true) (hd : done = true) : poked2 = true := by
  rcases h.pk hp hd with h1 | ⟨k', _, hc'⟩
  · exact h1
  · have a := hA.hold k' (by rw [hc']; rfl)
    have b := hA.hold k hk
    rw [a] at b
    simp only [Option.some.injEq] at b
    subst b
    exact absurd hc' hne

theorem invB_own {sh : Shape} {s t : St} (h : InvB sh s) (hA : InvA s) (st : OwnStep sh s t) : InvB sh t := by
  cases st with
  | finClose i hi hr hc =>
    refine range_frame h (Nat.le_refl _) ?_ (fun _ _ x => x)
    intro j _ ⟨a, b, c⟩
    refine ⟨?_, b, c⟩
    by_cases e : j = i
    · subst e; simp
    · dsimp only; rw [upd_other _ _ e]; exact a
  | loopExit i hi hr hc =>
    refine range_frame h (Nat.le_refl _) ?_ (fun _ _ x => x)
    intro j _ ⟨a, b, c⟩
    refine ⟨a, ?_, c⟩
    by_cases e : j = i
    · subst e; dsimp only; rw [upd_same, b]
    · dsimp only; rw [upd_other _ _ e]; exact b
  | netWake i hi hr hw =>
    refine range_frame h (Nat.le_refl _) ?_ (fun _ _ x => x)
    intro j _ ⟨a, b, c⟩
    have e : j ≠ i := by intro e; subst e; omega
    exact ⟨a, by dsimp only; rw [upd_other _ _ e]; exact b, by dsimp only; rw [upd_other _ _ e]; exact c⟩
  | lock k hk hl hh => exact range_slot h k .chk (Or.inr (Or.inr hl)) (Or.inr (Or.inr rfl))
  | chkDone k hk hc hd =>
    have hh : holding (s.cl k) = true := by rw [hc]; rfl
    exact range_holder h hA k hh hk .unlock s.req s.wpast s.done s.snap s.poked2 (fun x => x)
      (by simp) (by simp) (by simp) (by simp) (by simp) (fun _ => hd) h.dn h.sn
      (fun a b => Or.inl (pk_holder h hA k hh (by rw [hc]; simp) a b)) h.pd
  | chkOpen k hk hc hd =>
    have hh : holding (s.cl k) = true := by rw [hc]; rfl
    exact range_holder h hA k hh hk .poke1 s.req s.wpast s.done s.snap s.poked2 (fun x => x)
      (by simp) (by simp) (by simp) (fun _ => hd) (by simp) (by simp) h.dn h.sn
      (fun a b => Or.inl (pk_holder h hA k hh (by rw [hc]; simp) a b)) h.pd
  | poke1 k hk hc =>
    have hh : holding (s.cl k) = true := by rw [hc]; rfl
    have hd : s.done = false := h.p1 k hc
    refine range_holder h hA k hh hk (.sess 0 s.n) s.req (s.wpast || s.stream) s.done s.n s.poked2 (fun x => x)
      ?_ (by simp) (by simp) (by simp) (by simp) (by simp) (by simp [hd]) (Nat.le_refl _) (by simp [hd]) h.pd
    intro i b hv
    simp only [CPC.sess.injEq, reduceCtorEq, or_false] at hv
    obtain ⟨rfl, rfl⟩ := hv
    exact ⟨rfl, hd, by intro hs; simp [hs], by intro j hj; omega⟩
  | sessClose k i b hk hc hi =>
    have hh : holding (s.cl k) = true := by rw [hc]; rfl
    obtain ⟨e1, e2, e3, e4⟩ := h.rng k i b (Or.inl hc)
    refine range_holder h hA k hh hk (.wait i b) (upd s.req i true) s.wpast s.done s.snap s.poked2 (fun x => x)
      ?_ ?_ (by simp) (by simp) (by simp) (by simp) h.dn h.sn (by simp [e2]) h.pd
    · intro i' b' hv
      simp only [reduceCtorEq, CPC.wait.injEq, false_or] at hv
      obtain ⟨rfl, rfl⟩ := hv
      exact ⟨e1, e2, e3, e4⟩
    · intro i' b' hv
      simp only [CPC.wait.injEq] at hv
      obtain ⟨rfl, rfl⟩ := hv
      exact ⟨hi, by simp⟩
  | sessEnd k i b hk hc hi =>
    have hh : holding (s.cl k) = true := by rw [hc]; rfl
    obtain ⟨e1, e2, e3, e4⟩ := h.rng k i b (Or.inl hc)
    refine range_holder h hA k hh hk .closeDone s.req s.wpast s.done s.snap s.poked2 (fun x => x)
      (by simp) (by simp) ?_ (by simp) (by simp) (by simp) h.dn h.sn (by simp [e2]) h.pd
    intro _
    exact ⟨e2, e3, fun j hj => e4 j (by omega) (by omega)⟩
  | wgWait k i b hk hc hi hcl hr hn =>
    have hh : holding (s.cl k) = true := by rw [hc]; rfl
    obtain ⟨e1, e2, e3, e4⟩ := h.rng k i b (Or.inr hc)
    refine range_holder h hA k hh hk (.sess (i + 1) b) s.req s.wpast s.done s.snap s.poked2 (fun x => x)
      ?_ (by simp) (by simp) (by simp) (by simp) (by simp) h.dn h.sn (by simp [e2]) h.pd
    intro i' b' hv
    simp only [CPC.sess.injEq, reduceCtorEq, or_false] at hv
    obtain ⟨rfl, rfl⟩ := hv
    refine ⟨e1, e2, e3, ?_⟩
    intro j hj hjb
    by_cases e : j = i
    · subst e; exact ⟨hcl, hr, hn⟩
    · exact e4 j (by omega) hjb
  | closeDone k hk hc =>
    have hh : holding (s.cl k) = true := by rw [hc]; rfl
    obtain ⟨e1, e2, e3⟩ := h.cd k hc
    refine range_holder h hA k hh hk (if sh.pokeAfterDone then .poke2 else .unlock) s.req s.wpast true s.snap s.poked2 (fun _ => rfl)
      ?_ ?_ ?_ ?_ (fun _ => rfl) (fun _ => rfl) (fun _ => ⟨e2, e3⟩) h.sn ?_ (fun _ => rfl)
    · cases sh.pokeAfterDone <;> simp
    · cases sh.pokeAfterDone <;> simp
    · cases sh.pokeAfterDone <;> simp
    · cases sh.pokeAfterDone <;> simp
    · intro hp _; rw [hp]; simp
  | poke2 k hk hc =>
    have hh : holding (s.cl k) = true := by rw [hc]; rfl
    have hd : s.done = true := h.p2 k hc
    exact range_holder h hA k hh hk .unlock s.req s.wpast s.done s.snap true (fun x => x)
      (by simp) (by simp) (by simp) (by simp) (by simp) (fun _ => hd) h.dn h.sn (fun _ _ => Or.inl rfl) (fun _ => hd)
  | unlock k hk hc =>
    have hh : holding (s.cl k) = true := by rw [hc]; rfl
    have hd : s.done = true := h.ur k (Or.inl hc)
    exact range_holder h hA k hh hk .ret s.req s.wpast s.done s.snap s.poked2 (fun x => x)
      (by simp) (by simp) (by simp) (by simp) (by simp) (fun _ => hd) h.dn h.sn
      (fun a b => Or.inl (pk_holder h hA k hh (by rw [hc]; simp) a b)) h.pd
  | muxCall hm hx hc => exact range_slot h 1 .lock (Or.inl hc) (Or.inr (Or.inl rfl))
  | ctxCloseCall hm hx hc => exact range_slot h 0 .lock (Or.inl hc) (Or.inr (Or.inl rfl))
  | ownCloseCall hm hx hc => exact range_slot h 0 .lock (Or.inl hc) (Or.inr (Or.inl rfl))
  | closeReturned a hm hx hc => exact range_slot h 0 .idle (Or.inr (Or.inl hc)) (Or.inl rfl)
  | _ => exact h

theorem invB_env {sh : Shape} {s t : St} (h : InvB sh s) (st : EnvStep s t) : InvB sh t := by
  cases st with
  | addSession =>
    refine range_frame h (Nat.le_succ _) ?_ ?_
    · intro j hj ⟨a, b, c⟩
      have e : j ≠ s.n := by omega
      exact ⟨by dsimp only; rw [upd_other _ _ e]; exact a, by dsimp only; rw [upd_other _ _ e]; exact b,
        by dsimp only; rw [upd_other _ _ e]; exact c⟩
    · intro j hj hr
      have e : j ≠ s.n := by omega
      dsimp only; rw [upd_other _ _ e]; exact hr
  | sessCloseStart i hi =>
    refine range_frame h (Nat.le_refl _) (fun _ _ x => x) ?_
    intro j _ hr
    by_cases e : j = i
    · subst e; simp
    · dsimp only; rw [upd_other _ _ e]; exact hr
  | netBlock i hi hs hr =>
    refine range_frame h (Nat.le_refl _) ?_ (fun _ _ x => x)
    intro j _ ⟨a, b, c⟩
    have e : j ≠ i := by intro e; subst e; omega
    exact ⟨a, by dsimp only; rw [upd_other _ _ e]; exact b, by dsimp only; rw [upd_other _ _ e]; exact c⟩
  | netDrain i hi hn =>
    refine range_frame h (Nat.le_refl _) ?_ (fun _ _ x => x)
    intro j _ ⟨a, b, c⟩
    have e : j ≠ i := by intro e; subst e; omega
    exact ⟨a, by dsimp only; rw [upd_other _ _ e]; exact b, by dsimp only; rw [upd_other _ _ e]; exact c⟩
  | call k hk h2 hc => exact range_slot h k .lock (Or.inl hc) (Or.inr (Or.inl rfl))
  | _ => exact h
end Mieru.UClose

namespace Mieru.UClose

/-- sessions: `closedChan` is closed only by a closeWithError that won the CAS; packet transports never
    block in a write -/
structure SessOk (stream : Bool) (req closed : Nat → Bool) (net : Nat → Nat) : Prop where
  cr : ∀ i, closed i = true → req i = true
  pn : stream = false → ∀ i, net i = 0

def InvC (s : St) : Prop := SessOk s.stream s.req s.closed s.net

theorem invC_own {sh : Shape} {s t : St} (h : InvC s) (st : OwnStep sh s t) : InvC t := by
  obtain ⟨cr, pn⟩ := h
  cases st with
  | finClose i hi hr hc =>
    refine ⟨?_, pn⟩
    intro j hj
    by_cases e : j = i
    · subst e; exact hr
    · dsimp only at hj; rw [upd_other _ _ e] at hj; exact cr j hj
  | netWake i hi hr hw =>
    refine ⟨cr, ?_⟩
    intro hs j
    by_cases e : j = i
    · subst e; dsimp only; rw [upd_same, pn hs j]
    · dsimp only; rw [upd_other _ _ e]; exact pn hs j
  | sessClose k i b hk hc hi =>
    refine ⟨?_, pn⟩
    intro j hj
    by_cases e : j = i
    · subst e; simp
    · dsimp only; rw [upd_other _ _ e]; exact cr j hj
  | _ => exact ⟨cr, pn⟩

theorem invC_env {s t : St} (h : InvC s) (st : EnvStep s t) : InvC t := by
  obtain ⟨cr, pn⟩ := h
  cases st with
  | addSession =>
    refine ⟨?_, ?_⟩
    · intro j hj
      by_cases e : j = s.n
      · subst e; simp at hj
      · dsimp only at hj ⊢; rw [upd_other _ _ e] at hj ⊢; exact cr j hj
    · intro hs j
      by_cases e : j = s.n
      · subst e; simp
      · dsimp only; rw [upd_other _ _ e]; exact pn hs j
  | sessCloseStart i hi =>
    refine ⟨?_, pn⟩
    intro j hj
    by_cases e : j = i
    · subst e; simp
    · dsimp only; rw [upd_other _ _ e]; exact cr j hj
  | netBlock i hi hs hr =>
    refine ⟨cr, ?_⟩
    intro hs'; rw [hs] at hs'; cases hs'
  | netDrain i hi hn =>
    refine ⟨cr, ?_⟩
    intro hs j
    by_cases e : j = i
    · subst e; dsimp only; rw [upd_same, pn hs j]
    · dsimp only; rw [upd_other _ _ e]; exact pn hs j
  | _ => exact ⟨cr, pn⟩

/-- after the second wake-up no read of the event loop is parked under a deadline in the future -/
structure WakeOk (sh : Shape) (loop : LoopPC) (dl : Dl) (poked2 : Bool) : Prop where
  rd : sh.checkAfterArm = true → poked2 = true → (loop = .read ∨ loop = .readMore) → dl = .past
  dr : sh.drainChecked = true → poked2 = true → loop = .drain → dl = .past

def InvD (sh : Shape) (s : St) : Prop := WakeOk sh s.loop s.dl s.poked2

theorem wake_vacuous (sh : Shape) (l : LoopPC) (dl : Dl) (p : Bool) (h1 : l ≠ .read) (h2 : l ≠ .readMore) (h3 : l ≠ .drain) :
    WakeOk sh l dl p :=
  ⟨fun _ _ h => by rcases h with h | h <;> contradiction, fun _ _ h => by contradiction⟩

theorem invD_own {sh : Shape} {s t : St} (h : InvD sh s) (hB : InvB sh s) (hS : InvS s) (st : OwnStep sh s t) : InvD sh t := by
  have pd := hB.pd
  cases st with
  | finClose i hi hr hc => exact h
  | loopExit i hi hr hc => exact h
  | netWake i hi hr hw => exact h
  | lock k hk hl hh => exact h
  | chkDone k hk hc hd => exact h
  | chkOpen k hk hc hd => exact h
  | poke1 k hk hc => exact ⟨fun _ _ _ => rfl, fun _ _ _ => rfl⟩
  | sessClose k i b hk hc hi => exact h
  | sessEnd k i b hk hc hi => exact h
  | wgWait k i b hk hc hi _ _ _ => exact h
  | closeDone k hk hc => exact h
  | poke2 k hk hc => exact ⟨fun _ _ _ => rfl, fun _ _ _ => rfl⟩
  | unlock k hk hc => exact h
  | muxCancel hx => exact h
  | muxCall hm hx hc => exact h
  | muxClosed hx hc => exact h
  | muxWait hx hl => exact h
  | topCtxStream hx hc hs => exact wake_vacuous _ _ _ _ (by simp) (by simp) (by simp)
  | topCtxPacket hx hc hs => exact wake_vacuous _ _ _ _ (by simp) (by simp) (by simp)
  | topDone hx hc hd => exact wake_vacuous _ _ _ _ (by simp) (by simp) (by simp)
  | topRead hx hc hd => cases s.stream <;> exact wake_vacuous _ _ _ _ (by simp) (by simp) (by simp)
  | cleanDone r hx hcl => cases r <;> exact wake_vacuous _ _ _ _ (by simp) (by simp) (by simp)
  | ctxCloseCall hm hx hc => exact wake_vacuous _ _ _ _ (by simp) (by simp) (by simp)
  | closeReturned a hm hx hc =>
    rcases (hS.in0 a hx).2 with e | e <;> subst e <;> exact wake_vacuous _ _ _ _ (by simp) (by simp) (by simp)
  | preClosed hx hd => exact wake_vacuous _ _ _ _ (by simp) (by simp) (by simp)
  | preOpen hx hd => exact wake_vacuous _ _ _ _ (by simp) (by simp) (by simp)
  | arm hx =>
    refine ⟨?_, ?_⟩
    · intro hs _ hl
      dsimp only at hl
      rw [hs] at hl
      simp at hl
    · intro _ _ hl
      dsimp only at hl
      split at hl <;> cases hl
  | checkDone hx hd => exact wake_vacuous _ _ _ _ (by simp) (by simp) (by simp)
  | checkOpen hx hd =>
    refine ⟨?_, ?_⟩
    · intro hs hp _
      have := pd hp
      rw [hd] at this; cases this
    · intro _ _ hl; cases hl
  | readTimeout hx hp => exact wake_vacuous _ _ _ _ (by simp) (by simp) (by simp)
  | readMoreTimeout hx hp => exact wake_vacuous _ _ _ _ (by simp) (by simp) (by simp)
  | errDone c hx hd => exact wake_vacuous _ _ _ _ (by simp) (by simp) (by simp)
  | errDrain hx hd hs => exact wake_vacuous _ _ _ _ (by simp) (by simp) (by simp)
  | errReturn c hx hd hs => exact wake_vacuous _ _ _ _ (by simp) (by simp) (by simp)
  | drainArm hx =>
    refine ⟨?_, ?_⟩
    · intro _ _ hl
      dsimp only at hl
      rcases hl with hl | hl <;> split at hl <;> cases hl
    · intro hs hp hl
      have := pd hp
      dsimp only at hl this
      rw [hs, this] at hl
      simp at hl
  | drainTimeout hx hp => exact wake_vacuous _ _ _ _ (by simp) (by simp) (by simp)
  | deliverGiveUp i hx hc => exact wake_vacuous _ _ _ _ (by simp) (by simp) (by simp)
  | readyGiveUp hx hd => cases s.stream <;> exact wake_vacuous _ _ _ _ (by simp) (by simp) (by simp)
  | returned hx => exact wake_vacuous _ _ _ _ (by simp) (by simp) (by simp)
  | ownCloseCall hm hx hc => exact wake_vacuous _ _ _ _ (by simp) (by simp) (by simp)

theorem invD_env {sh : Shape} {s t : St} (h : InvD sh s) (st : EnvStep s t) : InvD sh t := by
  cases st with
  | tick hx => exact wake_vacuous _ _ _ _ (by simp) (by simp) (by simp)
  | readTo to hx ht =>
    rcases ht with ⟨i, _, e⟩ | e | e | e | ⟨c, e⟩ | ⟨e, _⟩ <;> subst e
    · exact wake_vacuous _ _ _ _ (by simp) (by simp) (by simp)
    · exact wake_vacuous _ _ _ _ (by simp) (by simp) (by simp)
    · exact wake_vacuous _ _ _ _ (by simp) (by simp) (by simp)
    · exact wake_vacuous _ _ _ _ (by simp) (by simp) (by simp)
    · exact wake_vacuous _ _ _ _ (by simp) (by simp) (by simp)
    · refine ⟨?_, ?_⟩
      · intro hs hp _
        simp only [if_true]
        exact h.rd hs hp hx
      · intro _ _ hl; cases hl
  | drainEnds hx => exact wake_vacuous _ _ _ _ (by simp) (by simp) (by simp)
  | delivered i hx => exact wake_vacuous _ _ _ _ (by simp) (by simp) (by simp)
  | accepted hx => exact wake_vacuous _ _ _ _ (by simp) (by simp) (by simp)
  | _ => exact h

end Mieru.UClose

namespace Mieru.UClose

/-- everything that holds in every reachable state -/
structure AllInv (sh : Shape) (m : Nat) (s : St) : Prop where
  a : InvA s
  s' : InvS s
  b : InvB sh s
  c : InvC s
  d : InvD sh s
  m : s.m = m

theorem inv_init (sh : Shape) (stream server : Bool) (m : Nat) : AllInv sh m (init stream server m) := by
  refine ⟨⟨?_, ?_, ?_⟩, ⟨?_, ?_, ?_, ?_, ?_, ?_, ?_⟩, ⟨?_, ?_, ?_, ?_, ?_, ?_, ?_, ?_, ?_, ?_⟩, ⟨?_, ?_⟩, ⟨?_, ?_⟩, rfl⟩ <;>
    simp [init, holding, isInClose]

theorem inv_step {sh : Shape} {m : Nat} {s t : St} (h : AllInv sh m s) (st : Step sh s t) : AllInv sh m t := by
  cases st with
  | own o =>
    refine ⟨invA_own h.a o, invS_own h.s' o, invB_own h.b h.a o, invC_own h.c o, invD_own h.d h.b h.s' o, ?_⟩
    rw [← h.m]; cases o <;> rfl
  | env e =>
    refine ⟨invA_env h.a e, invS_env h.s' e, invB_env h.b e, invC_env h.c e, invD_env h.d e, ?_⟩
    rw [← h.m]; cases e <;> rfl

theorem reach_inv {sh : Shape} {stream server : Bool} {m : Nat} {s : St} (h : Reach sh stream server m s) : AllInv sh m s := by
  induction h with
  | init => exact inv_init sh stream server m
  | step _ st ih => exact inv_step ih st

end Mieru.UClose
