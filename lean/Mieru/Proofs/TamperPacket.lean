import Mieru.Model.Tamper
/-!
# The datagram receiver under an ideal AEAD (helper file for Props/C04)
-/
namespace Mieru.Tamper
open Mieru

variable (openF : Bytes → Bytes → Option Bytes) (M : PCodec) (bd : PMd → Bytes → Option Bytes)

/-- what `parseD` did when it accepts: the two AEAD opens under the datagram's nonce -/
theorem parseD_some {b : Bytes} {m : PMd} {p : Bytes} (h : parseD openF M bd b = some (m, p)) :
    ∃ mb, openF (b.take 24) ((b.drop 24).take 48) = some mb ∧ M.dec mb = some m ∧
      ((m.payloadLen = 0 ∧ p = []) ∨
       (m.payloadLen ≠ 0 ∧ ∃ w ct, bd m w = some ct ∧ openF (b.take 24) ct = some p)) := by
  unfold parseD at h
  split at h
  · simp at h
  · simp only at h
    split at h
    · simp at h
    · rename_i mb hmb
      split at h
      · simp at h
      · rename_i m' hm'
        split at h
        · simp at h
        · split at h
          · rename_i hz
            split at h
            · simp only [Option.some.injEq, Prod.mk.injEq] at h
              obtain ⟨h1, h2⟩ := h
              subst h1
              exact ⟨mb, hmb, hm', Or.inl ⟨hz, h2.symm⟩⟩
            · simp at h
          · rename_i hnz
            split at h
            · simp at h
            · split at h
              · simp at h
              · rename_i ct hct
                split at h
                · simp at h
                · rename_i p' hp'
                  simp only [Option.some.injEq, Prod.mk.injEq] at h
                  obtain ⟨h1, h2⟩ := h
                  subst h1; subst h2
                  exact ⟨mb, hmb, hm', Or.inr ⟨hnz, _, ct, hct, hp'⟩⟩

/-! ## A table-driven ideal AEAD: satisfiability of the hypotheses, and the counterexamples -/

def toySeal (_n p : Bytes) : Bytes := p ++ List.replicate 16 0xEE

/-- every (nonce, plaintext) pair the honest sender sealed -/
def pairsOf (G : List Dgram) : List (Bytes × Bytes) :=
  G.flatMap fun d => (d.nonce, M.enc d.md) :: (if d.payload = [] then [] else [(d.nonce, d.payload)])

/-- opens exactly the ciphertexts of the honest pairs -/
def toyOpen (G : List Dgram) (n ct : Bytes) : Option Bytes :=
  ((pairsOf M G).find? (fun e => e.1 == n && toySeal n e.2 == ct)).map (·.2)

theorem toy_ideal (G : List Dgram) (n ct p : Bytes) (h : toyOpen M G n ct = some p) :
    honestD M G n p ∧ ct = toySeal n p := by
  unfold toyOpen at h
  cases hf : (pairsOf M G).find? (fun e => e.1 == n && toySeal n e.2 == ct) with
  | none => rw [hf] at h; simp at h
  | some e =>
    rw [hf] at h
    simp only [Option.map_some, Option.some.injEq] at h
    have hmem := List.mem_of_find?_eq_some hf
    have hpred := List.find?_some hf
    simp only [Bool.and_eq_true, beq_iff_eq] at hpred
    obtain ⟨hn, hct⟩ := hpred
    subst h
    refine ⟨?_, hct.symm⟩
    unfold pairsOf at hmem
    simp only [List.mem_flatMap, List.mem_cons] at hmem
    obtain ⟨d, hd, hcase⟩ := hmem
    rcases hcase with he | he
    · refine ⟨d, hd, ?_, Or.inl ?_⟩
      · rw [← hn, he]
      · rw [he]
    · by_cases hp : d.payload = []
      · simp [hp] at he
      · simp only [hp, if_false, List.mem_singleton] at he
        refine ⟨d, hd, ?_, Or.inr ⟨hp, ?_⟩⟩
        · rw [← hn, he]
        · rw [he]

theorem toySeal_len (n p : Bytes) : (toySeal n p).length = p.length + 16 := by simp [toySeal]

/-- a toy metadata codec: five one-byte fields, the rest of the block must be zero -/
def toyPCodec : PCodec where
  enc m := [UInt8.ofNat m.prefixLen, UInt8.ofNat m.payloadLen, UInt8.ofNat m.suffixLen, UInt8.ofNat m.plainLen,
            UInt8.ofNat m.tag] ++ List.replicate 27 0
  dec b := match b with
    | a :: b :: c :: d :: e :: rest =>
      if rest = List.replicate 27 0 then some ⟨a.toNat, b.toNat, c.toNat, d.toNat, e.toNat⟩ else none
    | _ => none
  ok m := m.prefixLen < 256 && m.payloadLen < 256 && m.suffixLen < 256 && m.plainLen < 256 && m.tag < 256
  enc_len := by intro m; simp
  dec_enc := by
    intro m h
    simp only [Bool.and_eq_true, decide_eq_true_eq] at h
    obtain ⟨⟨⟨⟨h1, h2⟩, h3⟩, h4⟩, h5⟩ := h
    simp only [List.cons_append, List.nil_append, UInt8.toNat_ofNat', if_true]
    have e1 : m.prefixLen % 2 ^ 8 = m.prefixLen := Nat.mod_eq_of_lt (by omega)
    have e2 : m.payloadLen % 2 ^ 8 = m.payloadLen := Nat.mod_eq_of_lt (by omega)
    have e3 : m.suffixLen % 2 ^ 8 = m.suffixLen := Nat.mod_eq_of_lt (by omega)
    have e4 : m.plainLen % 2 ^ 8 = m.plainLen := Nat.mod_eq_of_lt (by omega)
    have e5 : m.tag % 2 ^ 8 = m.tag := Nat.mod_eq_of_lt (by omega)
    rw [e1, e2, e3, e4, e5]

end Mieru.Tamper
