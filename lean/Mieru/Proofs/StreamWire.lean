import Mieru.Model.StreamWire
/-!
# Lemmas about the TCP framing model (helper file for Props/C01, C04)
-/
namespace Mieru.StreamWire
open Mieru

variable (A : Aead) (M : MetaCodec)

theorem encodeSeg_len (c : Nat) (s : Seg) : (encodeSeg A M c s).1.length = encLen s := by
  unfold encodeSeg encLen
  split <;> simp [A.seal_len, M.enc_len] <;> omega

theorem take_left (x y : Bytes) (n : Nat) (h : x.length = n) : (x ++ y).take n = x := by
  subst h; simp

theorem drop_take_mid (x s r : Bytes) (n k : Nat) (hx : x.length = n) (hs : s.length = k) :
    ((x ++ (s ++ r)).drop n).take k = s := by
  subst hx; subst hs; simp

/-- Parsing the encoding of a well-formed segment followed by anything consumes exactly it. -/
theorem parseOne_encode (c : Nat) (s : Seg) (h : s.wf M) (rest : Bytes) :
    parseOne A M c ((encodeSeg A M c s).1 ++ rest)
      = .ok s.md s.payload (encLen s) (encodeSeg A M c s).2 := by
  obtain ⟨hp, h1, h2, hok⟩ := h
  have hm : (A.sealF c (M.enc s.md)).length = 48 := by simp [A.seal_len, M.enc_len]
  by_cases hpl : s.payload = []
  · have hz : s.md.payloadLen = 0 := by simp [hp, hpl]
    have htake : ((A.sealF c (M.enc s.md) ++ s.pad1 ++ s.pad2) ++ rest).take 48 = A.sealF c (M.enc s.md) := by
      rw [List.append_assoc, List.append_assoc]; exact take_left _ _ _ hm
    have hlen : ¬ ((A.sealF c (M.enc s.md) ++ s.pad1 ++ s.pad2) ++ rest).length < 48 := by
      simp [hm]
    have hlen2 : ¬ ((A.sealF c (M.enc s.md) ++ s.pad1 ++ s.pad2) ++ rest).length < 48 + s.md.prefixLen + s.md.suffixLen := by
      simp [hm, h1, h2]; omega
    simp only [parseOne, encodeSeg, encLen, hpl, if_true, hlen, if_false, htake, A.open_seal, M.dec_enc _ hok, hz, hlen2]
    simp [h1, h2]
  · have hnz : s.md.payloadLen ≠ 0 := by
      rw [hp]; intro h0; exact hpl (List.eq_nil_of_length_eq_zero h0)
    have hs : (A.sealF (c+1) s.payload).length = s.md.payloadLen + 16 := by rw [A.seal_len, hp]
    have htake : ((A.sealF c (M.enc s.md) ++ s.pad1 ++ A.sealF (c+1) s.payload ++ s.pad2) ++ rest).take 48
        = A.sealF c (M.enc s.md) := by
      simp only [List.append_assoc]; exact take_left _ _ _ hm
    have hlen : ¬ ((A.sealF c (M.enc s.md) ++ s.pad1 ++ A.sealF (c+1) s.payload ++ s.pad2) ++ rest).length < 48 := by
      simp [hm]
    have hlen2 : ¬ ((A.sealF c (M.enc s.md) ++ s.pad1 ++ A.sealF (c+1) s.payload ++ s.pad2) ++ rest).length
        < 48 + s.md.prefixLen + (s.md.payloadLen + 16) + s.md.suffixLen := by
      simp [hm, hs, h1, h2]; omega
    have hdrop : (((A.sealF c (M.enc s.md) ++ s.pad1 ++ A.sealF (c+1) s.payload ++ s.pad2) ++ rest).drop
        (48 + s.md.prefixLen)).take (s.md.payloadLen + 16) = A.sealF (c+1) s.payload := by
      have e : A.sealF c (M.enc s.md) ++ s.pad1 ++ A.sealF (c+1) s.payload ++ s.pad2 ++ rest
          = (A.sealF c (M.enc s.md) ++ s.pad1) ++ (A.sealF (c+1) s.payload ++ (s.pad2 ++ rest)) := by
        simp [List.append_assoc]
      rw [e]; exact drop_take_mid _ _ _ _ _ (by simp [hm, h1]) hs
    simp only [parseOne, encodeSeg, encLen, hpl, if_false, hlen, htake, A.open_seal, M.dec_enc _ hok, hnz, hlen2, hdrop]
    simp [h1, h2, hp]

/-- A strict prefix of an encoded segment is never a complete segment and never an error: the
    receiver waits for more bytes. -/
theorem parseOne_prefix (c : Nat) (s : Seg) (h : s.wf M) (k : Nat) (hk : k < encLen s) :
    parseOne A M c ((encodeSeg A M c s).1.take k) = .need := by
  obtain ⟨hp, h1, h2, hok⟩ := h
  have hel := encodeSeg_len A M c s
  have hm : (A.sealF c (M.enc s.md)).length = 48 := by simp [A.seal_len, M.enc_len]
  have hlk : ((encodeSeg A M c s).1.take k).length = k := by
    rw [List.length_take, hel]; omega
  unfold parseOne
  rw [hlk]
  by_cases h48 : k < 48
  · simp [h48]
  · simp only [h48, if_false]
    have htake : ((encodeSeg A M c s).1.take k).take 48 = A.sealF c (M.enc s.md) := by
      rw [List.take_take, Nat.min_eq_left (by omega)]
      unfold encodeSeg
      split
      · simp only [List.append_assoc]; exact take_left _ _ _ hm
      · simp only [List.append_assoc]; exact take_left _ _ _ hm
    rw [htake, A.open_seal]
    simp only [M.dec_enc _ hok]
    unfold encLen at hk
    by_cases hpl : s.payload = []
    · have hz : s.md.payloadLen = 0 := by simp [hp, hpl]
      simp only [hpl, if_true] at hk
      simp only [hz, if_true]
      have : k < 48 + s.md.prefixLen + s.md.suffixLen := by omega
      simp [this]
    · have hnz : s.md.payloadLen ≠ 0 := by
        rw [hp]; intro h0; exact hpl (List.eq_nil_of_length_eq_zero h0)
      simp only [hpl, if_false] at hk
      simp only [hnz, if_false]
      have : k < 48 + s.md.prefixLen + (s.md.payloadLen + 16) + s.md.suffixLen := by omega
      simp [this]

theorem drain_empty (fuel c : Nat) (out : List (Md × Bytes)) :
    drain A M fuel ⟨c, [], out, false⟩ = ⟨c, [], out, false⟩ := by
  cases fuel <;> simp [drain, parseOne]

theorem drain_encodeAll (segs : List Seg) (hw : ∀ s ∈ segs, s.wf M) (c : Nat) (out : List (Md × Bytes)) (fuel : Nat)
    (hf : segs.length ≤ fuel) :
    (drain A M fuel ⟨c, encodeAll A M c segs, out, false⟩).out = out ++ segs.map (fun s => (s.md, s.payload))
    ∧ (drain A M fuel ⟨c, encodeAll A M c segs, out, false⟩).dead = false := by
  induction segs generalizing c out fuel with
  | nil =>
    cases fuel with
    | zero => simp [drain, encodeAll]
    | succ n => simp [drain, encodeAll, parseOne]
  | cons s ss ih =>
    cases fuel with
    | zero => simp at hf
    | succ n =>
      have hs := hw s (by simp)
      have key := parseOne_encode A M c s hs (encodeAll A M (encodeSeg A M c s).2 ss)
      simp only [drain, encodeAll, key]
      have hdrop : ((encodeSeg A M c s).1 ++ encodeAll A M (encodeSeg A M c s).2 ss).drop (encLen s)
          = encodeAll A M (encodeSeg A M c s).2 ss := by
        rw [← encodeSeg_len A M c s]; simp
      simp only [hdrop, Bool.false_eq_true, if_false]
      have := ih (fun x hx => hw x (by simp [hx])) (encodeSeg A M c s).2 (out ++ [(s.md, s.payload)]) n (by simp at hf; omega)
      simpa [List.append_assoc] using this

theorem feed_append (fuel : Nat) (r : Rx) (a b : Bytes) :
    feed A M fuel r (a ++ b) = feed A M fuel (feed A M fuel r a) b := by
  simp [feed, List.foldl_append]

/-- Feeding the remaining bytes of one encoded segment, one at a time, emits exactly that segment
    when the last byte arrives and nothing before. -/
theorem feed_rest_of_segment (fuel : Nat) (hfuel : 0 < fuel) (c : Nat) (s : Seg) (h : s.wf M) (out : List (Md × Bytes)) :
    ∀ (bs pre : Bytes), pre ++ bs = (encodeSeg A M c s).1 → bs ≠ [] →
      feed A M fuel ⟨c, pre, out, false⟩ bs = ⟨(encodeSeg A M c s).2, [], out ++ [(s.md, s.payload)], false⟩ := by
  intro bs
  induction bs with
  | nil => intro pre _ hne; exact absurd rfl hne
  | cons b t ih =>
    intro pre hpre _
    have hel := encodeSeg_len A M c s
    cases t with
    | nil =>
      -- last byte: the buffer is now the whole encoding
      simp only [feed, List.foldl_cons, List.foldl_nil, feedByte]
      rw [hpre]
      cases fuel with
      | zero => omega
      | succ n =>
        have key := parseOne_encode A M c s h []
        rw [List.append_nil] at key
        simp only [drain, Bool.false_eq_true, if_false, key]
        have hd : (encodeSeg A M c s).1.drop (encLen s) = [] := by
          rw [← hel]; simp
        rw [hd]
        exact drain_empty A M n _ _
    | cons b' t' =>
      have hlen : (pre ++ [b]).length < encLen s := by
        have := congrArg List.length hpre
        simp at this ⊢; omega
      have hpfx : pre ++ [b] = (encodeSeg A M c s).1.take (pre ++ [b]).length := by
        rw [← hpre]
        have : pre ++ b :: b' :: t' = (pre ++ [b]) ++ (b' :: t') := by simp
        rw [this, List.take_left' rfl]
      have hneed : parseOne A M c (pre ++ [b]) = .need := by
        rw [hpfx]; exact parseOne_prefix A M c s h _ hlen
      have step : feedByte A M fuel ⟨c, pre, out, false⟩ b = ⟨c, pre ++ [b], out, false⟩ := by
        unfold feedByte
        cases fuel with
        | zero => omega
        | succ n => simp [drain, hneed]
      simp only [feed, List.foldl_cons] at ih ⊢
      rw [step]
      exact ih (pre ++ [b]) (by rw [← hpre]; simp) (by simp)

theorem encodeSeg_nonempty (c : Nat) (s : Seg) : (encodeSeg A M c s).1 ≠ [] := by
  intro h
  have := encodeSeg_len A M c s
  rw [h] at this
  unfold encLen at this
  simp at this
  omega

/-- The byte-at-a-time receiver decodes a whole encoded stream: it emits exactly the sent segments,
    in order, and is not dead. -/
theorem feed_encodeAll (fuel : Nat) (hfuel : 0 < fuel) (segs : List Seg) (hw : ∀ s ∈ segs, s.wf M)
    (c : Nat) (out : List (Md × Bytes)) :
    ∃ c', feed A M fuel ⟨c, [], out, false⟩ (encodeAll A M c segs)
      = ⟨c', [], out ++ segs.map (fun s => (s.md, s.payload)), false⟩ := by
  induction segs generalizing c out with
  | nil => exact ⟨c, by simp [feed, encodeAll]⟩
  | cons s ss ih =>
    have hs := hw s (by simp)
    simp only [encodeAll]
    rw [feed_append]
    have h1 := feed_rest_of_segment A M fuel hfuel c s hs out (encodeSeg A M c s).1 [] (by simp)
      (encodeSeg_nonempty A M c s)
    rw [h1]
    obtain ⟨c', hc'⟩ := ih (fun x hx => hw x (by simp [hx])) (encodeSeg A M c s).2 (out ++ [(s.md, s.payload)])
    exact ⟨c', by rw [hc']; simp [List.append_assoc]⟩

end Mieru.StreamWire
