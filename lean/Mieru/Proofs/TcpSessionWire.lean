import Mieru.Proofs.TcpSession
import Mieru.Proofs.C09Real
import Mieru.Proofs.C09Server
/-!
# From the session layer to the documented wire and back (helper file for Props/C01)

`wrap` (what `writeOneSegment` adds to a session-layer segment) produces a well-formed
`Mieru.Spec.Segment` for every segment the session layer can queue, and `unwrap` / `forSession`
(what the receiving underlay hands to the session with that id) recover it; segments of other
sessions sharing the connection are filtered out whatever the interleaving.
-/
namespace Mieru.TcpSession
open Mieru Mieru.Spec Mieru.Demux

/-- what the session layer queues (`write_mem`, `close_spec`): control segments without fragment
    number and with at most 1024 bytes, data fragments of 1..`fragSize` bytes -/
def Seg.lawful (g : Seg) : Prop :=
  (g.kind ≠ .data ∧ g.fragment = 0 ∧ g.le = none ∧ g.payload.length ≤ maxOpenPayload) ∨
  (g.kind = .data ∧ 1 ≤ g.payload.length ∧ g.payload.length ≤ fragSize g.le ∧ g.fragment < 256)

/-- the underlay's choices fit their fields; with low entropy the half mask has the weight of the
    mode and the rotation is one of the 31 -/
def Wrap.ok (w : Wrap) (le : Option LE) : Prop :=
  w.ts < 2 ^ 32 ∧ w.unAck < 2 ^ 32 ∧ w.window < 2 ^ 16 ∧ w.pad1.length < 256 ∧ w.pad2.length < 256 ∧
  w.mask < 2 ^ 32 ∧ ∀ l, le = some l → LowEntropy.validParams l.mode w.mask l.rot = true

theorem validParams_mode (mode half rot : Nat) (h : LowEntropy.validParams mode half rot = true) :
    mode = 1 ∨ mode = 2 ∨ mode = 3 ∨ mode = 4 := by
  unfold LowEntropy.validParams at h
  split at h
  · cases h
  · rename_i k hk
    unfold LowEntropy.halfOnes at hk
    split at hk <;> first | omega | cases hk

/-- a fragment of at most `fragSize` bytes has an encoded length -/
theorem encodedLen_exists (n : Nat) (l : LE) (h1 : 1 ≤ n) (hn : n ≤ fragSize (some l))
    (hm : l.mode = 1 ∨ l.mode = 2 ∨ l.mode = 3 ∨ l.mode = 4) :
    ∃ el, LowEntropy.encodedLen n l.mode = some el := by
  simp only [fragSize] at hn
  unfold LowEntropy.encodedLen LowEntropy.ceilDiv
  rcases hm with h | h | h | h <;> rw [h] at hn ⊢ <;>
    simp only [LowEntropy.sourceBytes, maxPDU] at hn ⊢ <;>
    (rw [if_neg (by omega), if_neg (by omega)]; exact ⟨_, rfl⟩)

theorem fragSize_le_maxPDU (le : Option LE) : fragSize le ≤ 32768 := fragSize_le le

/-- **`writeOneSegment` produces a well-formed documented segment** for every lawful session-layer
    segment, carrying the session id, and the receiving side recovers exactly the session-layer
    segment from it. -/
theorem wrap_spec (fc : Bool) (sid : Nat) (g : Seg) (w : Wrap) (hsid : sid < 2 ^ 32) (hseq : g.seq < 2 ^ 32)
    (hg : g.lawful) (hw : w.ok g.le) :
    ∃ x, wrap fc sid g w = some x ∧ x.1.wf ∧ unwrap (x.1.md, x.1.payload) = some g ∧
      Spec.Meta.sessionID x.1.md = sid := by
  obtain ⟨w1, w2, w3, w4, w5, w6, w7⟩ := hw
  obtain ⟨gk, gs, gf, gl, gp⟩ := g
  simp only at hseq w7
  rcases hg with ⟨hk, hf, hl, hp⟩ | ⟨hk, hp1, hp2, hf⟩
  · simp only at hk hf hl hp
    subst hf; subst hl
    simp only [maxOpenPayload] at hp
    cases gk with
    | data => exact absurd rfl hk
    | openReq =>
      refine ⟨_, rfl, ?_, ?_, rfl⟩
      · simp only [Segment.wf, proto, Meta.inRange, SessionMeta.inRange, isSessionType, Meta.valid,
          Meta.prefixLen, Meta.suffixLen, Meta.payloadLen, and_true, List.length_nil, decide_eq_true_eq]
        omega
      · simp [unwrap, kindOf, proto, Meta.protocol, Spec.Meta.seq, Spec.Meta.fragment]
    | openResp =>
      refine ⟨_, rfl, ?_, ?_, rfl⟩
      · simp only [Segment.wf, proto, Meta.inRange, SessionMeta.inRange, isSessionType, Meta.valid,
          Meta.prefixLen, Meta.suffixLen, Meta.payloadLen, and_true, List.length_nil, decide_eq_true_eq]
        omega
      · simp [unwrap, kindOf, proto, Meta.protocol, Spec.Meta.seq, Spec.Meta.fragment]
    | closeReq =>
      refine ⟨_, rfl, ?_, ?_, rfl⟩
      · simp only [Segment.wf, proto, Meta.inRange, SessionMeta.inRange, isSessionType, Meta.valid,
          Meta.prefixLen, Meta.suffixLen, Meta.payloadLen, and_true, List.length_nil, decide_eq_true_eq]
        omega
      · simp [unwrap, kindOf, proto, Meta.protocol, Spec.Meta.seq, Spec.Meta.fragment]
    | closeResp =>
      refine ⟨_, rfl, ?_, ?_, rfl⟩
      · simp only [Segment.wf, proto, Meta.inRange, SessionMeta.inRange, isSessionType, Meta.valid,
          Meta.prefixLen, Meta.suffixLen, Meta.payloadLen, and_true, List.length_nil, decide_eq_true_eq]
        omega
      · simp [unwrap, kindOf, proto, Meta.protocol, Spec.Meta.seq, Spec.Meta.fragment]
  · simp only at hk hp1 hp2 hf
    subst hk
    have hmax := fragSize_le_maxPDU gl
    cases gl with
    | none =>
      refine ⟨_, rfl, ?_, ?_, rfl⟩
      · simp only [Segment.wf, Meta.inRange, DataMeta.inRange, isDataType, Meta.valid,
          Meta.prefixLen, Meta.suffixLen, Meta.payloadLen, and_true, and_self]
        cases fc <;> simp only [proto, Bool.false_eq_true, if_false, if_true] <;> omega
      · cases fc <;> simp [unwrap, kindOf, proto, Meta.protocol, Spec.Meta.seq, Spec.Meta.fragment]
    | some l =>
      have hv := w7 l rfl
      have hm := validParams_mode _ _ _ hv
      obtain ⟨el, hel⟩ := encodedLen_exists gp.length l hp1 hp2 hm
      obtain ⟨hn, h8, hlt⟩ := Srv.encodedLen_spec _ _ _ hel
      obtain ⟨hmode, hrot⟩ := Srv.validParams_bounds _ _ _ hv
      have hne : (gp.length == 0) = false := by simpa using hn
      refine ⟨(⟨.le ⟨proto fc .data true, l.mode, w.ts, sid, gs, w.unAck, w.window, gf, w.pad1.length, el,
        w.pad2.length, w.mask, gp.length, l.rot⟩, gp, w.pad1, w.pad2⟩, w.lePad),
        by simp only [wrap, hel, Option.map_some], ?_, ?_, rfl⟩
      · simp only [Segment.wf, Meta.inRange, LEMeta.inRange, isLEType, Meta.valid, LowEntropy.metaValid,
          Meta.prefixLen, Meta.suffixLen, and_true, and_self, hv, hel, hne, Bool.and_eq_true, Bool.or_eq_true,
          decide_eq_true_eq, beq_iff_eq, Bool.false_eq_true, if_false]
        cases fc <;> simp only [proto, Bool.false_eq_true, if_false, if_true] <;>
          exact ⟨⟨⟨by omega, by omega⟩, hmode, w1, hsid, hseq, w2, w3, hf, w4, hlt, w5, w6, by omega, hrot⟩,
            ⟨by simp, by omega⟩, h8⟩
      · cases fc <;> simp [unwrap, kindOf, proto, Meta.protocol, Spec.Meta.seq, Spec.Meta.fragment]

/-- the whole list a session queues, wrapped with one `Wrap` per segment -/
theorem wrapAll_spec (fc : Bool) (sid : Nat) (hsid : sid < 2 ^ 32) (gs : List Seg) (ws : List Wrap)
    (hg : ∀ g ∈ gs, g.lawful ∧ g.seq < 2 ^ 32) (hlen : ws.length = gs.length)
    (hw : ∀ p ∈ gs.zip ws, p.2.ok p.1.le) :
    ∃ xs, wrapAll fc sid gs ws = some xs ∧ (∀ x ∈ xs, x.1.wf ∧ Spec.Meta.sessionID x.1.md = sid) ∧
      (xs.map (fun x => (x.1.md, x.1.payload))).filterMap unwrap = gs := by
  induction gs generalizing ws with
  | nil =>
    cases ws with
    | nil => exact ⟨[], rfl, by simp, rfl⟩
    | cons w ws => simp at hlen
  | cons g gs ih =>
    cases ws with
    | nil => simp at hlen
    | cons w ws =>
      obtain ⟨hgl, hgs⟩ := hg g (by simp)
      obtain ⟨x, hx, hwf, hun, hsidx⟩ := wrap_spec fc sid g w hsid hgs hgl (hw (g, w) (by simp))
      obtain ⟨xs, hxs, hall, hback⟩ := ih ws (fun g' hg' => hg g' (by simp [hg'])) (by simpa using hlen)
        (fun p hp => hw p (by simp [hp]))
      refine ⟨x :: xs, by simp [wrapAll, hx, hxs], ?_, ?_⟩
      · intro y hy
        simp only [List.mem_cons] at hy
        rcases hy with rfl | hy
        · exact ⟨hwf, hsidx⟩
        · exact hall y hy
      · simp [hun, hback]

/-- **Demultiplexing on a shared connection**: whatever order-preserving interleaving of this
    session's segments with the other sessions' segments travels, the session is handed exactly
    its own segments, in order. -/
theorem forSession_merge (sid : Nat) (mine others l : List (Segment × Bool))
    (hm : Merge mine others l) (h1 : ∀ x ∈ mine, Spec.Meta.sessionID x.1.md = sid)
    (h2 : ∀ x ∈ others, Spec.Meta.sessionID x.1.md ≠ sid) :
    forSession sid (l.map (fun x => (x.1.md, x.1.payload)))
      = (mine.map (fun x => (x.1.md, x.1.payload))).filterMap unwrap := by
  induction hm with
  | nil => rfl
  | left x _ ih =>
    have hx := h1 x (by simp)
    have := ih (fun y hy => h1 y (by simp [hy])) h2
    simp only [forSession] at this ⊢
    simp only [List.map_cons, List.filter_cons, hx, beq_self_eq_true, if_true]
    rw [List.filterMap_cons, List.filterMap_cons, this]
  | right y _ ih =>
    have hy := h2 y (by simp)
    have := ih h1 (fun z hz => h2 z (by simp [hz]))
    simp only [forSession] at this ⊢
    simp [List.filter_cons, hy, this]

/-- merging preserves well-formedness of every element -/
theorem merge_all {α : Type} (P : α → Prop) (a b l : List α) (hm : Merge a b l) (ha : ∀ x ∈ a, P x)
    (hb : ∀ x ∈ b, P x) : ∀ x ∈ l, P x := by
  induction hm with
  | nil => simp
  | left x _ ih =>
    intro y hy
    simp only [List.mem_cons] at hy
    rcases hy with rfl | hy
    · exact ha _ (by simp)
    · exact ih (fun z hz => ha z (by simp [hz])) hb y hy
  | right x _ ih =>
    intro y hy
    simp only [List.mem_cons] at hy
    rcases hy with rfl | hy
    · exact hb _ (by simp)
    · exact ih ha (fun z hz => hb z (by simp [hz])) y hy

/-- everything a program of Write / Close calls queues is lawful -/
theorem run_lawful (s : Sess) (ops : List Op) (g : Seg) (hg : g ∈ (run s ops).1) : g.lawful := by
  induction ops generalizing s with
  | nil => simp [run] at hg
  | cons op ops ih =>
    cases op with
    | write lo les b =>
      simp only [run, List.mem_append] at hg
      rcases hg with hg | hg
      · rcases write_mem s lo les b g hg with ⟨a, b', c, d⟩ | ⟨a, b', c, ch, hch, d⟩
        · exact Or.inl ⟨by rw [a]; simp, b', c, d⟩
        · have := pieces_le_two g.le ch hch
          exact Or.inr ⟨a, b', c, by omega⟩
      · exact ih _ hg
    | close =>
      simp only [run, List.mem_append] at hg
      rcases hg with hg | hg
      · unfold close at hg
        split at hg
        · simp at hg
        · split at hg
          · simp only [List.mem_singleton] at hg
            subst hg
            exact Or.inl ⟨by simp, rfl, rfl, by simp⟩
          · simp at hg
      · exact ih _ hg
    | accept p =>
      simp only [run, List.mem_append] at hg
      rcases hg with hg | hg
      · rw [(acceptOpen_spec s p).2.2.1 g hg]
        exact Or.inl ⟨by simp, rfl, rfl, by simp⟩
      · exact ih _ hg

/-- a close request carries no payload -/
theorem closeReq_payload (s : Sess) (ops : List Op) (g : Seg) (hg : g ∈ (run s ops).1) (hk : g.kind = .closeReq) :
    g.payload = [] := by
  induction ops generalizing s with
  | nil => simp [run] at hg
  | cons op ops ih =>
    cases op with
    | write lo les b =>
      simp only [run, List.mem_append] at hg
      rcases hg with hg | hg
      · rcases write_mem s lo les b g hg with ⟨a, _⟩ | ⟨a, _⟩ <;> rw [a] at hk <;> cases hk
      · exact ih _ hg
    | close =>
      simp only [run, List.mem_append] at hg
      rcases hg with hg | hg
      · unfold close at hg
        split at hg
        · simp at hg
        · split at hg
          · simp only [List.mem_singleton] at hg
            subst hg; rfl
          · simp at hg
      · exact ih _ hg
    | accept p =>
      simp only [run, List.mem_append] at hg
      rcases hg with hg | hg
      · rw [(acceptOpen_spec s p).2.2.1 g hg] at hk; cases hk
      · exact ih _ hg

theorem seqs_lt (gs : List Seg) (n0 : Nat) (hseqs : gs.map (·.seq) = List.range' n0 gs.length)
    (hlen : n0 + gs.length ≤ 2 ^ 32) : ∀ g ∈ gs, g.seq < 2 ^ 32 := by
  intro g hg
  have : g.seq ∈ gs.map (·.seq) := List.mem_map_of_mem hg
  rw [hseqs, List.mem_range'_1] at this
  omega

/-- **From the session's queue to the peer session's input, over the documented wire.**  The
    segments a session queued (`emitted`, lawful, numbered consecutively) are wrapped by the
    underlay with any lawful choice of stamps, paddings and masks, travel interleaved in any
    order-preserving way with well-formed segments of OTHER sessions on the same connection, are
    sealed under the connection's key and nonce sequence, cut by the network into any chunks, and
    fed to a receiver that knows only candidate keys: the receiver neither fails nor keeps a
    remainder, and hands to the session with this id exactly `emitted`, in order. -/
theorem session_stream_core (A : AeadFns) (hA : AeadLaws32 A) (fc : Bool) (sid : Nat) (hsid : sid < 2 ^ 32)
    (emitted : List Seg) (hlaw : ∀ g ∈ emitted, g.lawful)
    (hseqs : emitted.map (·.seq) = List.range' 0 emitted.length) (hlen : emitted.length ≤ 2 ^ 32)
    (ws : List Wrap) (hwl : ws.length = emitted.length) (hws : ∀ p ∈ emitted.zip ws, p.2.ok p.1.le)
    (mine : List (Segment × Bool)) (hmine : wrapAll fc sid emitted ws = some mine)
    (others l : List (Segment × Bool)) (ho : ∀ x ∈ others, x.1.wf ∧ Spec.Meta.sessionID x.1.md ≠ sid)
    (hm : Merge mine others l)
    (t : Tx) (hk : t.key.length = 32) (hn : t.nonce.length = 24) (cands : List Bytes)
    (hc : ∀ k ∈ cands, k.length = 32) (hsync : InSyncFor A t (Rx.new cands) (firstMeta l))
    (bytes : Bytes) (hs : sealAll A t l = some bytes) (chunks : List Bytes) (hch : chunks.flatten = bytes) :
    (chunks.foldl (feed A) (Rx.new cands)).dead = none ∧ (chunks.foldl (feed A) (Rx.new cands)).buf = [] ∧
    forSession sid (chunks.foldl (feed A) (Rx.new cands)).out = emitted := by
  obtain ⟨xs, hxs, hall, hback⟩ := wrapAll_spec fc sid hsid emitted ws
    (fun g hg => ⟨hlaw g hg, seqs_lt emitted 0 hseqs (by omega) g hg⟩) hwl hws
  rw [hmine] at hxs
  cases hxs
  have hwf : ∀ x ∈ l, x.1.wf :=
    merge_all (fun x => x.1.wf) mine others l hm (fun x hx => (hall x hx).1) (fun x hx => (ho x hx).1)
  obtain ⟨o1, o2, o3⟩ := tcp_stream_roundtrip32 A hA l hwf t hk hn cands hc hsync bytes hs chunks hch
  refine ⟨o2, o3, ?_⟩
  rw [o1, forSession_merge sid mine others l hm (fun x hx => (hall x hx).2) (fun x hx => (ho x hx).2), hback]

end Mieru.TcpSession
