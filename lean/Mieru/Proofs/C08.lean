import Mieru.Model.KeyCache
/-!
# Lemmas for C08 (slot arithmetic by `omega`, cache invariant by induction)
-/
namespace Mieru.Proofs.C08
open Mieru.Time Mieru.KeyCache

theorem epoch_unfold (t : Int) :
    epoch t = (if t % 120000000000 + t % 120000000000 < 120000000000 then t - t % 120000000000
               else t + (120000000000 - t % 120000000000)) / 1000000000 := by
  rfl

theorem epoch_nearest (t : Int) :
    ∃ q : Int, epoch t = 120 * q ∧
      120000000000 * q - 60000000000 ≤ t ∧ t < 120000000000 * q + 60000000000 := by
  rw [epoch_unfold]
  split
  · exact ⟨t / 120000000000, by omega, by omega, by omega⟩
  · exact ⟨t / 120000000000 + 1, by omega, by omega, by omega⟩

theorem slot_agreement (t d : Int) (h1 : -60000000000 ≤ d) (h2 : d ≤ 60000000000) :
    epoch t = epoch (t + d) - 120 ∨ epoch t = epoch (t + d) ∨ epoch t = epoch (t + d) + 120 := by
  obtain ⟨q, hq, ha, hb⟩ := epoch_nearest t
  obtain ⟨q', hq', ha', hb'⟩ := epoch_nearest (t + d)
  omega

/-- four minutes or more apart: the slots are at least 240 s apart -/
theorem slot_far (t d : Int) (h : d ≤ -240000000000 ∨ 240000000000 ≤ d) :
    epoch t - epoch (t + d) ≥ 240 ∨ epoch (t + d) - epoch t ≥ 240 := by
  obtain ⟨q, hq, ha, hb⟩ := epoch_nearest t
  obtain ⟨q', hq', ha', hb'⟩ := epoch_nearest (t + d)
  omega

theorem minute_eq (t : Int) (ht : 0 ≤ t) : minute t = t / 1000000000 / 60 := by
  simp only [minute, unixSec, nsPerSec]
  exact Int.tdiv_eq_ediv_of_nonneg (by omega)

theorem minute_agreement (t d : Int) (ht : 0 ≤ t) (htd : 0 ≤ t + d)
    (h1 : -60000000000 ≤ d) (h2 : d ≤ 60000000000) :
    minute t - minute (t + d) ≤ 1 ∧ minute (t + d) - minute t ≤ 1 := by
  rw [minute_eq t ht, minute_eq (t + d) htd]
  omega

theorem minute_far (t d : Int) (ht : 0 ≤ t) (htd : 0 ≤ t + d)
    (h : d ≤ -120000000000 ∨ 120000000000 ≤ d) :
    minute t - minute (t + d) ≥ 2 ∨ minute (t + d) - minute t ≥ 2 := by
  rw [minute_eq t ht, minute_eq (t + d) htd]
  omega

theorem minuteU32_eq (t : Int) (ht : 0 ≤ t) (hw : t < 257698037760000000000) :
    (minuteU32 t : Int) = minute t := by
  have h0 : 0 ≤ minute t := by rw [minute_eq t ht]; omega
  have h1 : minute t < 4294967296 := by rw [minute_eq t ht]; omega
  simp only [minuteU32]
  rw [Int.emod_eq_of_lt h0 h1]
  exact Int.toNat_of_nonneg h0

theorem mid_spec (a b c : Int) :
    mid a b c = if a > b then (if b > c then b else if a > c then c else a)
                else (if a > c then a else if b > c then c else b) := by
  simp only [mid]
  split <;> split <;> (try split) <;> (try split) <;> omega

theorem withinRange_iff (v target margin : Int) (hm : 0 ≤ margin) :
    withinRange v target margin = true ↔ target - margin ≤ v ∧ v ≤ target + margin := by
  simp only [withinRange, beq_iff_eq, mid_spec]
  constructor
  · intro h
    split at h <;> (try split at h) <;> (try split at h) <;> omega
  · intro h
    split <;> (try split) <;> (try split) <;> omega

theorem withinRangeU32_iff (v target margin : Int) (hm : 0 ≤ margin)
    (hlo : margin ≤ target) (hhi : target + margin < 4294967296) :
    withinRangeU32 v target margin = true ↔ target - margin ≤ v ∧ v ≤ target + margin := by
  have e1 : (target - margin) % u32 = target - margin := Int.emod_eq_of_lt (by omega) (by simp only [u32]; omega)
  have e2 : (target + margin) % u32 = target + margin := Int.emod_eq_of_lt (by omega) (by simp only [u32]; omega)
  have := withinRange_iff v target margin hm
  simp only [withinRange] at this
  simp only [withinRangeU32, e1, e2]
  exact this

/-! ## Cache invariant -/

/-- an entry carries the keys derived for its own epoch -/
def EntryOk {K : Type} (derive : Int → K) (e : Entry K) : Prop := e.keys = derive e.epoch

/-- every entry stored in the cache slot or held by any decryptor is consistent -/
def StateOk {K : Type} (derive : Int → K) (s : State K) : Prop :=
  (∀ e, s.cache = some e → EntryOk derive e) ∧ (∀ dec e, s.held dec = some e → EntryOk derive e)

theorem empty_ok {K : Type} {derive : Int → K} : StateOk derive State.empty := by
  constructor
  · intro e h; simp [State.empty] at h
  · intro dec e h; simp [State.empty] at h

theorem fresh_ok {K : Type} (derive : Int → K) (now : Instant) : EntryOk derive (fresh derive now) := rfl

theorem getCached_ok {K : Type} (validNs : Int) (derive : Int → K) (c : Option (Entry K)) (now : Instant) (j : Int)
    (hc : ∀ e, c = some e → EntryOk derive e) :
    (getCached validNs derive c now j).1.epoch = epoch now.wall ∧
    EntryOk derive (getCached validNs derive c now j).1 ∧
    (∀ e, (getCached validNs derive c now j).2 = some e → EntryOk derive e) := by
  unfold getCached
  cases c with
  | none =>
    refine ⟨rfl, fresh_ok derive now, ?_⟩
    intro e h
    simp only [Option.some.injEq] at h
    subst h
    exact fresh_ok derive now
  | some e0 =>
    by_cases hx : expired validNs e0 now j
    · simp only [hx, if_true]
      refine ⟨rfl, fresh_ok derive now, ?_⟩
      intro e h
      simp only [Option.some.injEq] at h
      subst h
      exact fresh_ok derive now
    · simp only [hx, if_false]
      have he : e0.epoch = epoch now.wall := by
        simp only [expired, not_or, Decidable.not_not] at hx
        exact hx.1
      refine ⟨he, hc e0 rfl, ?_⟩
      intro e h
      simp only [Option.some.injEq] at h
      subst h
      exact hc e0 rfl

theorem setHeld_ok {K : Type} (derive : Int → K) (held : Nat → Option (Entry K)) (dec : Nat) (e0 : Entry K)
    (hh : ∀ d e, held d = some e → EntryOk derive e) (h0 : EntryOk derive e0) :
    ∀ d e, setHeld held dec e0 d = some e → EntryOk derive e := by
  intro d e h
  simp only [setHeld] at h
  split at h
  · simp only [Option.some.injEq] at h
    subst h; exact h0
  · exact hh d e h

theorem step_ok {K : Type} (validNs : Int) (derive : Int → K) (s : State K) (hs : StateOk derive s) (op : Op) :
    (step validNs derive s op).1.epoch = epoch op.now.wall ∧
    (step validNs derive s op).1.keys = derive (epoch op.now.wall) ∧
    StateOk derive (step validNs derive s op).2 := by
  obtain ⟨hc, hh⟩ := hs
  cases op with
  | lookup now j =>
    obtain ⟨h1, h2, h3⟩ := getCached_ok validNs derive s.cache now j hc
    refine ⟨h1, ?_, ?_⟩
    · simp only [step, Op.now]
      rw [← h1]; exact h2
    · exact ⟨h3, hh⟩
  | tryDecrypt dec now j =>
    obtain ⟨h1, h2, h3⟩ := getCached_ok validNs derive s.cache now j hc
    have viaCache :
        (getCached validNs derive s.cache now j).1.epoch = epoch now.wall ∧
        (getCached validNs derive s.cache now j).1.keys = derive (epoch now.wall) ∧
        StateOk derive ⟨(getCached validNs derive s.cache now j).2,
          setHeld s.held dec (getCached validNs derive s.cache now j).1⟩ :=
      ⟨h1, by rw [← h1]; exact h2, h3, setHeld_ok derive s.held dec _ hh h2⟩
    simp only [step, Op.now, tryEntry]
    cases hheld : s.held dec with
    | none => simpa using viaCache
    | some h =>
      dsimp only
      by_cases he : h.epoch = epoch now.wall
      · rw [if_pos he]
        refine ⟨he, ?_, hc, hh⟩
        have := hh dec h hheld
        rw [← he]; exact this
      · rw [if_neg he]
        exact viaCache

theorem run_ok {K : Type} (validNs : Int) (derive : Int → K) (s : State K) (hs : StateOk derive s) (ops : List Op) :
    ∀ p ∈ run validNs derive s ops, p.2.epoch = epoch p.1.wall ∧ p.2.keys = derive (epoch p.1.wall) := by
  induction ops generalizing s with
  | nil => intro p h; simp [run] at h
  | cons op ops ih =>
    intro p h
    obtain ⟨h1, h2, h3⟩ := step_ok validNs derive s hs op
    simp only [run, List.mem_cons] at h
    cases h with
    | inl h => subst h; exact ⟨h1, h2⟩
    | inr h => exact ih _ h3 p h

/-- the decryptor goes back to the cache exactly when `refetch` says so -/
theorem tryEntry_refetch {K : Type} (validNs : Int) (derive : Int → K) (s : State K) (dec : Nat) (now : Instant) (j : Int) :
    tryEntry validNs derive s dec now j =
      if refetch (s.held dec) now then
        ((getCached validNs derive s.cache now j).1,
         ⟨(getCached validNs derive s.cache now j).2, setHeld s.held dec (getCached validNs derive s.cache now j).1⟩)
      else ((s.held dec).getD (fresh derive now), s) := by
  simp only [tryEntry, refetch]
  cases s.held dec with
  | none => simp
  | some h =>
    by_cases he : h.epoch = epoch now.wall
    · simp [he]
    · simp [he]

theorem conc_ok {K : Type} (validNs : Int) (derive : Int → K) (pool : List (Entry K)) (used : List (Instant × Entry K))
    (h : ConcRun validNs derive pool used) :
    (∀ e ∈ pool, EntryOk derive e) ∧
    ∀ p ∈ used, p.2.epoch = epoch p.1.wall ∧ p.2.keys = derive (epoch p.1.wall) := by
  induction h with
  | nil => exact ⟨by simp, by simp⟩
  | op pool used c hd hc hh o prev ih =>
    obtain ⟨ihp, ihu⟩ := ih
    have hs : StateOk derive (⟨c, fun _ => hd⟩ : State K) :=
      ⟨fun e he => ihp e (hc e he), fun _ e he => ihp e (hh e he)⟩
    obtain ⟨h1, h2, _⟩ := step_ok validNs derive _ hs o
    refine ⟨?_, ?_⟩
    · intro e he
      simp only [List.mem_cons] at he
      rcases he with rfl | he
      · show (step validNs derive _ o).1.keys = derive (step validNs derive _ o).1.epoch
        rw [h2, h1]
      · exact ihp e he
    · intro p hp
      simp only [List.mem_cons] at hp
      rcases hp with rfl | hp
      · exact ⟨h1, h2⟩
      · exact ihu p hp

end Mieru.Proofs.C08
