import Mieru.Model.Url
import Mieru.Proofs.Base64
/-! # escaping, query strings, decimal integers: helper lemmas -/
namespace Mieru.Url
open Mieru.Base64 (Bytes toNat_ofNat_lt)

theorem unhex_hexUpper (n : Nat) (h : n < 16) : unhex (hexUpper n) = some n := by
  unfold hexUpper unhex
  split
  · rw [toNat_ofNat_lt (by omega)]; simp only []; rw [if_pos (by omega)]; congr 1; omega
  · rw [toNat_ofNat_lt (by omega)]; simp only []
    rw [if_neg (by omega), if_neg (by omega), if_pos (by omega)]; congr 1; omega

theorem not_escaped_ne (m : Mode) (c : UInt8) (h : shouldEscape m c = false) :
    c ≠ 37 ∧ (m = .query → c ≠ 43) := by
  constructor
  · intro e; subst e; cases m <;> simp [shouldEscape, isAlnum, isMark, isUserinfoSafe] at h
  · intro hm e; subst e; subst hm; simp [shouldEscape, isAlnum, isMark] at h

theorem unescape_escape (m : Mode) (s : Bytes) : unescape m (escape m s) = some s := by
  induction s with
  | nil => simp [escape, unescape]
  | cons c rest ih =>
    unfold escape
    by_cases hesc : shouldEscape m c = true
    · rw [if_pos hesc]
      by_cases hsp : c = 32 ∧ m = Mode.query
      · rw [if_pos hsp]
        unfold unescape
        rw [if_neg (by decide), if_pos ⟨rfl, hsp.2⟩, ih, hsp.1]; rfl
      · rw [if_neg hsp]
        unfold unescape
        have hc : c.toNat < 256 := c.toNat_lt
        rw [if_pos rfl]
        simp only [unhex_hexUpper (c.toNat / 16) (by omega), unhex_hexUpper (c.toNat % 16) (by omega), ih, Option.map_some]
        congr 2
        rw [← UInt8.toNat_inj, toNat_ofNat_lt (by omega)]; omega
    · have hne := not_escaped_ne m c (by simpa using hesc)
      rw [if_neg hesc]
      unfold unescape
      rw [if_neg hne.1]
      by_cases hq : c = 43 ∧ m = Mode.query
      · exact absurd hq.1 (hne.2 hq.2)
      · rw [if_neg hq, ih]; rfl

/-! ### what an escaped query component consists of -/

/-- characters `QueryEscape` emits: unreserved, `+`, `%` -/
def QSafe (c : UInt8) : Prop := isAlnum c.toNat = true ∨ isMark c.toNat = true ∨ c = 43 ∨ c = 37

theorem hexUpper_alnum (n : Nat) (h : n < 16) : isAlnum (hexUpper n).toNat = true := by
  unfold hexUpper
  split
  · rw [toNat_ofNat_lt (by omega)]; simp [isAlnum]; omega
  · rw [toNat_ofNat_lt (by omega)]; simp [isAlnum]; omega

theorem escape_query_safe (s : Bytes) : ∀ c ∈ escape .query s, QSafe c := by
  induction s with
  | nil => simp [escape]
  | cons x rest ih =>
    intro c hc
    unfold escape at hc
    have hx : x.toNat < 256 := x.toNat_lt
    split at hc
    · split at hc
      · rcases List.mem_cons.mp hc with e | e
        · exact Or.inr (Or.inr (Or.inl e))
        · exact ih c e
      · simp only [List.mem_cons] at hc
        rcases hc with e | e | e | e
        · exact Or.inr (Or.inr (Or.inr e))
        · rw [e]; exact Or.inl (hexUpper_alnum _ (by omega))
        · rw [e]; exact Or.inl (hexUpper_alnum _ (by omega))
        · exact ih c e
    · rename_i hne
      rcases List.mem_cons.mp hc with e | e
      · rw [e]
        simp only [shouldEscape, Bool.not_eq_true] at hne
        by_cases h1 : (isAlnum x.toNat || isMark x.toNat) = true
        · rcases Bool.or_eq_true _ _ |>.mp h1 with h | h
          · exact Or.inl h
          · exact Or.inr (Or.inl h)
        · simp [h1] at hne
      · exact ih c e

theorem qsafe_not_sep (c : UInt8) (h : QSafe c) : c ≠ 38 ∧ c ≠ 61 ∧ c ≠ 59 := by
  refine ⟨?_, ?_, ?_⟩ <;> (intro e; subst e; rcases h with h | h | h | h <;> simp [isAlnum, isMark] at h)

/-! ### cutting and splitting at a separator that does not occur in the first piece -/

theorem cut_append (sep : UInt8) (a b : Bytes) (h : sep ∉ a) : cut sep (a ++ sep :: b) = (a, some b) := by
  induction a with
  | nil => simp [cut]
  | cons x xs ih =>
    have hx : x ≠ sep := fun e => h (by simp [e])
    have hxs : sep ∉ xs := fun e => h (List.mem_cons_of_mem _ e)
    simp [cut, hx, ih hxs]

theorem cut_none (sep : UInt8) (a : Bytes) (h : sep ∉ a) : cut sep a = (a, none) := by
  induction a with
  | nil => simp [cut]
  | cons x xs ih =>
    have hx : x ≠ sep := fun e => h (by simp [e])
    have hxs : sep ∉ xs := fun e => h (List.mem_cons_of_mem _ e)
    simp [cut, hx, ih hxs]

theorem splitOn_ne_nil (sep : UInt8) (a : Bytes) : splitOn sep a ≠ [] := by
  cases a with
  | nil => simp [splitOn]
  | cons x xs =>
    unfold splitOn
    split
    · simp
    · split <;> simp

theorem splitOn_append (sep : UInt8) (a b : Bytes) (h : sep ∉ a) : splitOn sep (a ++ sep :: b) = a :: splitOn sep b := by
  induction a with
  | nil => simp [splitOn]
  | cons x xs ih =>
    have hx : x ≠ sep := fun e => h (by simp [e])
    have hxs : sep ∉ xs := fun e => h (List.mem_cons_of_mem _ e)
    simp only [List.cons_append, splitOn, if_neg hx, ih hxs]

theorem splitOn_single (sep : UInt8) (a : Bytes) (h : sep ∉ a) : splitOn sep a = [a] := by
  induction a with
  | nil => simp [splitOn]
  | cons x xs ih =>
    have hx : x ≠ sep := fun e => h (by simp [e])
    have hxs : sep ∉ xs := fun e => h (List.mem_cons_of_mem _ e)
    simp only [splitOn, if_neg hx, ih hxs]

/-! ### Values.Encode → ParseQuery -/

theorem segment_no_amp_semicolon (k v : Bytes) : (38 : UInt8) ∉ segment k v ∧ (59 : UInt8) ∉ segment k v := by
  unfold segment
  constructor <;>
  · intro h
    rcases List.mem_append.mp h with h | h
    · have := qsafe_not_sep _ (escape_query_safe k _ h); simp_all
    · rcases List.mem_cons.mp h with h | h
      · cases h
      · have := qsafe_not_sep _ (escape_query_safe v _ h); simp_all

theorem parseSegment_segment (k v : Bytes) : parseSegment (segment k v) = some (k, v) := by
  unfold parseSegment
  have hsemi := (segment_no_amp_semicolon k v).2
  have hc : (segment k v).contains 59 = false := by
    rw [Bool.eq_false_iff]; intro h; exact hsemi (List.contains_iff_mem.mp h)
  rw [hc]
  have hk : (61 : UInt8) ∉ escape .query k := fun h => (qsafe_not_sep _ (escape_query_safe k _ h)).2.1 rfl
  simp only [Bool.false_eq_true, if_false, segment, cut_append 61 _ _ hk, Option.getD_some, unescape_escape]

theorem parseQuery_encodePairs (ps : List (Bytes × Bytes)) : parseQuery (encodePairs ps) = some ps := by
  unfold parseQuery
  induction ps with
  | nil => simp [encodePairs, splitOn]
  | cons p rest ih =>
    obtain ⟨k, v⟩ := p
    have hamp := (segment_no_amp_semicolon k v).1
    have hne : segment k v ≠ [] := by unfold segment; simp
    cases rest with
    | nil =>
      simp only [encodePairs, splitOn_single 38 _ hamp]
      simp [hne, parseSegment_segment]
    | cons q qs =>
      obtain ⟨k', v'⟩ := q
      simp only [encodePairs] at ih ⊢
      rw [splitOn_append 38 _ _ hamp]
      simp only [List.filter_cons, hne, ne_eq, not_false_eq_true, decide_true, if_true, List.mapM_cons, parseSegment_segment]
      rw [ih]; rfl

/-! ### decimal integers -/

def valRev : List Nat → Nat
  | [] => 0
  | d :: ds => d + 10 * valRev ds

theorem revDigits_spec (fuel n : Nat) (h : n < fuel) :
    valRev (revDigits fuel n) = n ∧ (∀ d ∈ revDigits fuel n, d < 10) ∧ revDigits fuel n ≠ [] := by
  induction fuel generalizing n with
  | zero => omega
  | succ f ih =>
    unfold revDigits
    split
    · simp [valRev]; omega
    · have := ih (n / 10) (by omega)
      refine ⟨?_, ?_, by simp⟩
      · simp only [valRev, this.1]; omega
      · intro d hd
        rcases List.mem_cons.mp hd with e | e
        · omega
        · exact this.2.1 d e

def digitChar (d : Nat) : UInt8 := UInt8.ofNat (48 + d)

theorem natDigits_eq (n : Nat) : natDigits n = (revDigits (n + 1) n).reverse.map digitChar := rfl

theorem parseNat_snoc (s : Bytes) (c : UInt8) : parseNat (s ++ [c]) = parseNat s * 10 + (c.toNat - 48) := by
  simp [parseNat, List.foldl_append]

theorem parseNat_digits (l : List Nat) (h : ∀ d ∈ l, d < 10) : parseNat (l.reverse.map digitChar) = valRev l := by
  induction l with
  | nil => rfl
  | cons d ds ih =>
    have hd : d < 10 := h d (by simp)
    simp only [List.reverse_cons, List.map_append, List.map_cons, List.map_nil]
    rw [parseNat_snoc, ih (fun x hx => h x (List.mem_cons_of_mem _ hx))]
    simp only [valRev, digitChar]
    rw [toNat_ofNat_lt (by omega)]; omega

theorem parseNat_natDigits (n : Nat) : parseNat (natDigits n) = n := by
  have := revDigits_spec (n + 1) n (by omega)
  rw [natDigits_eq, parseNat_digits _ this.2.1, this.1]

theorem natDigits_all_digit (n : Nat) : (natDigits n).all isDigit = true := by
  have := revDigits_spec (n + 1) n (by omega)
  rw [natDigits_eq, List.all_eq_true]
  intro c hc
  rcases List.mem_map.mp hc with ⟨d, hd, e⟩
  have hd10 := this.2.1 d (List.mem_reverse.mp hd)
  subst e
  have e : (UInt8.ofNat (48 + d)).toNat = 48 + d := toNat_ofNat_lt (by omega)
  simp only [isDigit, digitChar, e]
  simp; omega

theorem natDigits_ne_nil (n : Nat) : natDigits n ≠ [] := by
  have := revDigits_spec (n + 1) n (by omega)
  rw [natDigits_eq]; simp [this.2.2]

theorem natDigits_head (n : Nat) : ∃ c r, natDigits n = c :: r ∧ isDigit c = true := by
  cases h : natDigits n with
  | nil => exact absurd h (natDigits_ne_nil n)
  | cons c r =>
    refine ⟨c, r, rfl, ?_⟩
    have := natDigits_all_digit n
    rw [h, List.all_cons] at this
    exact (Bool.and_eq_true _ _ |>.mp this).1

theorem isDigit_not_sign (c : UInt8) (h : isDigit c = true) : c ≠ 43 ∧ c ≠ 45 := by
  constructor <;> (intro e; subst e; simp [isDigit] at h)

/-- `Atoi(Itoa(n)) = n` on the int64 range -/
theorem atoi_itoa (n : Int) (h1 : -9223372036854775808 ≤ n) (h2 : n < 9223372036854775808) : atoi (itoa n) = some n := by
  have e63 : (2 : Nat) ^ 63 = 9223372036854775808 := by decide
  unfold itoa
  by_cases hn : n < 0
  · rw [if_pos hn]
    unfold atoi
    simp only [show ((45 : UInt8) = 43) = False from by decide, if_false, if_true]
    have hd := natDigits_all_digit n.natAbs
    have hne := natDigits_ne_nil n.natAbs
    simp only [hne, hd, Bool.not_true, Bool.false_eq_true, or_self, if_false, parseNat_natDigits]
    rw [if_pos (by omega)]
    congr 1; omega
  · rw [if_neg hn]
    obtain ⟨c, r, hcr, hdig⟩ := natDigits_head n.natAbs
    have hs := isDigit_not_sign c hdig
    have hd := natDigits_all_digit n.natAbs
    have hp := parseNat_natDigits n.natAbs
    unfold atoi
    rw [hcr] at hd hp ⊢
    simp only [if_neg hs.1, if_neg hs.2]
    simp only [hd, Bool.not_true, Bool.false_eq_true, or_false, hp]
    rw [if_neg (by simp), if_neg (by simp), if_pos (by omega)]
    congr 1; omega

end Mieru.Url
