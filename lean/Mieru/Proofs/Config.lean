import Mieru.Model.Config
/-! # merge-by-key and password hashing: helper lemmas -/
namespace Mieru.Config

theorem bytesLt_irrefl (a : Bytes) : bytesLt a a = false := by
  induction a with
  | nil => rfl
  | cons x xs ih => simp [bytesLt, ih]

theorem bytesLt_trans {a b c : Bytes} (h1 : bytesLt a b = true) (h2 : bytesLt b c = true) : bytesLt a c = true := by
  induction a generalizing b c with
  | nil => cases b <;> cases c <;> simp_all [bytesLt]
  | cons x xs ih =>
    cases b with
    | nil => simp [bytesLt] at h1
    | cons y ys =>
      cases c with
      | nil => simp [bytesLt] at h2
      | cons z zs =>
        simp only [bytesLt] at h1 h2 ⊢
        by_cases hxy : x.toNat < y.toNat
        · by_cases hyz : y.toNat < z.toNat
          · rw [if_pos (by omega)]
          · rw [if_neg hyz] at h2
            by_cases hzy : z.toNat < y.toNat
            · simp [hzy] at h2
            · rw [if_pos (by omega)]
        · rw [if_neg hxy] at h1
          by_cases hyx : y.toNat < x.toNat
          · simp [hyx] at h1
          · rw [if_neg hyx] at h1
            by_cases hyz : y.toNat < z.toNat
            · rw [if_pos (by omega)]
            · rw [if_neg hyz] at h2
              by_cases hzy : z.toNat < y.toNat
              · simp [hzy] at h2
              · rw [if_neg hzy] at h2
                rw [if_neg (by omega), if_neg (by omega)]
                exact ih h1 h2

theorem bytesLt_trichotomy {a b : Bytes} (h1 : bytesLt a b = false) (h2 : bytesLt b a = false) : a = b := by
  induction a generalizing b with
  | nil => cases b <;> simp_all [bytesLt]
  | cons x xs ih =>
    cases b with
    | nil => simp [bytesLt] at h2
    | cons y ys =>
      simp only [bytesLt] at h1 h2
      by_cases hxy : x.toNat < y.toNat
      · simp [hxy] at h1
      · by_cases hyx : y.toNat < x.toNat
        · simp [hyx] at h2
        · rw [if_neg hxy, if_neg hyx] at h1
          rw [if_neg hyx, if_neg hxy] at h2
          have : x = y := UInt8.toNat_inj.mp (by omega)
          rw [this, ih h1 h2]

theorem bytesLt_ne {a b : Bytes} (h : bytesLt a b = true) : a ≠ b := by
  intro e; subst e; rw [bytesLt_irrefl] at h; cases h

variable {α : Type} (key : α → Bytes)

/-- strictly increasing keys -/
def Sorted (l : List α) : Prop := l.Pairwise (fun a b => bytesLt (key a) (key b) = true)

theorem mem_upsert (x : α) (l : List α) (y : α) (h : y ∈ upsert key x l) : y = x ∨ y ∈ l := by
  induction l with
  | nil => simp [upsert] at h; exact Or.inl h
  | cons z zs ih =>
    unfold upsert at h
    split at h
    · simp at h; rcases h with h | h | h <;> simp [h]
    · split at h
      · simp at h; rcases h with h | h
        · simp [h]
        · rcases ih h with h | h <;> simp [h]
      · simp at h; rcases h with h | h <;> simp [h]

theorem sorted_upsert (x : α) (l : List α) (h : Sorted key l) : Sorted key (upsert key x l) := by
  induction l with
  | nil => simp [upsert, Sorted]
  | cons z zs ih =>
    unfold Sorted at h ⊢
    rw [List.pairwise_cons] at h
    unfold upsert
    split
    · rename_i hlt
      rw [List.pairwise_cons]
      refine ⟨?_, List.pairwise_cons.mpr h⟩
      intro a ha
      rcases List.mem_cons.mp ha with e | e
      · rw [e]; exact hlt
      · exact bytesLt_trans hlt (h.1 a e)
    · split
      · rename_i _ hlt
        rw [List.pairwise_cons]
        refine ⟨?_, ih h.2⟩
        intro a ha
        rcases mem_upsert key x zs a ha with e | e
        · rw [e]; exact hlt
        · exact h.1 a e
      · rename_i h1 h2
        have e : key x = key z := bytesLt_trichotomy (by simpa using h1) (by simpa using h2)
        rw [List.pairwise_cons]
        refine ⟨?_, h.2⟩
        intro a ha; rw [e]; exact h.1 a ha

/-- the entry stored under name `k` -/
def lookup (k : Bytes) (l : List α) : Option α := l.find? (fun y => key y = k)

theorem lookup_upsert (x : α) (l : List α) (k : Bytes) :
    lookup key k (upsert key x l) = if key x = k then some x else lookup key k l := by
  induction l with
  | nil => simp [upsert, lookup, List.find?]
  | cons z zs ih =>
    unfold upsert
    split
    · simp only [lookup, List.find?_cons]
      by_cases hx : key x = k <;> simp [hx]
    · split
      · rename_i _ hlt
        have hne : key z ≠ key x := bytesLt_ne hlt
        simp only [lookup, List.find?_cons] at ih ⊢
        by_cases hz : key z = k
        · have : ¬ key x = k := fun e => hne (hz.trans e.symm)
          simp [hz, this]
        · simp [hz, ih]
      · rename_i h1 h2
        have e : key x = key z := bytesLt_trichotomy (by simpa using h1) (by simpa using h2)
        simp only [lookup, List.find?_cons]
        by_cases hx : key x = k
        · simp [hx]
        · have : ¬ key z = k := fun e' => hx (e.trans e')
          simp [hx, this]

theorem lookup_foldl (l init : List α) (k : Bytes) :
    lookup key k (l.foldl (fun acc x => upsert key x acc) init) =
      (match lookup key k l.reverse with | some x => some x | none => lookup key k init) := by
  induction l generalizing init with
  | nil => simp [lookup]
  | cons x xs ih =>
    rw [List.foldl_cons, ih, lookup_upsert]
    simp only [lookup, List.reverse_cons, List.find?_append, List.find?_cons, List.find?_nil]
    cases h : List.find? (fun y => key y = k) xs.reverse with
    | some v => simp
    | none => by_cases hx : key x = k <;> simp [hx]

theorem sorted_foldl (l init : List α) (h : Sorted key init) :
    Sorted key (l.foldl (fun acc x => upsert key x acc) init) := by
  induction l generalizing init with
  | nil => exact h
  | cons x xs ih => exact ih _ (sorted_upsert key x init h)

theorem mem_foldl (l init : List α) (y : α) (h : y ∈ l.foldl (fun acc x => upsert key x acc) init) : y ∈ l ∨ y ∈ init := by
  induction l generalizing init with
  | nil => exact Or.inr h
  | cons x xs ih =>
    rcases ih _ h with h | h
    · exact Or.inl (List.mem_cons_of_mem _ h)
    · rcases mem_upsert key x init y h with e | e
      · exact Or.inl (by simp [e])
      · exact Or.inr e

/-- the last entry of `dst ++ src` with that name wins -/
theorem lookup_mergeByKey (dst src : List α) (k : Bytes) :
    lookup key k (mergeByKey key dst src) =
      (match lookup key k src.reverse with | some x => some x | none => lookup key k dst.reverse) := by
  unfold mergeByKey
  rw [lookup_foldl]
  simp only [lookup, List.reverse_append, List.find?_append, List.find?_nil]
  cases List.find? (fun y => key y = k) src.reverse <;> cases List.find? (fun y => key y = k) dst.reverse <;> rfl

theorem sorted_mergeByKey (dst src : List α) : Sorted key (mergeByKey key dst src) :=
  sorted_foldl key _ [] (by simp [Sorted])

theorem mem_mergeByKey (dst src : List α) (y : α) (h : y ∈ mergeByKey key dst src) : y ∈ dst ∨ y ∈ src := by
  rcases mem_foldl key _ [] y h with h | h
  · exact List.mem_append.mp h
  · simp at h

end Mieru.Config
