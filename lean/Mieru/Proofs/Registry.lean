import Mieru.Model.Registry
/-!
# Every caller of `RegisterMetric` obtains the published counter (C19)
-/
namespace Mieru.Proofs.Registry
open Mieru.Registry

/-- every call that has returned holds the published object, and every `Add` went to it -/
def Inv (st : State) : Prop :=
  (∀ (i : Nat) (t : Thread), st.threads[i]? = some t → ∀ r, t.ret = some r → st.slot = some r) ∧
  (∀ r ∈ st.addsTo, st.slot = some r)

theorem inv_init (n : Nat) : Inv (init n) := by
  constructor
  · intro i t ht r hr
    simp only [init, List.getElem?_replicate] at ht
    split at ht
    · cases ht; cases hr
    · cases ht
  · intro r hr; simp [init] at hr

theorem get_set (l : List Thread) (tid i : Nat) (t' t : Thread) (h : (l.set tid t')[i]? = some t) :
    (i = tid ∧ t = t') ∨ (i ≠ tid ∧ l[i]? = some t) := by
  by_cases hi : i = tid
  · subst hi
    rw [List.getElem?_set_self'] at h
    cases hl : l[i]? with
    | none => simp [hl] at h
    | some x => simp [hl] at h; exact Or.inl ⟨rfl, h.symm⟩
  · rw [List.getElem?_set_ne (Ne.symm hi)] at h
    exact Or.inr ⟨hi, h⟩

theorem step_inv (prog : List Instr) (hp : Instr.storeOwn ∉ prog) (st : State) (tid : Nat) (h : Inv st) :
    Inv (step prog st tid) := by
  obtain ⟨h1, h2⟩ := h
  unfold step
  cases ht : st.threads[tid]? with
  | none => exact ⟨h1, h2⟩
  | some t =>
    simp only
    cases hr : t.ret with
    | some r =>
      simp only
      split
      · exact ⟨h1, h2⟩
      · constructor
        · intro i u hu r' hr'
          rcases get_set _ _ _ _ _ hu with ⟨_, rfl⟩ | ⟨_, hu'⟩
          · have e : r = r' := by simpa using hr'
            subst e
            exact h1 tid t ht r hr
          · exact h1 i u hu' r' hr'
        · intro r' hr'
          simp only [List.mem_cons] at hr'
          rcases hr' with rfl | hr'
          · exact h1 tid t ht _ hr
          · exact h2 r' hr'
    | none =>
      simp only
      cases hi : prog[t.pc]? with
      | none => exact ⟨h1, h2⟩
      | some ins =>
        cases ins with
        | load =>
          simp only
          cases hs : st.slot with
          | some x =>
            constructor
            · intro i u hu r' hr'
              rcases get_set _ _ _ _ _ hu with ⟨_, rfl⟩ | ⟨_, hu'⟩
              · simp at hr'; simp [hr']
              · simpa [hs] using h1 i u hu' r' hr'
            · intro r' hr'; simpa [hs] using h2 r' hr'
          | none =>
            constructor
            · intro i u hu r' hr'
              rcases get_set _ _ _ _ _ hu with ⟨_, rfl⟩ | ⟨_, hu'⟩
              · simp [hr] at hr'
              · simpa [hs] using h1 i u hu' r' hr'
            · intro r' hr'; simpa [hs] using h2 r' hr'
        | alloc =>
          simp only
          constructor
          · intro i u hu r' hr'
            rcases get_set _ _ _ _ _ hu with ⟨_, rfl⟩ | ⟨_, hu'⟩
            · simp [hr] at hr'
            · exact h1 i u hu' r' hr'
          · exact h2
        | loadOrStore =>
          simp only
          cases hs : st.slot with
          | some x =>
            constructor
            · intro i u hu r' hr'
              rcases get_set _ _ _ _ _ hu with ⟨_, rfl⟩ | ⟨_, hu'⟩
              · simp at hr'; simp [hr']
              · simpa [hs] using h1 i u hu' r' hr'
            · intro r' hr'; simpa [hs] using h2 r' hr'
          | none =>
            constructor
            · intro i u hu r' hr'
              rcases get_set _ _ _ _ _ hu with ⟨_, rfl⟩ | ⟨_, hu'⟩
              · simpa using hr'
              · have := h1 i u hu' r' hr'
                simp [hs] at this
            · intro r' hr'
              have := h2 r' hr'
              simp [hs] at this
        | storeOwn =>
          exact absurd (List.mem_of_getElem? hi) hp

theorem run_inv (prog : List Instr) (hp : Instr.storeOwn ∉ prog) (st : State) (sched : List Nat) (h : Inv st) :
    Inv (run prog st sched) := by
  induction sched generalizing st with
  | nil => exact h
  | cons tid rest ih => exact ih _ (step_inv prog hp st tid h)

theorem visible_eq_done (st : State) (h : Inv st) : visibleAdds st = doneAdds st := by
  unfold visibleAdds doneAdds
  rw [List.filter_eq_self.mpr]
  intro r hr
  simpa using h.2 r hr

end Mieru.Proofs.Registry
