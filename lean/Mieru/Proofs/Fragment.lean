import Mieru.Model.StreamWire
/-!
# Lemmas about fragmentation, demultiplexing and reads (helper file for Props/C01)
-/
namespace Mieru.Fragment
open Mieru

theorem pieces_flatten (f : Nat) (hf : 0 < f) (fuel : Nat) (bs : Bytes) (h : bs.length ≤ fuel) :
    (pieces f fuel bs).flatten = bs := by
  induction fuel generalizing bs with
  | zero =>
    have : bs = [] := List.eq_nil_of_length_eq_zero (by omega)
    simp [pieces, this]
  | succ n ih =>
    unfold pieces
    by_cases hb : bs = []
    · simp [hb]
    · have hpos : 0 < bs.length := List.length_pos_iff.mpr hb
      simp only [hb, if_false, List.flatten_cons]
      rw [ih (bs.drop f) (by simp; omega), List.take_append_drop]

theorem pieces_bound (f : Nat) (hf : 0 < f) (fuel : Nat) (bs : Bytes) :
    ∀ p ∈ pieces f fuel bs, 1 ≤ p.length ∧ p.length ≤ f := by
  induction fuel generalizing bs with
  | zero => simp [pieces]
  | succ n ih =>
    unfold pieces
    by_cases hb : bs = []
    · simp [hb]
    · have hpos : 0 < bs.length := List.length_pos_iff.mpr hb
      simp only [hb, if_false, List.mem_cons]
      intro p hp
      rcases hp with rfl | hp
      · simp; omega
      · exact ih _ p hp

theorem pieces_count (f : Nat) (hf : 0 < f) (fuel : Nat) (bs : Bytes) (h : bs.length ≤ fuel) :
    (pieces f fuel bs).length * f < bs.length + f := by
  induction fuel generalizing bs with
  | zero =>
    have : bs = [] := List.eq_nil_of_length_eq_zero (by omega)
    simp [pieces, this]; exact hf
  | succ n ih =>
    unfold pieces
    by_cases hb : bs = []
    · simp [hb]; exact hf
    · have hpos : 0 < bs.length := List.length_pos_iff.mpr hb
      simp only [hb, if_false, List.length_cons]
      have := ih (bs.drop f) (by simp; omega)
      simp only [List.length_drop] at this
      rw [Nat.add_mul]
      by_cases hge : f ≤ bs.length
      · omega
      · have : bs.length - f = 0 := by omega
        have hd : bs.drop f = [] := List.drop_eq_nil_of_le (by omega)
        rw [hd]
        cases n <;> simp [pieces] <;> omega

end Mieru.Fragment

namespace Mieru.Demux
open Mieru

/-- `Merge a b l`: `l` is an interleaving of `a` and `b` that preserves the order of each. -/
inductive Merge {α : Type} : List α → List α → List α → Prop
  | nil : Merge [] [] []
  | left (x : α) {a b l : List α} : Merge a b l → Merge (x :: a) b (x :: l)
  | right (y : α) {a b l : List α} : Merge a b l → Merge a (y :: b) (y :: l)

theorem forSession_merge (sid : Nat) (mine others l : List (Nat × Bytes))
    (hm : Merge mine others l) (h1 : ∀ x ∈ mine, x.1 = sid) (h2 : ∀ x ∈ others, x.1 ≠ sid) :
    forSession sid l = mine.map (·.2) := by
  induction hm with
  | nil => simp [forSession]
  | left x _ ih =>
    have hx := h1 x (by simp)
    have := ih (fun y hy => h1 y (by simp [hy])) h2
    simp only [forSession] at this ⊢
    simp [List.filter_cons, hx, this]
  | right y _ ih =>
    have hy := h2 y (by simp)
    have := ih h1 (fun z hz => h2 z (by simp [hz]))
    simp only [forSession] at this ⊢
    simp [List.filter_cons, hy, this]

theorem reads_flatten (ns : List Nat) (s : Bytes) : (reads ns s).flatten = s.take ns.sum := by
  induction ns generalizing s with
  | nil => simp [reads]
  | cons n ns ih =>
    simp only [reads, List.flatten_cons, ih, List.sum_cons]
    rw [List.take_add]

end Mieru.Demux
