import Mieru.Proofs.LowEntropy
/-!
# Whole-codec lemmas for the low-entropy model (helper file for Props/C17)
-/
namespace Mieru.LowEntropy
open Mieru

theorem decodeChunk_encodeChunk (mask : List Bool) (src : Bytes) (pad : Bool)
    (hm : mask.length = 64) (hs : 8 * src.length ≤ Bits.popcount mask) :
    decodeChunk mask (encodeChunk mask src pad) src.length
      = (src, List.replicate (64 - 8 * src.length) pad) := by
  unfold decodeChunk encodeChunk
  have hl : (deposit mask (bytesToBits src) pad).length = 8 * 8 := by simp [hm]
  rw [bytesToBits_bitsToBytes 8 _ hl]
  have hb := bytesToBits_length src
  have e : src.length * 8 = (bytesToBits src).length := by omega
  rw [e, split_deposit mask (bytesToBits src) pad (by omega)]
  simp only
  rw [← e, bitsToBytes_bytesToBits, hm, Nat.mul_comm]

@[simp] theorem encodeChunk_length (mask : List Bool) (src : Bytes) (pad : Bool) :
    (encodeChunk mask src pad).length = 8 := by simp [encodeChunk]

theorem rotl_length (l : List Bool) (k : Nat) : (rotl l k).length = l.length := by
  unfold rotl
  by_cases h : l.length = 0
  · have : l = [] := List.eq_nil_of_length_eq_zero h
    subst this; simp
  · have : k % l.length ≤ l.length := Nat.le_of_lt (Nat.mod_lt _ (by omega))
    simp; omega

theorem rotl_popcount (l : List Bool) (k : Nat) : Bits.popcount (rotl l k) = Bits.popcount l := by
  unfold rotl Bits.popcount
  rw [List.count_append, Nat.add_comm, ← List.count_append, List.take_append_drop]

theorem chunkMask_length (m : List Bool) (r i : Nat) : (chunkMask m r i).length = m.length := by
  unfold chunkMask; split
  · rfl
  · split <;> exact rotl_length _ _

theorem chunkMask_popcount (m : List Bool) (r i : Nat) : Bits.popcount (chunkMask m r i) = Bits.popcount m := by
  unfold chunkMask; split
  · rfl
  · split <;> exact rotl_popcount _ _

theorem chunkMask_zero (m : List Bool) (r : Nat) : chunkMask m r 0 = m := by simp [chunkMask]

theorem fullMask_length (h : Nat) : (fullMask h).length = 64 := by simp [fullMask]

theorem fullMask_popcount (h : Nat) : Bits.popcount (fullMask h) = 2 * Bits.popcount (Bits.ofNat 32 h) := by
  simp [fullMask, Bits.popcount, List.count_append]; omega

/-- valid parameters: the full mask has exactly 8·C one-bits -/
theorem validParams_popcount (mode half rot c : Nat) (hv : validParams mode half rot = true)
    (hc : sourceBytes mode = some c) : Bits.popcount (fullMask half) = 8 * c ∧ 1 ≤ c ∧ c ≤ 7 := by
  rw [fullMask_popcount]
  unfold validParams at hv
  unfold sourceBytes at hc
  unfold halfOnes at hv
  split at hc <;> simp_all <;> omega

/-- the list of encoded 8-byte chunks -/
def encList (m : List Bool) (rot : Nat) (pad : Bool) : Nat → List Bytes → List Bytes
  | _, [] => []
  | i, c :: cs => encodeChunk (chunkMask m rot i) c pad :: encList m rot pad (i + 1) cs

theorem encodeFrom_eq (m : List Bool) (rot : Nat) (pad : Bool) (i : Nat) (cs : List Bytes) :
    encodeFrom m rot pad i cs = (encList m rot pad i cs).flatten := by
  induction cs generalizing i with
  | nil => simp [encodeFrom, encList]
  | cons c cs ih => simp [encodeFrom, encList, ih]

theorem encList_length (m : List Bool) (rot : Nat) (pad : Bool) (i : Nat) (cs : List Bytes) :
    (encList m rot pad i cs).length = cs.length := by
  induction cs generalizing i with
  | nil => simp [encList]
  | cons c cs ih => simp [encList, ih]

theorem encList_all8 (m : List Bool) (rot : Nat) (pad : Bool) (i : Nat) (cs : List Bytes) :
    ∀ x ∈ encList m rot pad i cs, x.length = 8 := by
  induction cs generalizing i with
  | nil => simp [encList]
  | cons c cs ih =>
    intro x hx
    simp only [encList, List.mem_cons] at hx
    rcases hx with rfl | hx
    · simp
    · exact ih _ x hx

theorem flatten_length_all8 (l : List Bytes) (h : ∀ x ∈ l, x.length = 8) : l.flatten.length = 8 * l.length := by
  induction l with
  | nil => simp
  | cons x xs ih =>
    have hx := h x (by simp)
    have := ih (fun y hy => h y (by simp [hy]))
    simp [hx, this]; omega

theorem chunksOf_flatten (l : List Bytes) (h : ∀ x ∈ l, x.length = 8) (fuel : Nat) (hf : l.length ≤ fuel) :
    chunksOf 8 fuel l.flatten = l := by
  induction l generalizing fuel with
  | nil => cases fuel <;> simp [chunksOf]
  | cons x xs ih =>
    cases fuel with
    | zero => simp at hf
    | succ n =>
      have hx := h x (by simp)
      have hne : (x :: xs).flatten ≠ [] := by
        intro e
        have := congrArg List.length e
        simp [hx] at this
      simp only [chunksOf, hne, if_false]
      have e : (x :: xs).flatten = x ++ xs.flatten := by simp
      rw [e, List.take_left' hx, List.drop_left' hx, ih (fun y hy => h y (by simp [hy])) n (by simp at hf; omega)]

theorem chunksOf_length (c : Nat) (hc : 0 < c) (fuel : Nat) (bs : Bytes) (hf : bs.length ≤ fuel) :
    (chunksOf c fuel bs).length = ceilDiv bs.length c := by
  induction fuel generalizing bs with
  | zero =>
    have : bs = [] := List.eq_nil_of_length_eq_zero (by omega)
    subst this
    simp only [chunksOf, List.length_nil, ceilDiv, Nat.zero_add]
    exact (Nat.div_eq_of_lt (by omega)).symm
  | succ n ih =>
    unfold chunksOf
    by_cases hb : bs = []
    · subst hb
      simp only [if_true, List.length_nil, ceilDiv, Nat.zero_add]
      exact (Nat.div_eq_of_lt (by omega)).symm
    · have hpos : 0 < bs.length := List.length_pos_iff.mpr hb
      simp only [hb, if_false, List.length_cons]
      rw [ih (bs.drop c) (by simp; omega)]
      simp only [List.length_drop, ceilDiv]
      by_cases hge : c ≤ bs.length
      · have : bs.length + c - 1 = (bs.length - c + c - 1) + c := by omega
        rw [this, Nat.add_div_right _ hc]
      · have h1 : bs.length - c = 0 := by omega
        rw [h1]
        have a : (0 + c - 1) / c = 0 := Nat.div_eq_of_lt (by omega)
        have b : (bs.length + c - 1) / c = 1 := by
          apply Nat.div_eq_of_lt_le <;> omega
        omega

theorem replicate_all_beq (k : Nat) (b : Bool) : (List.replicate k b).all (· == b) = true := by
  simp

theorem inferPolarity_replicate (k : Nat) (b : Bool) (hk : 0 < k) :
    inferPolarity (List.replicate k b) = some b := by
  cases k with
  | zero => omega
  | succ n => cases b <;> simp [inferPolarity, List.replicate_succ]

/-- decoding the encoded chunk list returns the source -/
theorem decodeFrom_encList (m : List Bool) (rot c : Nat) (pad : Bool)
    (hm : m.length = 64) (hp : Bits.popcount m = 8 * c) (hc : 0 < c) :
    ∀ (fuel : Nat) (bs : Bytes) (i : Nat), bs.length ≤ fuel →
      decodeFrom m rot c pad i bs.length (encList m rot pad i (chunksOf c fuel bs)) = some bs := by
  intro fuel
  induction fuel with
  | zero =>
    intro bs i hf
    have : bs = [] := List.eq_nil_of_length_eq_zero (by omega)
    subst this
    simp [chunksOf, encList, decodeFrom]
  | succ n ih =>
    intro bs i hf
    unfold chunksOf
    by_cases hb : bs = []
    · subst hb; simp [encList, decodeFrom]
    · have hpos : 0 < bs.length := List.length_pos_iff.mpr hb
      simp only [hb, if_false, encList, decodeFrom]
      have hlen : (bs.take c).length = min c bs.length := by simp
      have hcm := chunkMask_length m rot i
      have hcp := chunkMask_popcount m rot i
      have key := decodeChunk_encodeChunk (chunkMask m rot i) (bs.take c) pad (by rw [hcm, hm])
        (by rw [hcp, hp, hlen]; apply Nat.mul_le_mul_left; exact Nat.min_le_left _ _)
      rw [hlen] at key
      rw [key]
      simp only [replicate_all_beq, if_true]
      have hrem : bs.length - min c bs.length = (bs.drop c).length := by simp; omega
      rw [hrem, ih (bs.drop c) (i + 1) (by simp; omega)]
      simp

end Mieru.LowEntropy
