import Mieru.Model.SocksMsg
set_option linter.unusedSimpArgs false
/-!
# Helper lemmas about the SOCKS5 UDP header model (used by Props/C18.lean)
-/
namespace Mieru.SocksMsg
open Mieru.PoS (Bytes)

theorem take_left {α} (x y : List α) (n : Nat) (h : x.length = n) : (x ++ y).take n = x := by
  subst h; simp

theorem drop_left {α} (x y : List α) (n : Nat) (h : x.length = n) : (x ++ y).drop n = y := by
  subst h; simp

theorem portOf_portBytes (p : Nat) (h : p < 65536) :
    portOf (UInt8.ofNat (p / 256 % 256)) (UInt8.ofNat (p % 256)) = p := by
  simp [portOf]; omega

theorem parsePort_build (a : Addr) (p : Nat) (h : p < 65536) (rest : Bytes) :
    parsePort a (portBytes p ++ rest) = .ok ({ addr := a, port := p }, rest) := by
  simp [parsePort, portBytes, portOf_portBytes p h]

theorem ofNat_toNat_lt (n : Nat) (h : n < 256) : (UInt8.ofNat n).toNat = n := by
  simp; omega

/-- reading back what `buildAddr` wrote gives the same address and leaves the rest unread -/
theorem parseAddr_build (a : AddrPort) (hw : a.wf) (hc : a.canonical) (h : Bytes) (rest : Bytes)
    (hb : buildAddr a = some h) : parseAddr (h ++ rest) = .ok (a, rest) := by
  obtain ⟨addr, port⟩ := a
  obtain ⟨hp, hlen⟩ := hw
  cases addr with
  | ip4 b =>
    simp only at hlen
    simp only [buildAddr, Option.some.injEq] at hb
    subst hb
    have e1 : ((b ++ portBytes port) ++ rest).take 4 = b := by
      rw [List.append_assoc]; exact take_left _ _ 4 hlen
    have e2 : ((b ++ portBytes port) ++ rest).drop 4 = portBytes port ++ rest := by
      rw [List.append_assoc]; exact drop_left _ _ 4 hlen
    have e3 : ¬ ((b ++ portBytes port) ++ rest).length < 4 := by simp [hlen]
    simp only [List.cons_append, parseAddr, if_pos, e1, e2, e3, if_false]
    exact parsePort_build _ _ hp _
  | ip6 b =>
    simp only at hlen
    simp only [AddrPort.canonical] at hc
    simp only [buildAddr, hc, Bool.false_eq_true, if_false, Option.some.injEq] at hb
    subst hb
    have e1 : ((b ++ portBytes port) ++ rest).take 16 = b := by
      rw [List.append_assoc]; exact take_left _ _ 16 hlen
    have e2 : ((b ++ portBytes port) ++ rest).drop 16 = portBytes port ++ rest := by
      rw [List.append_assoc]; exact drop_left _ _ 16 hlen
    have e3 : ¬ ((b ++ portBytes port) ++ rest).length < 16 := by simp [hlen]
    have d1 : ¬ ((4 : UInt8) = 1) := by decide
    simp only [List.cons_append, parseAddr, d1, if_false, if_pos, e1, e2, e3]
    exact parsePort_build _ _ hp _
  | domain n =>
    simp only at hlen
    simp only [AddrPort.canonical] at hc
    have hne : n.isEmpty = false := by
      cases n with
      | nil => exact absurd rfl hc
      | cons _ _ => rfl
    simp only [buildAddr, hne, Bool.false_eq_true, if_false, Option.some.injEq] at hb
    subst hb
    have hl : (UInt8.ofNat n.length).toNat = n.length := ofNat_toNat_lt _ (by omega)
    have e1 : ((n ++ portBytes port) ++ rest).take n.length = n := by
      rw [List.append_assoc]; exact take_left _ _ _ rfl
    have e2 : ((n ++ portBytes port) ++ rest).drop n.length = portBytes port ++ rest := by
      rw [List.append_assoc]; exact drop_left _ _ _ rfl
    have e3 : ¬ ((n ++ portBytes port) ++ rest).length < n.length := by simp
    have d1 : ¬ ((3 : UInt8) = 1) := by decide
    have d2 : ¬ ((3 : UInt8) = 4) := by decide
    simp only [List.cons_append, parseAddr, d1, d2, if_false, if_pos, hl, e1, e2, e3]
    exact parsePort_build _ _ hp _

theorem parsePort_ok (a : Addr) (r : Bytes) (ap : AddrPort) (rest : Bytes)
    (h : parsePort a r = .ok (ap, rest)) :
    ap.addr = a ∧ ap.port < 65536 ∧ ∃ hi lo, r = hi :: lo :: rest ∧ ap.port = portOf hi lo := by
  unfold parsePort at h
  split at h
  · rename_i hi lo rest'
    simp only [Except.ok.injEq, Prod.mk.injEq] at h
    obtain ⟨h1, h2⟩ := h
    subst h1 h2
    refine ⟨rfl, ?_, hi, lo, rfl, rfl⟩
    simp only [portOf]
    have := hi.toNat_lt; have := lo.toNat_lt
    omega
  · cases h

theorem portBytes_portOf (hi lo : UInt8) : portBytes (portOf hi lo) = [hi, lo] := by
  have h1 := hi.toNat_lt; have h2 := lo.toNat_lt
  have a : (hi.toNat * 256 + lo.toNat) / 256 % 256 = hi.toNat := by omega
  have b : (hi.toNat * 256 + lo.toNat) % 256 = lo.toNat := by omega
  simp [portBytes, portOf, a, b]

/-- what an accepted address looks like on the wire: the consumed bytes are exactly what
    `buildAddr` writes for a canonical address; the result is always well formed -/
theorem parseAddr_ok (r : Bytes) (a : AddrPort) (rest : Bytes) (h : parseAddr r = .ok (a, rest)) :
    a.wf ∧ (∃ used, r = used ++ rest ∧ 4 ≤ used.length ∧ (a.canonical → buildAddr a = some used)) := by
  unfold parseAddr at h
  split at h
  · cases h
  · rename_i t r1
    split at h
    · rename_i ht
      split at h
      · cases h
      · rename_i hlen
        obtain ⟨ha, hp, hi, lo, hr, hpo⟩ := parsePort_ok _ _ _ _ h
        obtain ⟨addr, port⟩ := a
        simp only at ha hp hpo
        subst ha
        have hl4 : (r1.take 4).length = 4 := by simp; omega
        refine ⟨⟨hp, hl4⟩, t :: r1.take 4 ++ [hi, lo], ?_, ?_, ?_⟩
        · have := List.take_append_drop 4 r1
          rw [hr] at this
          simp only [List.cons_append, List.append_assoc, List.cons.injEq, true_and]
          simpa using this.symm
        · simp only [List.length_cons, List.length_append, hl4]; omega
        · intro _
          simp [buildAddr, ht, hpo, portBytes_portOf]
    · split at h
      · rename_i ht1 ht
        split at h
        · cases h
        · rename_i hlen
          obtain ⟨ha, hp, hi, lo, hr, hpo⟩ := parsePort_ok _ _ _ _ h
          obtain ⟨addr, port⟩ := a
          simp only at ha hp hpo
          subst ha
          have hl16 : (r1.take 16).length = 16 := by simp; omega
          refine ⟨⟨hp, hl16⟩, t :: r1.take 16 ++ [hi, lo], ?_, ?_, ?_⟩
          · have := List.take_append_drop 16 r1
            rw [hr] at this
            simp only [List.cons_append, List.append_assoc, List.cons.injEq, true_and]
            simpa using this.symm
          · simp only [List.length_cons, List.length_append, hl16]; omega
          · intro hc
            simp only [AddrPort.canonical] at hc
            simp [buildAddr, hc, ht, hpo, portBytes_portOf]
      · rename_i ht1 ht4
        split at h
        · rename_i ht3
          split at h
          · cases h
          · rename_i l r2
            split at h
            · cases h
            · rename_i hlen
              obtain ⟨ha, hp, hi, lo, hr, hpo⟩ := parsePort_ok _ _ _ _ h
              obtain ⟨addr, port⟩ := a
              simp only at ha hp hpo
              subst ha
              have hll : (r2.take l.toNat).length = l.toNat := by simp; omega
              have hl255 : l.toNat ≤ 255 := by have := l.toNat_lt; omega
              refine ⟨⟨hp, by simp only [hll]; exact hl255⟩, t :: l :: r2.take l.toNat ++ [hi, lo], ?_, ?_, ?_⟩
              · have := List.take_append_drop l.toNat r2
                rw [hr] at this
                simp only [List.cons_append, List.append_assoc, List.cons.injEq, true_and]
                simpa using this.symm
              · simp only [List.length_cons, List.length_append]; omega
              · intro hc
                simp only [AddrPort.canonical] at hc
                have hne : (r2.take l.toNat).isEmpty = false := by
                  cases hx : r2.take l.toNat with
                  | nil => exact absurd hx hc
                  | cons _ _ => rfl
                simp only [buildAddr, hne, Bool.false_eq_true, if_false, hll, ht3, hpo, portBytes_portOf]
                simp
        · cases h

theorem parsePort_short (a : Addr) (r : Bytes) (h : r.length < 2) : parsePort a r = .error .short := by
  unfold parsePort
  split
  · exfalso; simp only [List.length_cons] at h; omega
  · rfl

theorem parsePort_ok_len (a : Addr) (r : Bytes) (ap : AddrPort) (rest : Bytes)
    (h : parsePort a r = .ok (ap, rest)) : r.length = rest.length + 2 := by
  obtain ⟨_, _, hi, lo, hr, _⟩ := parsePort_ok a r ap rest h
  subst hr; simp

/-- every strict prefix of the bytes an accepted address occupies is rejected as too short -/
theorem parseAddr_take_short (r : Bytes) (a : AddrPort) (rest : Bytes) (h : parseAddr r = .ok (a, rest))
    (j : Nat) (hj : j < r.length - rest.length) : parseAddr (r.take j) = .error .short := by
  unfold parseAddr at h
  split at h
  · cases h
  · rename_i t r1
    cases j with
    | zero => simp [parseAddr]
    | succ j =>
      simp only [List.take_succ_cons]
      split at h
      · rename_i ht
        split at h
        · cases h
        · rename_i hlen
          have hl := parsePort_ok_len _ _ _ _ h
          simp only [List.length_cons, List.length_drop] at hj hl
          subst ht
          unfold parseAddr; dsimp only; rw [if_pos rfl]
          by_cases hs : (r1.take j).length < 4
          · rw [if_pos hs]
          · simp only [hs, if_false]
            apply parsePort_short
            simp only [List.length_drop, List.length_take]
            omega
      · split at h
        · rename_i ht1 ht
          split at h
          · cases h
          · rename_i hlen
            have hl := parsePort_ok_len _ _ _ _ h
            simp only [List.length_cons, List.length_drop] at hj hl
            subst ht
            have d1 : ¬ ((4 : UInt8) = 1) := by decide
            unfold parseAddr; dsimp only; rw [if_neg d1, if_pos rfl]
            by_cases hs : (r1.take j).length < 16
            · rw [if_pos hs]
            · simp only [hs, if_false]
              apply parsePort_short
              simp only [List.length_drop, List.length_take]
              omega
        · rename_i ht1 ht4
          split at h
          · rename_i ht3
            split at h
            · cases h
            · rename_i l r2
              split at h
              · cases h
              · rename_i hlen
                have hl := parsePort_ok_len _ _ _ _ h
                simp only [List.length_cons, List.length_drop] at hj hl
                subst ht3
                have d1 : ¬ ((3 : UInt8) = 1) := by decide
                have d2 : ¬ ((3 : UInt8) = 4) := by decide
                unfold parseAddr; dsimp only; rw [if_neg d1, if_neg d2, if_pos rfl]
                cases j with
                | zero => rfl
                | succ j =>
                  simp only [List.take_succ_cons]
                  by_cases hs : (r2.take j).length < l.toNat
                  · rw [if_pos hs]
                  · simp only [hs, if_false]
                    apply parsePort_short
                    simp only [List.length_drop, List.length_take]
                    omega
          · cases h

theorem buildAddr_some (a : AddrPort) (hw : a.wf) (hc : a.canonical) :
    ∃ h, buildAddr a = some h ∧ 4 ≤ h.length := by
  obtain ⟨addr, port⟩ := a
  obtain ⟨_, hlen⟩ := hw
  cases addr with
  | ip4 b =>
    simp only at hlen
    exact ⟨(0x01 : UInt8) :: b ++ portBytes port, rfl, by simp [portBytes, hlen]⟩
  | ip6 b =>
    simp only [AddrPort.canonical] at hc
    simp only at hlen
    exact ⟨(0x04 : UInt8) :: b ++ portBytes port, by simp only [buildAddr, hc, Bool.false_eq_true, if_false],
      by simp [portBytes, hlen]⟩
  | domain n =>
    simp only [AddrPort.canonical] at hc
    have hne : n.isEmpty = false := by
      cases n with
      | nil => exact absurd rfl hc
      | cons _ _ => rfl
    exact ⟨(0x03 : UInt8) :: UInt8.ofNat n.length :: n ++ portBytes port,
      by simp only [buildAddr, hne, Bool.false_eq_true, if_false], by simp [portBytes]⟩

/-- what acceptance means, structurally -/
theorem parseUDP_ok_inv (pkt : Bytes) (d : Datagram) (h : parseUDP pkt = .ok d) :
    ∃ rest a payload, pkt = (0x00 : UInt8) :: 0x00 :: 0x00 :: rest ∧ parseAddr rest = .ok (a, payload) ∧
      d = { dst := a, header := pkt.take (pkt.length - payload.length), payload := payload } := by
  unfold parseUDP at h
  split at h
  · cases h
  · rename_i hlen
    split at h
    · rename_i r0 r1 f rest
      split at h
      · cases h
      · rename_i hr
        split at h
        · cases h
        · rename_i hf
          split at h
          · cases h
          · cases h
          · rename_i a payload hpa
            simp only [Except.ok.injEq] at h
            have hr0 : r0 = 0x00 ∧ r1 = 0x00 := by
              simp only [not_or, ne_eq, Decidable.not_not] at hr; exact hr
            have hf0 : f = 0x00 := by simpa using hf
            obtain ⟨hr0, hr1⟩ := hr0
            subst hr0 hr1 hf0
            exact ⟨rest, a, payload, rfl, hpa, h.symm⟩
    · cases h

theorem wrapRead_build (a : AddrPort) (hw : a.wf) (hc : a.canonical) (h : Bytes) (hb : buildAddr a = some h)
    (hl : h.length + 3 ≤ 256) (p : Bytes) (cap : Nat) :
    wrapRead cap ((0x00 : UInt8) :: 0x00 :: 0x00 :: h ++ p) =
      match a.addr with
      | .ip4 b => .ok (b, a.port, p.take cap)
      | .ip6 b => .ok (b, a.port, p.take cap)
      | .domain n => if n.isEmpty then .ok ([], a.port, p.take cap) else .error .fqdn := by
  obtain ⟨h', hb', hl4⟩ := buildAddr_some a hw hc
  rw [hb] at hb'; simp only [Option.some.injEq] at hb'; subst hb'
  have htake : ((0x00 : UInt8) :: 0x00 :: 0x00 :: h ++ p).take (cap + 256)
      = (0x00 : UInt8) :: 0x00 :: 0x00 :: (h ++ p.take (cap + 256 - (h.length + 3))) := by
    have e : ((0x00 : UInt8) :: 0x00 :: 0x00 :: h ++ p) = ((0x00 : UInt8) :: 0x00 :: 0x00 :: h) ++ p := by simp
    rw [e, List.take_append]
    have : ((0x00 : UInt8) :: 0x00 :: 0x00 :: h).take (cap + 256) = (0x00 : UInt8) :: 0x00 :: 0x00 :: h := by
      apply List.take_of_length_le; simp only [List.length_cons]; omega
    rw [this]
    simp only [List.length_cons, List.cons_append]
  have hpa := parseAddr_build a hw hc h (p.take (cap + 256 - (h.length + 3))) hb
  have hlen : ¬ ((0x00 : UInt8) :: 0x00 :: 0x00 :: (h ++ p.take (cap + 256 - (h.length + 3)))).length ≤ 6 := by
    simp only [List.length_cons, List.length_append]; omega
  have htt : (p.take (cap + 256 - (h.length + 3))).take cap = p.take cap := by
    rw [List.take_take]; congr 1; omega
  unfold wrapRead
  simp only [htake]
  rw [if_neg hlen]
  simp only [hpa, ne_eq, not_true_eq_false, or_self, if_false, htt]
  cases a.addr <;> rfl

theorem getHeader_setHeader (m : List ((Bytes × Nat) × Bytes)) (k : Bytes × Nat) (h : Bytes) :
    getHeader (setHeader m k h) k = some h := by
  simp [getHeader, setHeader, List.find?]

end Mieru.SocksMsg
