import Mieru.Proofs.C09Chunk
import Mieru.Proofs.C09LE
import Mieru.Model.SpecCrypto
/-!
# The framing theorems for an AEAD that is lawful only on 32-byte keys and 24-byte nonces

`AeadLaws` asks for `open (seal p) = p` for EVERY key and nonce length.  The AEAD the driver runs
(`realAead`, XChaCha20-Poly1305) returns `none` unless the key has 32 and the nonce 24 bytes, so it
cannot satisfy `AeadLaws` whatever one assumes about XChaCha20-Poly1305.  `AeadLaws32` is the law
restricted to the sizes the protocol uses.  The theorems are transferred, not re-proved: `clamp A`
agrees with `A` on (32, 24)-byte inputs and is a toy AEAD elsewhere, so it satisfies `AeadLaws`;
the sender (`tcpSeal`, `sealAll`, `udpSeal`) and the receiver (`parseOne`, `drain`, `feed`, `udpOpen`)
only ever call the AEAD with a 32-byte key and a 24-byte nonce when the sender's key and the
receiver's candidate keys have 32 bytes and the first nonce has 24 — so they cannot tell `A` from
`clamp A`.
-/
namespace Mieru.Spec
open Mieru

structure AeadLaws32 (A : AeadFns) : Prop where
  seal_len : ∀ k n p, k.length = 32 → n.length = 24 → (A.sealF k n p).length = p.length + 16
  open_seal : ∀ k n p, k.length = 32 → n.length = 24 → A.openF k n (A.sealF k n p) = some p

/-- `A` on 32-byte keys and 24-byte nonces, a toy AEAD (plaintext followed by 16 zero bytes) elsewhere -/
def clamp (A : AeadFns) : AeadFns where
  sealF k n p := if k.length = 32 ∧ n.length = 24 then A.sealF k n p else p ++ zeros 16
  openF k n c := if k.length = 32 ∧ n.length = 24 then A.openF k n c
    else if 16 ≤ c.length then some (c.take (c.length - 16)) else none

theorem clamp_seal (A : AeadFns) (k n p : Bytes) (hk : k.length = 32) (hn : n.length = 24) :
    (clamp A).sealF k n p = A.sealF k n p := by simp [clamp, hk, hn]

theorem clamp_open (A : AeadFns) (k n c : Bytes) (hk : k.length = 32) (hn : n.length = 24) :
    (clamp A).openF k n c = A.openF k n c := by simp [clamp, hk, hn]

theorem clamp_laws (A : AeadFns) (h : AeadLaws32 A) : AeadLaws (clamp A) where
  seal_len k n p := by
    by_cases hc : k.length = 32 ∧ n.length = 24
    · simp only [clamp, hc, and_self, if_true]; exact h.seal_len k n p hc.1 hc.2
    · simp [clamp, hc, zeros]
  open_seal k n p := by
    by_cases hc : k.length = 32 ∧ n.length = 24
    · simp only [clamp, hc, and_self, if_true]; exact h.open_seal k n p hc.1 hc.2
    · simp [clamp, hc, zeros]

/-! ## The sender cannot tell `A` from `clamp A` -/

theorem sealBody_clamp (A : AeadFns) (key nonce : Bytes) (hk : key.length = 32) (hn : nonce.length = 24)
    (md : Meta) (payload : Bytes) (lePad : Bool) :
    sealBody (clamp A) key nonce md payload lePad = sealBody A key nonce md payload lePad := by
  simp only [sealBody, clamp_seal A key nonce _ hk hn]

theorem openBody_clamp (A : AeadFns) (key nonce : Bytes) (hk : key.length = 32) (hn : nonce.length = 24)
    (md : Meta) (body : Bytes) : openBody (clamp A) key nonce md body = openBody A key nonce md body := by
  unfold openBody
  simp only [clamp_open A key nonce _ hk hn]

theorem udpSeal_clamp (A : AeadFns) (key nonce : Bytes) (hk : key.length = 32) (hn : nonce.length = 24)
    (s : Segment) (lePad : Bool) : udpSeal (clamp A) key nonce s lePad = udpSeal A key nonce s lePad := by
  simp only [udpSeal, sealBody_clamp A key nonce hk hn, clamp_seal A key nonce _ hk hn]

theorem udpOpen_clamp (A : AeadFns) (key : Bytes) (hk : key.length = 32) (d : Bytes) :
    udpOpen (clamp A) key d = udpOpen A key d := by
  unfold udpOpen
  by_cases h : d.length < 72
  · simp [h]
  · have hn : (d.take 24).length = 24 := by simp only [List.length_take]; omega
    simp only [h, if_false, clamp_open A key _ _ hk hn, openBody_clamp A key _ hk hn]

theorem tcpSeal_clamp (A : AeadFns) (t : Tx) (hk : t.key.length = 32) (hn : t.nonce.length = 24)
    (s : Segment) (lePad : Bool) : tcpSeal (clamp A) t s lePad = tcpSeal A t s lePad := by
  have hn1 : (incr t.nonce).length = 24 := by rw [incr_length, hn]
  simp only [tcpSeal, sealBody_clamp A t.key _ hk hn1, clamp_seal A t.key t.nonce _ hk hn]

theorem tcpSeal_inv (A : AeadFns) (t t' : Tx) (s : Segment) (lp : Bool) (b : Bytes)
    (h : tcpSeal A t s lp = some (b, t')) : t'.key = t.key ∧ t'.nonce.length = t.nonce.length := by
  simp only [tcpSeal, Option.map_eq_some_iff, Prod.mk.injEq] at h
  obtain ⟨_, _, _, rfl⟩ := h
  refine ⟨rfl, ?_⟩
  simp only
  split <;> simp [incr_length]

theorem sealAll_clamp (A : AeadFns) (segs : List (Segment × Bool)) (t : Tx) (hk : t.key.length = 32)
    (hn : t.nonce.length = 24) : sealAll (clamp A) t segs = sealAll A t segs := by
  induction segs generalizing t with
  | nil => rfl
  | cons x ss ih =>
    obtain ⟨s, lp⟩ := x
    simp only [sealAll, tcpSeal_clamp A t hk hn]
    cases hs : tcpSeal A t s lp with
    | none => rfl
    | some bt =>
      obtain ⟨b, t'⟩ := bt
      obtain ⟨h1, h2⟩ := tcpSeal_inv A t t' s lp b hs
      simp only [ih t' (by rw [h1, hk]) (by rw [h2, hn])]

/-! ## The receiver cannot tell `A` from `clamp A` -/

/-- every key the receiver may use has 32 bytes, and once it has settled on a key its nonce has 24 -/
def Rx.sized (r : Rx) : Prop :=
  (∀ k ∈ r.cands, k.length = 32) ∧ (∀ k, r.key = some k → k.length = 32 ∧ r.nonce.length = 24)

theorem selectKey_clamp (A : AeadFns) (nonce mct : Bytes) (hn : nonce.length = 24) (cands : List Bytes)
    (hc : ∀ k ∈ cands, k.length = 32) : selectKey (clamp A) nonce mct cands = selectKey A nonce mct cands := by
  induction cands with
  | nil => rfl
  | cons k ks ih =>
    simp only [selectKey, clamp_open A k nonce mct (hc k (by simp)) hn,
      ih (fun k' hk' => hc k' (by simp [hk']))]

theorem selectKey_mem (A : AeadFns) (nonce mct : Bytes) (cands : List Bytes) (k mb : Bytes)
    (h : selectKey A nonce mct cands = some (k, mb)) : k ∈ cands := by
  induction cands with
  | nil => simp [selectKey] at h
  | cons k' ks ih =>
    simp only [selectKey] at h
    split at h
    · simp only [Option.some.injEq, Prod.mk.injEq] at h; simp [h.1]
    · simp [ih h]

theorem selOf_clamp (A : AeadFns) (r : Rx) (hr : r.sized) (nonce : Bytes) (hn : nonce.length = 24) (mct : Bytes) :
    selOf (clamp A) r nonce mct = selOf A r nonce mct := by
  unfold selOf
  cases hk : r.key with
  | none => exact selectKey_clamp A nonce mct hn r.cands hr.1
  | some k => simp only [clamp_open A k nonce mct (hr.2 k hk).1 hn]

theorem selOf_key (A : AeadFns) (r : Rx) (hr : r.sized) (nonce mct k mb : Bytes)
    (h : selOf A r nonce mct = some (k, mb)) : k.length = 32 := by
  unfold selOf at h
  cases hk : r.key with
  | none => rw [hk] at h; exact hr.1 k (selectKey_mem A nonce mct r.cands k mb h)
  | some k' =>
    rw [hk] at h
    simp only [Option.map_eq_some_iff, Prod.mk.injEq] at h
    obtain ⟨_, _, rfl, _⟩ := h
    exact (hr.2 k' hk).1

theorem parseCore_clamp (A : AeadFns) (hdr : Nat) (nonce : Bytes) (hn : nonce.length = 24)
    (selF : Bytes → Option (Bytes × Bytes)) (hsel : ∀ mct k mb, selF mct = some (k, mb) → k.length = 32) (buf : Bytes) :
    parseCore (clamp A) hdr nonce selF buf = parseCore A hdr nonce selF buf := by
  unfold parseCore
  split
  · rfl
  · cases hs : selF ((buf.drop hdr).take 48) with
    | none => rfl
    | some km =>
      obtain ⟨k, mb⟩ := km
      have hk := hsel _ k mb hs
      have hn1 : (incr nonce).length = 24 := by rw [incr_length, hn]
      simp only [openBody_clamp A k _ hk hn1]

theorem parseOne_clamp (A : AeadFns) (r : Rx) (hr : r.sized) : parseOne (clamp A) r = parseOne A r := by
  rw [parseOne_core, parseOne_core]
  cases hk : r.key with
  | some k =>
    have hn := (hr.2 k hk).2
    simp only [Option.isNone_some, Bool.false_eq_true, if_false]
    rw [show selOf (clamp A) r r.nonce = selOf A r r.nonce from funext (selOf_clamp A r hr r.nonce hn)]
    exact parseCore_clamp A 0 r.nonce hn _ (fun mct k mb h => selOf_key A r hr r.nonce mct k mb h) r.buf
  | none =>
    simp only [Option.isNone_none, if_true]
    by_cases h72 : r.buf.length < 24 + 48
    · simp [parseCore, h72]
    · have hn : (r.buf.take 24).length = 24 := by simp only [List.length_take]; omega
      rw [show selOf (clamp A) r (r.buf.take 24) = selOf A r (r.buf.take 24) from
        funext (selOf_clamp A r hr _ hn)]
      exact parseCore_clamp A 24 _ hn _ (fun mct k mb h => selOf_key A r hr _ mct k mb h) r.buf

/-- after an `ok` verdict the receiver's key has 32 bytes and its next nonce 24 -/
theorem parseOne_ok_sized (A : AeadFns) (r : Rx) (hr : r.sized) (k : Bytes) (md : Meta) (p : Bytes) (n : Nat)
    (nn : Bytes) (h : parseOne A r = .ok k md p n nn) : k.length = 32 ∧ nn.length = 24 := by
  rw [parseOne_core] at h
  have hnonce : r.buf.length ≥ (if r.key.isNone then 24 else 0) + 48 →
      (if r.key.isNone then r.buf.take 24 else r.nonce).length = 24 := by
    intro hl
    cases hk : r.key with
    | none => simp only [hk, Option.isNone_none, if_true, List.length_take] at hl ⊢; omega
    | some k' => simpa using (hr.2 k' hk).2
  generalize hh : (if r.key.isNone then 24 else 0) = hdr at h hnonce
  generalize hnn : (if r.key.isNone then r.buf.take 24 else r.nonce) = nonce at h hnonce
  unfold parseCore at h
  split at h
  · cases h
  · have hn := hnonce (by omega)
    split at h
    · cases h
    · rename_i k' mb hs
      have hk' := selOf_key A r hr nonce _ k' mb hs
      split at h
      · cases h
      · split at h
        · split at h
          · cases h
          · cases h; exact ⟨hk', by rw [incr_length, hn]⟩
        · split at h
          · cases h
          · split at h
            · cases h
            · cases h; exact ⟨hk', by rw [incr_length, incr_length, hn]⟩

theorem drain_clamp (A : AeadFns) (fuel : Nat) (r : Rx) (hr : r.sized) : drain (clamp A) fuel r = drain A fuel r := by
  induction fuel generalizing r with
  | zero => rfl
  | succ f ih =>
    simp only [drain, parseOne_clamp A r hr]
    split
    · rfl
    · cases hp : parseOne A r with
      | need => rfl
      | bad e => rfl
      | ok k md p n nn =>
        obtain ⟨hk, hn⟩ := parseOne_ok_sized A r hr k md p n nn hp
        exact ih _ ⟨hr.1, fun k' hk' => by simp only [Option.some.injEq] at hk'; subst hk'; exact ⟨hk, hn⟩⟩

theorem feed_clamp (A : AeadFns) (r : Rx) (hr : r.sized) (bs : Bytes) : feed (clamp A) r bs = feed A r bs := by
  simp only [feed]
  exact drain_clamp A _ _ ⟨hr.1, hr.2⟩

theorem new_sized (cands : List Bytes) (hc : ∀ k ∈ cands, k.length = 32) : (Rx.new cands).sized :=
  ⟨hc, fun k hk => by simp [Rx.new] at hk⟩

/-! ## The framing theorems under `AeadLaws32` -/

theorem udp_roundtrip32 (A : AeadFns) (hA : AeadLaws32 A) (key nonce : Bytes) (hk : key.length = 32)
    (hn : nonce.length = 24) (s : Segment) (hw : s.wf) (lePad : Bool) (d : Bytes)
    (hs : udpSeal A key nonce s lePad = some d) : udpOpen A key d = .ok (s.md, s.payload) := by
  rw [← udpOpen_clamp A key hk]
  exact udp_roundtrip (clamp A) (clamp_laws A hA) leLaw key nonce hn s hw lePad d
    (by rw [udpSeal_clamp A key nonce hk hn]; exact hs)

/-- **A whole direction of a TCP connection, any chunking, an AEAD lawful on (32, 24)-byte inputs.**
    The sender's key and the receiver's candidate keys have 32 bytes, the first nonce 24; the other
    candidates do not authenticate the ONE ciphertext the sender produces first. -/
theorem tcp_stream_roundtrip32 (A : AeadFns) (hA : AeadLaws32 A) (segs : List (Segment × Bool))
    (hw : ∀ x ∈ segs, x.1.wf) (t : Tx) (hk : t.key.length = 32) (hn : t.nonce.length = 24)
    (cands : List Bytes) (hc : ∀ k ∈ cands, k.length = 32)
    (hsync : InSyncFor A t (Rx.new cands) (firstMeta segs))
    (bytes : Bytes) (hs : sealAll A t segs = some bytes) (chunks : List Bytes) (hch : chunks.flatten = bytes) :
    (chunks.foldl (feed A) (Rx.new cands)).out = segs.map (fun x => (x.1.md, x.1.payload)) ∧
    (chunks.foldl (feed A) (Rx.new cands)).dead = none ∧ (chunks.foldl (feed A) (Rx.new cands)).buf = [] := by
  rw [foldl_feed_new, hch, ← feed_clamp A _ (new_sized cands hc)]
  refine tcp_stream_roundtrip_for (clamp A) (clamp_laws A hA) leLaw segs hw t cands ?_ bytes
    (by rw [sealAll_clamp A segs t hk hn]; exact hs)
  rcases hsync with ⟨a, b, c, d, e⟩ | h
  · refine Or.inl ⟨a, b, c, d, fun k hk' hne => ?_⟩
    have hkl : k.length = 32 := hc k (by simpa [Rx.new] using hk')
    rw [clamp_seal A t.key t.nonce _ hk hn, clamp_open A k t.nonce _ hkl hn]
    exact e k hk' hne
  · exact Or.inr h

/-- the toy AEAD of the non-vacuity examples is lawful (on every size, hence on 32 / 24) -/
theorem toy_laws32 : AeadLaws32 toyAead where
  seal_len k n p _ _ := by simp [toyAead, toyTag_len]
  open_seal k n p _ _ := by
    simp only [toyAead, List.length_append, toyTag_len]
    have h1 : p.length + 16 - 16 = p.length := by omega
    rw [h1, List.drop_left' rfl, List.take_left' rfl]
    simp

end Mieru.Spec
