import Mieru.Proofs.Close
/-!
# Soundness of the executable close acceptor (helper file for Props/C03)

`Close.accept` is what the harness replays observed packet-transport close histories through. This
file proves that it keeps the same invariant as the transition system `Close.Step`, with the three
assumption flags the acceptor records (`ordered`, `patient`, `kept`) in place of the environment:
an accepted history that stayed inside the three assumptions and ended in EOF has read everything.
-/
namespace Mieru.Close
open Mieru

/-! ## Frame lemmas for `Arq.recv` / `Arq.accept` -/

theorem recv_drained (a : Arq.St) (m : Arq.Msg) :
    ∀ x ∈ (Arq.recv a m).recvBuf, x.seq ≠ (Arq.recv a m).nextRecv := by
  unfold Arq.recv
  apply drain_drained
  simp only
  split <;> simp <;> omega

theorem recv_hand (a : Arq.St) (m : Arq.Msg) (H : List Nat)
    (h : ∀ j ∈ H, j < a.nextRecv ∨ ∃ x ∈ a.recvBuf, x.seq = j) :
    ∀ j ∈ m.seq :: H, j < (Arq.recv a m).nextRecv ∨ ∃ x ∈ (Arq.recv a m).recvBuf, x.seq = j := by
  unfold Arq.recv
  apply drain_hand
  intro j hj
  simp only [List.mem_cons] at hj
  simp only
  rcases hj with rfl | hj
  · by_cases hlt : m.seq < a.nextRecv
    · left; exact hlt
    · right; exact ⟨m, by simp [hlt], rfl⟩
  · rcases h j hj with h1 | ⟨m', hm', hs'⟩
    · left; exact h1
    · right
      refine ⟨m', ?_, hs'⟩
      split
      · exact hm'
      · simp [hm']

theorem recv_delivered_len (a : Arq.St) (m : Arq.Msg) :
    a.delivered.length ≤ (Arq.recv a m).delivered.length := by
  unfold Arq.recv
  obtain ⟨ex, hex⟩ := drain_delivered_prefix (a.recvBuf.length + 2)
    { a with netData := a.netData.erase m,
             recvBuf := if m.seq < a.nextRecv then a.recvBuf else m :: a.recvBuf }
  simp only at hex
  rw [hex]
  simp

theorem recv_frame (a : Arq.St) (m : Arq.Msg) :
    (Arq.recv a m).segs = a.segs ∧ (Arq.recv a m).qLo = a.qLo := by
  unfold Arq.recv
  have := Arq.drain_mono (a.recvBuf.length + 2)
    { a with netData := a.netData.erase m,
             recvBuf := if m.seq < a.nextRecv then a.recvBuf else m :: a.recvBuf }
  exact ⟨this.2.1, this.2.2.1⟩

/-- a data emission changes nothing on the receiving side, and moves `qLo` only over a queued segment -/
theorem accept_send_frame {a a' : Arq.St} {k p : Nat} (h : Arq.accept a (.send k p) = some a') :
    a'.recvBuf = a.recvBuf ∧ a'.nextRecv = a.nextRecv ∧ a'.delivered = a.delivered ∧ a'.segs = a.segs ∧
    (a'.qLo = a.qLo ∨ (a'.qLo = a.qLo + 1 ∧ a.qLo < a.segs.length)) := by
  simp only [Arq.accept] at h
  split at h
  · simp at h
  · rename_i hc
    have hp : a.segs[k]? = some p := by simpa using hc
    split at h
    · rename_i hk
      simp only [Option.some.injEq] at h; subst h
      refine ⟨rfl, rfl, rfl, rfl, Or.inr ⟨rfl, ?_⟩⟩
      have := (List.getElem?_eq_some_iff.mp hp).1
      omega
    · split at h
      · simp only [Option.some.injEq] at h; subst h
        exact ⟨rfl, rfl, rfl, rfl, Or.inl rfl⟩
      · simp at h

theorem accept_ack_frame {a a' : Arq.St} {x : Nat} (h : Arq.accept a (.ack x) = some a') :
    a'.recvBuf = a.recvBuf ∧ a'.nextRecv = a.nextRecv ∧ a'.delivered = a.delivered ∧ a'.segs = a.segs ∧ a'.qLo = a.qLo := by
  simp only [Arq.accept] at h
  split at h
  · simp only [Option.some.injEq] at h; subst h; exact ⟨rfl, rfl, rfl, rfl, rfl⟩
  · simp at h

theorem accept_ackIn_frame {a a' : Arq.St} {x : Nat} (h : Arq.accept a (.ackIn x) = some a') :
    a'.recvBuf = a.recvBuf ∧ a'.nextRecv = a.nextRecv ∧ a'.delivered = a.delivered ∧ a'.segs = a.segs ∧ a'.qLo = a.qLo := by
  simp only [Arq.accept] at h
  split at h
  · simp only [Option.some.injEq] at h; subst h; exact ⟨rfl, rfl, rfl, rfl, rfl⟩
  · simp at h

theorem allHanded_spec {s : St} (h : allHanded s = true) : ∀ j, j < s.a.qLo → j ∈ s.handed := by
  intro j hj
  unfold allHanded at h
  rw [List.all_eq_true] at h
  have := h j (List.mem_range.mpr hj)
  simpa using this

/-! ## The invariant of the acceptor -/

structure AInv (c : Acc) : Prop where
  arq : Arq.Inv c.s.a
  drained : ∀ m ∈ c.s.a.recvBuf, m.seq ≠ c.s.a.nextRecv
  hand : ∀ j ∈ c.s.handed, j < c.s.a.nextRecv ∨ ∃ m ∈ c.s.a.recvBuf, m.seq = j
  readLe : c.s.readPos ≤ c.s.a.delivered.length
  eofI : c.s.eof = true → c.s.rClosed = true ∧ c.s.readPos = c.s.a.delivered.length
  sentReq : c.s.closeSent = true → c.s.closeReq = true
  p1 : c.patient = true → c.s.closeSent = true → c.s.a.qLo = c.s.a.segs.length
  p2 : c.patient = true → c.s.wClosed = true → c.s.closeSent = true
  p4 : c.patient = true → c.kept = true → c.s.rClosed = true → c.s.closeSent = true
  o1 : c.patient = true → c.ordered = true → c.kept = true → c.s.rClosed = true →
    c.s.a.nextRecv = c.s.a.segs.length

theorem ainv_init : AInv { s := init } := by
  refine ⟨Arq.inv_init, ?_, ?_, ?_, ?_, ?_, ?_, ?_, ?_, ?_⟩ <;> simp [init, Arq.init]

theorem accept_ainv {c c' : Acc} (e : Ev) (h : AInv c) (ha : accept c e = some c') : AInv c' := by
  cases e with
  | arq ae =>
    cases ae with
    | write p =>
      simp only [accept] at ha
      split at ha
      · simp at ha
      · rename_i hcr
        have hcr' : c.s.closeReq = false := by simpa using hcr
        simp only [Option.some.injEq] at ha; subst ha
        have hcs : c.s.closeSent = false := by
          cases hs : c.s.closeSent with
          | false => rfl
          | true => have := h.sentReq hs; rw [hcr'] at this; exact absurd this (by simp)
        have harq : Arq.Inv { c.s.a with segs := c.s.a.segs ++ [p] } :=
          Arq.accept_inv (.write p) h.arq (by simp [Arq.accept])
        refine ⟨harq, h.drained, h.hand, h.readLe, h.eofI, h.sentReq, ?_, h.p2, h.p4, ?_⟩
        · intro _ hs; rw [hcs] at hs; exact absurd hs (by simp)
        · intro hp _ hk hr; have := h.p4 hp hk hr; rw [hcs] at this; exact absurd this (by simp)
    | send k p =>
      simp only [accept] at ha
      split at ha
      · simp at ha
      · split at ha
        · simp at ha
        · rename_i a' ha'
          simp only [Option.some.injEq] at ha; subst ha
          obtain ⟨hb, hn, hd, hsg, hq⟩ := accept_send_frame ha'
          have harq := Arq.accept_inv _ h.arq ha'
          refine ⟨harq, ?_, ?_, ?_, ?_, h.sentReq, ?_, h.p2, h.p4, ?_⟩
          · simp only [hb, hn]; exact h.drained
          · simp only [hb, hn]; exact h.hand
          · simp only [hd]; exact h.readLe
          · simp only [hd]; exact h.eofI
          · intro hp hs
            have := h.p1 hp hs
            simp only [hsg]
            rcases hq with hq | ⟨_, hlt⟩
            · rw [hq]; exact this
            · omega
          · intro hp ho hk hr
            simp only [hn, hsg]
            exact h.o1 hp ho hk hr
    | deliver k p =>
      simp only [accept] at ha
      split at ha
      · rename_i hmem
        split at ha
        · simp only [Option.some.injEq] at ha; subst ha; exact h
        · rename_i hr
          have hr' : c.s.rClosed = false := by simpa using hr
          simp only [Option.some.injEq] at ha; subst ha
          have harq : Arq.Inv (Arq.recv { c.s.a with netData := ⟨k, p⟩ :: c.s.a.netData } ⟨k, p⟩) :=
            Arq.accept_inv (.deliver k p) h.arq (by simp [Arq.accept, hmem])
          have hfr := recv_frame { c.s.a with netData := ⟨k, p⟩ :: c.s.a.netData } ⟨k, p⟩
          refine ⟨harq, ?_, ?_, ?_, ?_, h.sentReq, ?_, h.p2, ?_, ?_⟩
          · exact recv_drained _ _
          · exact recv_hand { c.s.a with netData := ⟨k, p⟩ :: c.s.a.netData } ⟨k, p⟩ c.s.handed h.hand
          · have := recv_delivered_len { c.s.a with netData := ⟨k, p⟩ :: c.s.a.netData } ⟨k, p⟩
            have := h.readLe
            simp only at *
            omega
          · intro he; have := (h.eofI he).1; rw [hr'] at this; exact absurd this (by simp)
          · intro hp hs
            simp only [hfr.1, hfr.2]
            exact h.p1 hp hs
          · intro _ _ hrc; simp only at hrc; rw [hr'] at hrc; exact absurd hrc (by simp)
          · intro _ _ _ hrc; simp only at hrc; rw [hr'] at hrc; exact absurd hrc (by simp)
      · simp at ha
    | ack x =>
      simp only [accept] at ha
      split at ha
      · simp at ha
      · rename_i a' ha'
        simp only [Option.some.injEq] at ha; subst ha
        obtain ⟨hb, hn, hd, hsg, hq⟩ := accept_ack_frame ha'
        have harq := Arq.accept_inv _ h.arq ha'
        refine ⟨harq, ?_, ?_, ?_, ?_, h.sentReq, ?_, h.p2, h.p4, ?_⟩
        · simp only [hb, hn]; exact h.drained
        · simp only [hb, hn]; exact h.hand
        · simp only [hd]; exact h.readLe
        · simp only [hd]; exact h.eofI
        · simp only [hsg, hq]; exact h.p1
        · simp only [hn, hsg]; exact h.o1
    | ackIn x =>
      simp only [accept] at ha
      split at ha
      · simp at ha
      · rename_i a' ha'
        simp only [Option.some.injEq] at ha; subst ha
        obtain ⟨hb, hn, hd, hsg, hq⟩ := accept_ackIn_frame ha'
        have harq := Arq.accept_inv _ h.arq ha'
        refine ⟨harq, ?_, ?_, ?_, ?_, h.sentReq, ?_, h.p2, h.p4, ?_⟩
        · simp only [hb, hn]; exact h.drained
        · simp only [hb, hn]; exact h.hand
        · simp only [hd]; exact h.readLe
        · simp only [hd]; exact h.eofI
        · simp only [hsg, hq]; exact h.p1
        · simp only [hn, hsg]; exact h.o1
  | closeCall =>
    simp only [accept] at ha
    split at ha
    · simp at ha
    · simp only [Option.some.injEq] at ha; subst ha
      exact ⟨h.arq, h.drained, h.hand, h.readLe, h.eofI, fun _ => rfl, h.p1, h.p2, h.p4, h.o1⟩
  | closeSend ms =>
    simp only [accept] at ha
    split at ha
    · simp at ha
    · rename_i hcr
      have hcr' : c.s.closeReq = true := by simpa using hcr
      split at ha
      · simp only [Option.some.injEq] at ha; subst ha
        exact ⟨h.arq, h.drained, h.hand, h.readLe, h.eofI, h.sentReq, h.p1, h.p2, h.p4, h.o1⟩
      · split at ha
        · rename_i hq
          simp only [Option.some.injEq] at ha; subst ha
          exact ⟨h.arq, h.drained, h.hand, h.readLe, h.eofI, fun _ => hcr', fun _ _ => hq,
            fun _ _ => rfl, fun _ _ _ => rfl, h.o1⟩
        · split at ha
          · simp at ha
          · simp only [Option.some.injEq] at ha; subst ha
            refine ⟨h.arq, h.drained, h.hand, h.readLe, h.eofI, fun _ => hcr', ?_, ?_, ?_, ?_⟩ <;>
              (intro hp; exact absurd hp (by simp))
  | closeRet =>
    simp only [accept] at ha
    split at ha
    · rename_i hg
      simp only [Bool.and_eq_true] at hg
      simp only [Option.some.injEq] at ha; subst ha
      exact ⟨h.arq, h.drained, h.hand, h.readLe, h.eofI, h.sentReq, h.p1, fun _ _ => hg.2, h.p4, h.o1⟩
    · simp at ha
  | closeDeliver =>
    simp only [accept] at ha
    split at ha
    · rename_i hg
      simp only [Option.some.injEq] at ha; subst ha
      have hsent : c.patient = true → c.s.closeSent = true := by
        intro hp
        simp only [Bool.or_eq_true] at hg
        rcases hg with hg | hg
        · exact hg
        · exact h.p2 hp hg
      refine ⟨h.arq, h.drained, h.hand, h.readLe, ?_, h.sentReq, h.p1, h.p2, ?_, ?_⟩
      · intro he; exact ⟨rfl, (h.eofI he).2⟩
      · intro hp _ _; exact hsent hp
      · intro hp ho _ _
        simp only [Bool.and_eq_true] at ho
        have hq := h.p1 hp (hsent hp)
        have := all_handed h.drained h.hand (allHanded_spec ho.2)
        have := h.arq.order
        simp only
        omega
    · simp at ha
  | localClose idle =>
    simp only [accept] at ha
    split at ha
    · simp at ha
    · simp only [Option.some.injEq] at ha; subst ha
      refine ⟨h.arq, h.drained, h.hand, h.readLe, ?_, h.sentReq, h.p1, h.p2, ?_, ?_⟩
      · intro he; exact ⟨rfl, (h.eofI he).2⟩
      · intro _ hk; exact absurd hk (by simp)
      · intro _ _ hk; exact absurd hk (by simp)
  | readAll =>
    simp only [accept, Option.some.injEq] at ha; subst ha
    have hle := h.readLe
    refine ⟨h.arq, h.drained, h.hand, ?_, ?_, h.sentReq, h.p1, h.p2, h.p4, h.o1⟩
    · simp only; omega
    · intro he
      have := h.eofI he
      exact ⟨this.1, by simp only; omega⟩
  | readEOF =>
    simp only [accept] at ha
    split at ha
    · rename_i hg
      simp only [Option.some.injEq] at ha; subst ha
      simp only [Bool.and_eq_true, beq_iff_eq] at hg
      exact ⟨h.arq, h.drained, h.hand, h.readLe, fun _ => hg, h.sentReq, h.p1, h.p2, h.p4, h.o1⟩
    · simp at ha

theorem acceptAll_ainv (es : List Ev) {c0 c : Acc} (h : AInv c0) (ha : acceptAll c0 es = some c) : AInv c := by
  induction es generalizing c0 with
  | nil => simp only [acceptAll, Option.some.injEq] at ha; subst ha; exact h
  | cons e es ih =>
    simp only [acceptAll] at ha
    split at ha
    · simp at ha
    · rename_i c1 hc1
      exact ih (accept_ainv e h hc1) ha

theorem acceptAll_append (c : Acc) (xs ys : List Ev) :
    acceptAll c (xs ++ ys) = (acceptAll c xs).bind (fun c' => acceptAll c' ys) := by
  induction xs generalizing c with
  | nil => simp [acceptAll]
  | cons e es ih =>
    simp only [List.cons_append, acceptAll]
    cases accept c e with
    | none => simp
    | some c1 => exact ih c1

end Mieru.Close
