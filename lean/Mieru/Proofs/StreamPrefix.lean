import Mieru.Proofs.StreamWire
import Mieru.Model.Close
/-!
# What the stream receiver has emitted only ever grows (helper file for Props/C03, C04)
-/
namespace Mieru.StreamWire
open Mieru

variable (A : Aead) (M : MetaCodec)

theorem drain_out_grows (fuel : Nat) (r : Rx) : ∃ ex, (drain A M fuel r).out = r.out ++ ex := by
  induction fuel generalizing r with
  | zero => exact ⟨[], by simp [drain]⟩
  | succ n ih =>
    unfold drain
    split
    · exact ⟨[], by simp⟩
    · split
      · exact ⟨[], by simp⟩
      · exact ⟨[], by simp⟩
      · rename_i m p k c' _
        obtain ⟨ex, hex⟩ := ih { r with c := c', buf := r.buf.drop k, out := r.out ++ [(m, p)] }
        exact ⟨[(m, p)] ++ ex, by rw [hex]; simp⟩

theorem feed_out_grows (fuel : Nat) (r : Rx) (bs : Bytes) : ∃ ex, (feed A M fuel r bs).out = r.out ++ ex := by
  induction bs generalizing r with
  | nil => exact ⟨[], by simp [feed]⟩
  | cons b t ih =>
    simp only [feed, List.foldl_cons] at ih ⊢
    obtain ⟨e1, h1⟩ := drain_out_grows A M fuel { r with buf := r.buf ++ [b] }
    obtain ⟨e2, h2⟩ := ih (feedByte A M fuel r b)
    refine ⟨e1 ++ e2, ?_⟩
    rw [h2]
    unfold feedByte
    rw [h1]
    simp

/-- What the receiver has emitted after any prefix of the byte stream is a prefix of what it emits
    after the whole stream. -/
theorem feed_take_prefix (fuel : Nat) (r : Rx) (bs : Bytes) (k : Nat) :
    ∃ ex, (feed A M fuel r (bs.take k)).out ++ ex = (feed A M fuel r bs).out := by
  have h : bs = bs.take k ++ bs.drop k := (List.take_append_drop k bs).symm
  conv => enter [1, ex, 2]; rw [h]
  rw [feed_append]
  obtain ⟨ex, hex⟩ := feed_out_grows A M fuel (feed A M fuel r (bs.take k)) (bs.drop k)
  exact ⟨ex, hex.symm⟩

/-- once dead, the receiver never emits anything again and stays dead -/
theorem drain_dead (fuel : Nat) (r : Rx) (h : r.dead = true) : drain A M fuel r = r := by
  cases fuel with
  | zero => simp [drain]
  | succ n => simp [drain, h]

theorem feed_dead (fuel : Nat) (r : Rx) (bs : Bytes) (h : r.dead = true) :
    (feed A M fuel r bs).dead = true ∧ (feed A M fuel r bs).out = r.out ∧ (feed A M fuel r bs).c = r.c := by
  induction bs generalizing r with
  | nil => simp [feed, h]
  | cons b t ih =>
    simp only [feed, List.foldl_cons] at ih ⊢
    have hb : feedByte A M fuel r b = { r with buf := r.buf ++ [b] } := by
      unfold feedByte
      exact drain_dead A M fuel _ h
    rw [hb]
    exact ih { r with buf := r.buf ++ [b] } h

end Mieru.StreamWire

namespace Mieru.CloseStream
open Mieru

theorem run_data (q0 : List Bytes) (ps : List Bytes) :
    run ⟨q0, false⟩ (ps.map Item.data) = ⟨q0 ++ ps, false⟩ := by
  induction ps generalizing q0 with
  | nil => simp [run]
  | cons p t ih =>
    simp only [run, List.map_cons, List.foldl_cons, input] at ih ⊢
    simp only [Bool.false_eq_true, if_false]
    rw [ih (q0 ++ [p])]
    simp

theorem run_append (r : SRx) (a b : List Item) : run r (a ++ b) = run (run r a) b := by
  simp [run, List.foldl_append]

theorem sessionItems_append (cls : StreamWire.Md → Nat × (Bytes → Item)) (sid : Nat)
    (a b : List (StreamWire.Md × Bytes)) :
    sessionItems cls sid (a ++ b) = sessionItems cls sid a ++ sessionItems cls sid b := by
  simp [sessionItems]

/-- A session whose items on the wire are `frags` followed by the close request: after ANY prefix of
    those items, the queue is a prefix of `frags`, and the session is closed only if the queue holds
    all of `frags`. -/
theorem run_prefix (frags : List Bytes) (pre rest : List Item)
    (h : pre ++ rest = frags.map Item.data ++ [Item.closeReq]) :
    (∃ more, (run SRx.init pre).queue ++ more = frags) ∧
    ((run SRx.init pre).closed = true → (run SRx.init pre).queue = frags) := by
  rcases List.eq_nil_or_concat rest with hr | ⟨r', x, hr⟩
  · subst hr
    rw [List.append_nil] at h
    subst h
    rw [run_append]
    have := run_data [] frags
    simp only [List.nil_append] at this
    unfold SRx.init
    rw [this]
    simp [run, input]
  · subst hr
    rw [List.concat_eq_append, ← List.append_assoc] at h
    have hh := List.append_inj' h (by simp)
    obtain ⟨l1, l2, hf, h1, _⟩ := List.map_eq_append_iff.mp hh.1.symm
    subst hf
    rw [← h1]
    have := run_data [] l1
    simp only [List.nil_append] at this
    unfold SRx.init
    rw [this]
    exact ⟨⟨l2, rfl⟩, by simp⟩

end Mieru.CloseStream
