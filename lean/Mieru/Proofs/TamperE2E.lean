import Mieru.Model.TamperUdp
import Mieru.Proofs.TamperPacket
import Mieru.Proofs.Arq
/-!
# The packet transport end to end: attacker-chosen datagrams → `parseD` → dispatch / direction →
# the C02 receiver (helper file for Props/C04)
-/
namespace Mieru.Tamper
open Mieru

section
variable (openF : Bytes → Bytes → Option Bytes) (M : PCodec) (bd : PMd → Bytes → Option Bytes)

/-- everything `parseD` checked when it accepts -/
theorem parseD_inv {b : Bytes} {m : PMd} {p : Bytes} (h : parseD openF M bd b = some (m, p)) :
    72 ≤ b.length ∧ ∃ mb, openF (b.take 24) ((b.drop 24).take 48) = some mb ∧ M.dec mb = some m ∧
      ((m.payloadLen = 0 ∧ p = [] ∧ b.length = 72 + m.prefixLen + m.suffixLen) ∨
       (m.payloadLen ≠ 0 ∧ b.length = 72 + m.prefixLen + (m.payloadLen + 16) + m.suffixLen ∧
        ∃ ct, bd m (((b.drop 72).drop m.prefixLen).take (m.payloadLen + 16)) = some ct ∧
          openF (b.take 24) ct = some p)) := by
  unfold parseD at h
  split at h
  · simp at h
  · rename_i hlt
    simp only at h
    split at h
    · simp at h
    · rename_i mb hmb
      split at h
      · simp at h
      · rename_i m' hm'
        split at h
        · simp at h
        · rename_i hpre
          simp only [List.length_drop] at hpre
          split at h
          · rename_i hz
            split at h
            · rename_i hsz
              simp only [List.length_drop] at hsz
              simp only [Option.some.injEq, Prod.mk.injEq] at h
              obtain ⟨h1, h2⟩ := h
              subst h1
              exact ⟨by omega, mb, hmb, hm', Or.inl ⟨hz, h2.symm, by omega⟩⟩
            · simp at h
          · rename_i hnz
            split at h
            · simp at h
            · rename_i hsz
              simp only [List.length_drop, ne_eq, Decidable.not_not] at hsz
              split at h
              · simp at h
              · rename_i ct hct
                split at h
                · simp at h
                · rename_i p' hp'
                  simp only [Option.some.injEq, Prod.mk.injEq] at h
                  obtain ⟨h1, h2⟩ := h
                  subst h1; subst h2
                  exact ⟨by omega, mb, hmb, hm', Or.inr ⟨hnz, by omega, ct, hct, hp'⟩⟩

variable (sealF : Bytes → Bytes → Bytes)

/-- Under the ideal AEAD, fresh nonces, well-formed genuine traffic and domain separation an accepted
    datagram is ONE genuine datagram, byte for byte outside its padding: same nonce, the genuine
    metadata ciphertext, the genuine total length, and a payload region that `bd` maps to the genuine
    payload ciphertext. -/
theorem parseD_genuine (hlen : ∀ n p, (sealF n p).length = p.length + 16)
    (G : List Dgram) (hI : IdealD openF sealF M G) (hw : WfD M G) (hb : BdLen bd G) (hf : Fresh G) (hd : DomSep M G)
    {b : Bytes} {m : PMd} {p : Bytes} (h : parseD openF M bd b = some (m, p)) :
    ∃ d ∈ G, d.nonce = b.take 24 ∧ m = d.md ∧ p = d.payload ∧
      (b.drop 24).take 48 = sealF d.nonce (M.enc d.md) ∧
      b.length = 72 + d.md.prefixLen + (if d.payload = [] then 0 else d.md.payloadLen + 16) + d.md.suffixLen ∧
      (d.payload ≠ [] →
        bd d.md (((b.drop 72).drop d.md.prefixLen).take (d.md.payloadLen + 16)) = some (sealF d.nonce d.payload)) := by
  obtain ⟨h72, mb, hmb, hdec, hpay⟩ := parseD_inv openF M bd h
  obtain ⟨⟨d, hdG, hdn, hcase⟩, hmct⟩ := hI _ _ _ hmb
  obtain ⟨hpl, hok, hzero⟩ := hw d hdG
  -- the metadata slot holds the genuine metadata of `d`
  have hmbe : mb = M.enc d.md := by
    rcases hcase with he | ⟨hne, he⟩
    · exact he
    · rw [he, hd.1 d hdG hne] at hdec; simp at hdec
  have hm : m = d.md := by
    rw [hmbe, M.dec_enc _ hok] at hdec; exact (Option.some.inj hdec).symm
  subst hm
  refine ⟨d, hdG, hdn, rfl, ?_⟩
  rcases hpay with ⟨hz, hp, hl⟩ | ⟨hnz, hl, ct, hct, hp⟩
  · have he : d.payload = [] := hzero.mp hz
    refine ⟨by rw [hp, he], by rw [hmct, hmbe, hdn], by simp [he]; omega, fun hne => absurd he hne⟩
  · have hne : d.payload ≠ [] := fun he => hnz (hzero.mpr he)
    obtain ⟨⟨d2, hd2G, hd2n, hcase2⟩, hcteq⟩ := hI _ _ _ hp
    have hsame : d2 = d := hf d2 hd2G d hdG (by rw [hd2n, hdn])
    subst hsame
    have hwl : (((b.drop 72).drop d2.md.prefixLen).take (d2.md.payloadLen + 16)).length = d2.md.payloadLen + 16 := by
      simp only [List.length_take, List.length_drop]; omega
    have hpe : p = d2.payload := by
      rcases hcase2 with he | ⟨_, he⟩
      · -- the payload slot would hold the metadata's ciphertext: only possible for a 32-byte payload
        exfalso
        have h1 := hb d2 hdG _ ct hwl hct
        rw [hcteq, hlen, he, M.enc_len, hpl] at h1
        exact hd.2 d2 hd2G (by omega)
      · exact he
    subst hpe
    refine ⟨rfl, by rw [hmct, hmbe, hdn], by simp [hne]; omega, fun _ => ?_⟩
    rw [hct, hcteq, hdn]

/-- … so, when the payload travels as it was sealed (`bd` is the identity: types 2..9), the accepted
    datagram IS a genuine datagram in which at most the CONTENT of the two paddings was changed. -/
theorem parseD_genuine_bytes (hlen : ∀ n p, (sealF n p).length = p.length + 16)
    (G : List Dgram) (hI : IdealD openF sealF M G) (hw : WfD M G) (hb : BdLen (fun _ w => some w) G)
    (hf : Fresh G) (hd : DomSep M G)
    {b : Bytes} {m : PMd} {p : Bytes} (h : parseD openF M (fun _ w => some w) b = some (m, p)) :
    ∃ d ∈ G, m = d.md ∧ p = d.payload ∧ ∃ pad1 pad2, pad1.length = d.md.prefixLen ∧ pad2.length = d.md.suffixLen ∧
      b = wireD sealF M d pad1 pad2 := by
  obtain ⟨d, hdG, hdn, hm, hp, hmeta, hl, hpay⟩ := parseD_genuine openF M _ sealF hlen G hI hw hb hf hd h
  obtain ⟨h72, _⟩ := parseD_inv openF M _ h
  refine ⟨d, hdG, hm, hp, (b.drop 72).take d.md.prefixLen,
    ((b.drop 72).drop d.md.prefixLen).drop (if d.payload = [] then 0 else d.md.payloadLen + 16), ?_, ?_, ?_⟩
  · simp only [List.length_take, List.length_drop]; omega
  · simp only [List.length_drop]; omega
  · unfold wireD
    have e1 : b = b.take 24 ++ ((b.drop 24).take 48 ++ b.drop 72) := by
      rw [show b.drop 72 = (b.drop 24).drop 48 by simp, List.take_append_drop, List.take_append_drop]
    by_cases he : d.payload = []
    · simp only [he, if_true, List.drop_zero, List.append_nil]
      rw [List.append_assoc, List.append_assoc, List.take_append_drop, ← hmeta, hdn]
      exact e1
    · simp only [he, if_false]
      have hpw := hpay he
      simp only [Option.some.injEq] at hpw
      rw [← hpw, ← hmeta, hdn]
      have e2 : b.drop 72 = (b.drop 72).take d.md.prefixLen ++
          (((b.drop 72).drop d.md.prefixLen).take (d.md.payloadLen + 16) ++
            ((b.drop 72).drop d.md.prefixLen).drop (d.md.payloadLen + 16)) := by
        rw [List.take_append_drop, List.take_append_drop]
      have e3 := e1
      rw [e2] at e3
      simp only [List.append_assoc]
      exact e3

private theorem take_left {α : Type} {x y : List α} {n : Nat} (h : x.length = n) : (x ++ y).take n = x := by
  subst h; simp
private theorem drop_left {α : Type} {x y : List α} {n : Nat} (h : x.length = n) : (x ++ y).drop n = y := by
  subst h; simp

/-- a genuine datagram with ANY padding content of the announced lengths is accepted as itself -/
theorem parseD_wireD (hlen : ∀ n p, (sealF n p).length = p.length + 16) (d : Dgram)
    (hn : d.nonce.length = 24) (hok : M.ok d.md = true) (hz : d.md.payloadLen = 0 ↔ d.payload = [])
    (hpl : d.md.payloadLen = d.payload.length)
    (ho1 : openF d.nonce (sealF d.nonce (M.enc d.md)) = some (M.enc d.md))
    (ho2 : openF d.nonce (sealF d.nonce d.payload) = some d.payload)
    (pad1 pad2 : Bytes) (h1 : pad1.length = d.md.prefixLen) (h2 : pad2.length = d.md.suffixLen) :
    parseD openF M (fun _ w => some w) (wireD sealF M d pad1 pad2) = some (d.md, d.payload) := by
  have hsm : (sealF d.nonce (M.enc d.md)).length = 48 := by rw [hlen, M.enc_len]
  generalize hpw : (if d.payload = [] then [] else sealF d.nonce d.payload) = pw
  have hb : wireD sealF M d pad1 pad2 = d.nonce ++ (sealF d.nonce (M.enc d.md) ++ (pad1 ++ (pw ++ pad2))) := by
    simp [wireD, hpw]
  have e24 : (wireD sealF M d pad1 pad2).take 24 = d.nonce := by rw [hb]; exact take_left hn
  have ed24 : (wireD sealF M d pad1 pad2).drop 24 = sealF d.nonce (M.enc d.md) ++ (pad1 ++ (pw ++ pad2)) := by
    rw [hb]; exact drop_left hn
  have e48 : ((wireD sealF M d pad1 pad2).drop 24).take 48 = sealF d.nonce (M.enc d.md) := by
    rw [ed24]; exact take_left hsm
  have e72 : (wireD sealF M d pad1 pad2).drop 72 = pad1 ++ (pw ++ pad2) := by
    rw [show (wireD sealF M d pad1 pad2).drop 72 = ((wireD sealF M d pad1 pad2).drop 24).drop 48 by simp, ed24]
    exact drop_left hsm
  have hL : (wireD sealF M d pad1 pad2).length = 72 + pad1.length + pw.length + pad2.length := by
    rw [hb]; simp only [List.length_append, hn, hsm]; omega
  unfold parseD
  rw [if_neg (by omega)]
  simp only [e24, e48, ho1, M.dec_enc _ hok, e72]
  rw [if_neg (by simp only [List.length_append]; omega)]
  rw [drop_left h1]
  by_cases he : d.payload = []
  · have hz0 := hz.mpr he
    have hpw0 : pw = [] := by rw [← hpw, if_pos he]
    simp [hz0, hpw0, h2, he]
  · have hz0 : d.md.payloadLen ≠ 0 := fun h => he (hz.mp h)
    have hpw1 : pw = sealF d.nonce d.payload := by rw [← hpw, if_neg he]
    have hpwl : pw.length = d.md.payloadLen + 16 := by rw [hpw1, hlen, hpl]
    rw [if_neg hz0]
    rw [if_neg (by simp only [List.length_append, ne_eq, Decidable.not_not]; omega)]
    rw [take_left hpwl, hpw1, ho2]

end

/-! ## The C02 receiver behind the parser -/

theorem drain_netData (fuel : Nat) (s : Arq.St) : (Arq.drain fuel s).netData = s.netData := by
  induction fuel generalizing s with
  | zero => simp [Arq.drain]
  | succ n ih =>
    unfold Arq.drain
    split
    · rw [ih]
    · rfl

/-- delivering a copy the network made leaves the network's stock unchanged -/
theorem recv_dup_netData (s : Arq.St) (m : Arq.Msg) :
    (Arq.recv { s with netData := m :: s.netData } m).netData = s.netData := by
  unfold Arq.recv
  rw [drain_netData]
  simp

theorem recv_dup_segs (s : Arq.St) (m : Arq.Msg) :
    (Arq.recv { s with netData := m :: s.netData } m).segs = s.segs := by
  unfold Arq.recv
  rw [(Arq.drain_mono _ _).2.1]

theorem recv_dup_sent (s : Arq.St) (m : Arq.Msg) :
    (Arq.recv { s with netData := m :: s.netData } m).sent = s.sent := by
  unfold Arq.recv
  rw [(Arq.drain_mono _ _).2.2.2.2.1]

section
variable (openF : Bytes → Bytes → Option Bytes) (M : PCodec) (bd : PMd → Bytes → Option Bytes)
  (sealF : Bytes → Bytes → Bytes) (ids : PMd → Ids) (dig : Bytes → Nat) (c : RxCfg)

/-- One attacker-chosen datagram either leaves the receiver exactly as it was (discarded as if lost, or a
    segment that does not touch the receive stream) or acts as the delivery of one GENUINE data-bearing
    segment of this session and direction. -/
theorem rxStep_cases (hlen : ∀ n p, (sealF n p).length = p.length + 16)
    (G : List Dgram) (hI : IdealD openF sealF M G) (hw : WfD M G) (hb : BdLen bd G) (hf : Fresh G) (hd : DomSep M G)
    (s : Arq.St) (b : Bytes) :
    rxStep openF M bd ids dig c s b = s ∨
    ∃ d ∈ G, ∃ k, route c (ids d.md) = some k ∧ parseD openF M bd b = some (d.md, d.payload) ∧
      rxStep openF M bd ids dig c s b =
        Arq.recv { s with netData := ⟨k, dig d.payload⟩ :: s.netData } ⟨k, dig d.payload⟩ := by
  cases hp : parseD openF M bd b with
  | none => left; simp [rxStep, rxApply, hp]
  | some mp =>
    obtain ⟨m, p⟩ := mp
    obtain ⟨d, hdG, _, hm, hpp, _⟩ := parseD_genuine openF M bd sealF hlen G hI hw hb hf hd hp
    subst hm; subst hpp
    cases hr : route c (ids d.md) with
    | none => left; simp [rxStep, rxApply, hp, hr]
    | some k => right; exact ⟨d, hdG, k, hr, rfl, by simp [rxStep, rxApply, hp, hr]⟩

/-- Reachability is preserved: if the network holds a copy of every genuine data-bearing datagram of this
    session and direction, one attacker-chosen datagram is either nothing or the two C02 steps
    `dupData`, `recvData` of a genuine message; the network's stock and the sender are untouched. -/
theorem rxStep_reach {W : Nat} (hlen : ∀ n p, (sealF n p).length = p.length + 16)
    (G : List Dgram) (hI : IdealD openF sealF M G) (hw : WfD M G) (hb : BdLen bd G) (hf : Fresh G) (hd : DomSep M G)
    (s : Arq.St) (hr : Arq.Reach W s)
    (hN : ∀ d ∈ G, ∀ k, route c (ids d.md) = some k → (⟨k, dig d.payload⟩ : Arq.Msg) ∈ s.netData) (b : Bytes) :
    Arq.Reach W (rxStep openF M bd ids dig c s b) ∧
    (rxStep openF M bd ids dig c s b).netData = s.netData ∧
    (rxStep openF M bd ids dig c s b).segs = s.segs := by
  rcases rxStep_cases openF M bd sealF ids dig c hlen G hI hw hb hf hd s b with h | ⟨d, hdG, k, hk, _, h⟩
  · rw [h]; exact ⟨hr, rfl, rfl⟩
  · rw [h]
    have hmem := hN d hdG k hk
    refine ⟨?_, recv_dup_netData s _, recv_dup_segs s _⟩
    exact Arq.Reach.step (Arq.Reach.step hr (Arq.Step.dupData s _ hmem)) (Arq.Step.recvData _ _ (by simp))

theorem rxRun_reach {W : Nat} (hlen : ∀ n p, (sealF n p).length = p.length + 16)
    (G : List Dgram) (hI : IdealD openF sealF M G) (hw : WfD M G) (hb : BdLen bd G) (hf : Fresh G) (hd : DomSep M G)
    (bs : List Bytes) (s : Arq.St) (hr : Arq.Reach W s)
    (hN : ∀ d ∈ G, ∀ k, route c (ids d.md) = some k → (⟨k, dig d.payload⟩ : Arq.Msg) ∈ s.netData) :
    Arq.Reach W (rxRun openF M bd ids dig c s bs) ∧
    (rxRun openF M bd ids dig c s bs).netData = s.netData ∧
    (rxRun openF M bd ids dig c s bs).segs = s.segs := by
  induction bs generalizing s with
  | nil => exact ⟨hr, rfl, rfl⟩
  | cons b bs ih =>
    obtain ⟨h1, h2, h3⟩ := rxStep_reach openF M bd sealF ids dig c hlen G hI hw hb hf hd s hr hN b
    have := ih (rxStep openF M bd ids dig c s b) h1 (by rw [h2]; exact hN)
    simp only [rxRun, List.foldl_cons] at this ⊢
    rw [h2, h3] at this
    exact this

/-- The same step seen by the C02 ACCEPTOR (the function the harness replays histories through): if every
    genuine data-bearing datagram of this session and direction is in the sender's emission history,
    an attacker-chosen datagram is either nothing or exactly one accepted `deliver` event. -/
theorem rxStep_accept (hlen : ∀ n p, (sealF n p).length = p.length + 16)
    (G : List Dgram) (hI : IdealD openF sealF M G) (hw : WfD M G) (hb : BdLen bd G) (hf : Fresh G) (hd : DomSep M G)
    (s : Arq.St)
    (hS : ∀ d ∈ G, ∀ k, route c (ids d.md) = some k → (⟨k, dig d.payload⟩ : Arq.Msg) ∈ s.sent) (b : Bytes) :
    rxStep openF M bd ids dig c s b = s ∨
    ∃ k p, (⟨k, p⟩ : Arq.Msg) ∈ s.sent ∧ Arq.accept s (.deliver k p) = some (rxStep openF M bd ids dig c s b) := by
  rcases rxStep_cases openF M bd sealF ids dig c hlen G hI hw hb hf hd s b with h | ⟨d, hdG, k, hk, _, h⟩
  · exact Or.inl h
  · refine Or.inr ⟨k, dig d.payload, hS d hdG k hk, ?_⟩
    simp only [Arq.accept, hS d hdG k hk, if_true, h]

/-- … hence the acceptor's invariant (delivered = a prefix of what was queued, …) survives any sequence
    of attacker-chosen datagrams. -/
theorem rxRun_inv (hlen : ∀ n p, (sealF n p).length = p.length + 16)
    (G : List Dgram) (hI : IdealD openF sealF M G) (hw : WfD M G) (hb : BdLen bd G) (hf : Fresh G) (hd : DomSep M G)
    (bs : List Bytes) (s : Arq.St) (hinv : Arq.Inv s)
    (hS : ∀ d ∈ G, ∀ k, route c (ids d.md) = some k → (⟨k, dig d.payload⟩ : Arq.Msg) ∈ s.sent) :
    Arq.Inv (rxRun openF M bd ids dig c s bs) ∧ (rxRun openF M bd ids dig c s bs).sent = s.sent ∧
    (rxRun openF M bd ids dig c s bs).segs = s.segs := by
  induction bs generalizing s with
  | nil => exact ⟨hinv, rfl, rfl⟩
  | cons b bs ih =>
    have hstep : Arq.Inv (rxStep openF M bd ids dig c s b) ∧ (rxStep openF M bd ids dig c s b).sent = s.sent ∧
        (rxStep openF M bd ids dig c s b).segs = s.segs := by
      rcases rxStep_cases openF M bd sealF ids dig c hlen G hI hw hb hf hd s b with h | ⟨d, hdG, k, hk, _, h⟩
      · rw [h]; exact ⟨hinv, rfl, rfl⟩
      · have hacc : Arq.accept s (.deliver k (dig d.payload)) = some (rxStep openF M bd ids dig c s b) := by
          simp only [Arq.accept, hS d hdG k hk, if_true, h]
        exact ⟨Arq.accept_inv _ hinv hacc, by rw [h]; exact recv_dup_sent s _, by rw [h]; exact recv_dup_segs s _⟩
    obtain ⟨h1, h2, h3⟩ := hstep
    have := ih (rxStep openF M bd ids dig c s b) h1 (by rw [h2]; exact hS)
    simp only [rxRun, List.foldl_cons] at this ⊢
    rw [h2, h3] at this
    exact this

end

/-! ## `bytesCode` is injective: equal digests mean equal bytes -/

theorem bytesCode_injective : ∀ a b : Bytes, bytesCode a = bytesCode b → a = b := by
  intro a
  induction a with
  | nil =>
    intro b h
    cases b with
    | nil => rfl
    | cons y ys => simp [bytesCode] at h
  | cons x xs ih =>
    intro b h
    cases b with
    | nil => simp [bytesCode] at h
    | cons y ys =>
      simp only [bytesCode] at h
      have hx := x.toNat_lt
      have hy := y.toNat_lt
      have h1 : bytesCode xs = bytesCode ys := by omega
      have h2 : x.toNat = y.toNat := by omega
      rw [ih ys h1, UInt8.toNat_inj.mp h2]

end Mieru.Tamper
