import Mieru.Model.EarlyConn
import Mieru.Proofs.TcpSession

/-! Lemmas about `Mieru.Model.EarlyConn` (the API handshake in both modes). -/

namespace Mieru.EarlyConn
open Mieru

theorem drop_len (a b : Bytes) : (a ++ b).drop a.length = b := by
  induction a with
  | nil => rfl
  | cons x xs ih => simpa using ih

/-- the address reader looks at the type byte (and the length byte of a name) only -/
theorem addrLen_append (a b : Bytes) (n : Nat) (h : addrLen a = some n) : addrLen (a ++ b) = some n := by
  cases a with
  | nil => simp [addrLen] at h
  | cons t r =>
    cases r with
    | nil =>
      simp only [addrLen] at h
      simp only [List.cons_append, List.nil_append]
      by_cases h1 : t = 1
      · simp [addrLen, h1] at h ⊢; exact h
      · by_cases h4 : t = 4
        · simp [addrLen, h1, h4] at h ⊢; exact h
        · by_cases h3 : t = 3
          · simp [h1, h4, h3] at h
          · simp [h1, h4, h3] at h
    | cons n r' =>
      simp only [List.cons_append]
      simp only [addrLen] at h ⊢
      exact h

/-- **What follows a SOCKS5 message does not change what `ReadFromSocks5` consumes.** -/
theorem msgLen_append (m rest : Bytes) (h : Wf m) : msgLen (m ++ rest) = some m.length := by
  unfold Wf at h
  match m, h with
  | [], h => simp [msgLen] at h
  | [_], h => simp [msgLen] at h
  | [_, _], h => simp [msgLen] at h
  | v :: c :: r :: a, h =>
    simp only [List.cons_append, msgLen] at h ⊢
    by_cases hv : v ≠ 5
    · rw [if_pos hv] at h; cases h
    · rw [if_neg hv] at h ⊢
      cases ha : addrLen a with
      | none => rw [ha] at h; cases h
      | some n =>
        rw [ha] at h
        rw [addrLen_append a rest n ha]
        simp only at h ⊢
        by_cases hn : n ≤ a.length
        · rw [if_pos hn] at h
          rw [if_pos (by rw [List.length_append]; omega)]
          exact h
        · rw [if_neg hn] at h; cases h

theorem afterAccept_spec (req x : Bytes) (h : Wf req) : afterAccept (req ++ x) = some x := by
  unfold afterAccept
  rw [msgLen_append req x h]
  simp [drop_len]

theorem calls_done (req : Bytes) (c : Conn) (h : c.done = true) (prog : List Call) :
    calls req c prog = some (prog.map toAct) := by
  induction prog with
  | nil => rfl
  | cons x xs ih =>
    cases x with
    | write b => simp [calls, call, h, ih, toAct]
    | read k => simp [calls, call, h, ih, toAct]

/-- HANDSHAKE_STANDARD: the request alone, the response, then the application's calls as they are -/
theorem acts_standard (req : Bytes) (prog : List Call) :
    acts .standard req prog = some (.write req :: .handshake :: prog.map toAct) := by
  simp [acts, dial, calls_done]

/-- HANDSHAKE_NO_WAIT: the first write carries the request in front of its bytes, the response is
    consumed inside that call, then the application's calls as they are -/
theorem acts_noWait_write (req b : Bytes) (rest : List Call) :
    acts .noWait req (.write b :: rest) = some (.write (req ++ b) :: .handshake :: rest.map toAct) := by
  simp [acts, dial, calls, call, calls_done]

/-- HANDSHAKE_NO_WAIT, reading first: the call never returns (nothing was sent, nothing will come) -/
theorem acts_noWait_read (req : Bytes) (k : Nat) (rest : List Call) :
    acts .noWait req (.read k :: rest) = none := by
  simp [acts, dial, calls, call]

theorem writesOf_map (prog : List Call) : writesOf (prog.map toAct) = appWrites prog := by
  induction prog with
  | nil => rfl
  | cons x xs ih => cases x <;> simp [writesOf, appWrites, toAct, ih]

theorem exec_map (prog : List Call) (sv : Bytes) : exec (prog.map toAct) sv = some (appReads prog sv) := by
  induction prog generalizing sv with
  | nil => rfl
  | cons x xs ih => cases x <;> simp [exec, appReads, toAct, ih]

/-- the reads of the application partition the server application's stream: nothing of the
    handshake in it, nothing of it lost -/
theorem appReads_spec (prog : List Call) (sv : Bytes) :
    (appReads prog sv).1.flatten ++ (appReads prog sv).2 = sv := by
  induction prog generalizing sv with
  | nil => simp [appReads]
  | cons x xs ih =>
    cases x with
    | write b => simpa [appReads] using ih sv
    | read k =>
      simp only [appReads, List.flatten_cons, List.append_assoc]
      rw [ih (sv.drop k), List.take_append_drop]

/-- **Client → server byte stream, both modes.**  Whenever the documented requirement holds the
    session carries request ++ application bytes. -/
theorem c2s_stream (m : Mode) (req : Bytes) (prog : List Call) (h : m = .standard ∨ WritesFirst prog) :
    ∃ as, acts m req prog = some as ∧ (writesOf as).flatten = req ++ (appWrites prog).flatten := by
  cases m with
  | standard => exact ⟨_, acts_standard req prog, by simp [writesOf, writesOf_map]⟩
  | noWait =>
    have hw : WritesFirst prog := by
      rcases h with h | h
      · cases h
      · exact h
    match prog, hw with
    | .write b :: rest, _ =>
      exact ⟨_, acts_noWait_write req b rest, by simp [writesOf, writesOf_map, appWrites]⟩

/-- **Server → client, both modes.**  Against the session stream response ++ `sv` the application's
    reads return exactly what they would return on `sv` alone. -/
theorem s2c_reads (m : Mode) (req resp sv : Bytes) (prog : List Call) (hr : Wf resp)
    (h : m = .standard ∨ WritesFirst prog) :
    ∃ as, acts m req prog = some as ∧ exec as (resp ++ sv) = some (appReads prog sv) := by
  cases m with
  | standard =>
    refine ⟨_, acts_standard req prog, ?_⟩
    simp [exec, msgLen_append resp sv hr, drop_len, exec_map]
  | noWait =>
    have hw : WritesFirst prog := by
      rcases h with h | h
      · cases h
      · exact h
    match prog, hw with
    | .write b :: rest, _ =>
      refine ⟨_, acts_noWait_write req b rest, ?_⟩
      simp [exec, msgLen_append resp sv hr, drop_len, exec_map, appReads]

/-- every `Write` of a program of writes on an open session is accepted -/
theorem accepted_toOps (s : TcpSession.Sess) (hs : s.open) (bs : List Bytes)
    (ds : List (Option TcpSession.LE × (Nat → Option TcpSession.LE))) :
    TcpSession.accepted s (toOps bs ds) = bs.flatten := by
  induction bs generalizing s ds with
  | nil => cases ds <;> rfl
  | cons b bs ih =>
    cases ds with
    | nil =>
      simp only [toOps, TcpSession.accepted, List.flatten_cons]
      rw [if_pos hs, ih _ (TcpSession.write_open s _ _ b hs).1]
    | cons d ds =>
      obtain ⟨lo, les⟩ := d
      simp only [toOps, TcpSession.accepted, List.flatten_cons]
      rw [if_pos hs, ih _ (TcpSession.write_open s _ _ b hs).1]

end Mieru.EarlyConn
