import Mieru.Model.Close
import Mieru.Proofs.Arq
/-!
# Invariants of the close model (helper file for Props/C03)
-/
namespace Mieru.Close
open Mieru

/-! ## `Arq.drain` leaves no deliverable segment behind, and keeps track of what was handed over -/

theorem filter_length_lt {α : Type} (p : α → Bool) (l : List α) (x : α) (hx : x ∈ l) (hp : p x = false) :
    (l.filter p).length < l.length := by
  induction l with
  | nil => simp at hx
  | cons y ys ih =>
    simp only [List.mem_cons] at hx
    by_cases hy : p y = true
    · rcases hx with rfl | hx
      · rw [hp] at hy; simp at hy
      · simp only [List.filter_cons, hy, if_true, List.length_cons]
        have := ih hx
        omega
    · have hy' : p y = false := by simpa using hy
      simp only [List.filter_cons, hy', List.length_cons]
      have := List.length_filter_le p ys
      simp
      omega

theorem drain_drained (fuel : Nat) (s : Arq.St) (hf : s.recvBuf.length < fuel) :
    ∀ m ∈ (Arq.drain fuel s).recvBuf, m.seq ≠ (Arq.drain fuel s).nextRecv := by
  induction fuel generalizing s with
  | zero => omega
  | succ n ih =>
    unfold Arq.drain
    split
    · rename_i m hm
      have hmem := List.mem_of_find?_eq_some hm
      have hseq : (m.seq == s.nextRecv) = true := by
        have := List.find?_some hm; simpa using this
      apply ih
      simp only
      have := filter_length_lt (fun x => x.seq != s.nextRecv) s.recvBuf m hmem (by simp at hseq ⊢; exact hseq)
      omega
    · rename_i hnone
      intro m hm
      have := List.find?_eq_none.mp hnone m hm
      simpa using this

theorem drain_hand (fuel : Nat) (s : Arq.St) (H : List Nat)
    (h : ∀ j ∈ H, j < s.nextRecv ∨ ∃ m ∈ s.recvBuf, m.seq = j) :
    ∀ j ∈ H, j < (Arq.drain fuel s).nextRecv ∨ ∃ m ∈ (Arq.drain fuel s).recvBuf, m.seq = j := by
  induction fuel generalizing s with
  | zero => simpa [Arq.drain] using h
  | succ n ih =>
    unfold Arq.drain
    split
    · apply ih
      intro j hj
      simp only
      rcases h j hj with hlt | ⟨m', hm', hs'⟩
      · left; omega
      · by_cases he : j = s.nextRecv
        · left; omega
        · right
          refine ⟨m', ?_, hs'⟩
          simp only [List.mem_filter, bne_iff_ne, ne_eq]
          exact ⟨hm', by rw [hs']; exact he⟩
    · exact h

/-- a closed reader only discards the datagram -/
theorem drain_delivered_prefix (fuel : Nat) (s : Arq.St) :
    ∃ ex, (Arq.drain fuel s).delivered = s.delivered ++ ex := by
  induction fuel generalizing s with
  | zero => exact ⟨[], by simp [Arq.drain]⟩
  | succ n ih =>
    unfold Arq.drain
    split
    · rename_i m _
      obtain ⟨ex, hex⟩ := ih { s with nextRecv := s.nextRecv + 1, delivered := s.delivered ++ [m.pay],
                                      recvBuf := s.recvBuf.filter (fun x => x.seq != s.nextRecv) }
      exact ⟨[m.pay] ++ ex, by rw [hex]; simp⟩
    · exact ⟨[], by simp⟩

/-! ## The invariant -/

structure CInv (E : Env) (s : St) : Prop where
  arq : Arq.Inv s.a
  drained : ∀ m ∈ s.a.recvBuf, m.seq ≠ s.a.nextRecv
  hand : ∀ j ∈ s.handed, j < s.a.nextRecv ∨ ∃ m ∈ s.a.recvBuf, m.seq = j
  readLe : s.readPos ≤ s.a.delivered.length
  eofI : s.eof = true → s.rClosed = true ∧ s.readPos = s.a.delivered.length
  sentReq : s.closeSent = true → s.closeReq = true
  p1 : E.patient = true → s.closeSent = true → s.a.qLo = s.a.segs.length
  p2 : E.patient = true → s.wClosed = true → s.closeSent = true
  p3 : E.patient = true → 0 < s.netClose → s.closeSent = true
  p4 : E.patient = true → E.kept = true → s.rClosed = true → s.closeSent = true
  o1 : E.patient = true → E.ordered = true → E.kept = true → s.rClosed = true → s.a.nextRecv = s.a.segs.length

theorem cinv_init (E : Env) : CInv E init := by
  refine ⟨Arq.inv_init, ?_, ?_, ?_, ?_, ?_, ?_, ?_, ?_, ?_, ?_⟩ <;> simp [init, Arq.init]

/-- once everything transmitted has been handed over, the receiver has it all in order -/
theorem all_handed {s : St} (hd : ∀ m ∈ s.a.recvBuf, m.seq ≠ s.a.nextRecv)
    (hh : ∀ j ∈ s.handed, j < s.a.nextRecv ∨ ∃ m ∈ s.a.recvBuf, m.seq = j)
    (hall : ∀ j, j < s.a.qLo → j ∈ s.handed) : s.a.qLo ≤ s.a.nextRecv := by
  by_cases h : s.a.qLo ≤ s.a.nextRecv
  · exact h
  · exfalso
    have hlt : s.a.nextRecv < s.a.qLo := by omega
    rcases hh _ (hall _ hlt) with h1 | ⟨m, hm, hs⟩
    · omega
    · exact hd m hm hs

theorem arq_accept_inv {a a' : Arq.St} (e : Arq.Ev) (h : Arq.Inv a) (ha : Arq.accept a e = some a') : Arq.Inv a' :=
  Arq.accept_inv e h ha

theorem step_cinv {E : Env} {s t : St} (h : CInv E s) (st : Step E s t) : CInv E t := by
  cases st with
  | write p hcr =>
    have hcs : s.closeSent = false := by
      cases hs : s.closeSent with
      | false => rfl
      | true => have := h.sentReq hs; rw [hcr] at this; exact absurd this (by simp)
    have ha : Arq.Inv { s.a with segs := s.a.segs ++ [p] } :=
      Arq.accept_inv (.write p) h.arq (by simp [Arq.accept])
    refine ⟨ha, h.drained, h.hand, h.readLe, h.eofI, h.sentReq, ?_, h.p2, h.p3, h.p4, ?_⟩
    · intro _ hs; rw [hcs] at hs; exact absurd hs (by simp)
    · intro hp _ hk hr; have := h.p4 hp hk hr; rw [hcs] at this; exact absurd this (by simp)
  | sendNew p hc hp =>
    have hlen : s.a.qLo < s.a.segs.length := (List.getElem?_eq_some_iff.mp hp).1
    have ha : Arq.Inv { s.a with qLo := s.a.qLo + 1, netData := ⟨s.a.qLo, p⟩ :: s.a.netData,
                                  sent := ⟨s.a.qLo, p⟩ :: s.a.sent } :=
      Arq.accept_inv (.send s.a.qLo p) h.arq (by simp [Arq.accept, hp])
    refine ⟨ha, h.drained, h.hand, h.readLe, h.eofI, h.sentReq, ?_, h.p2, h.p3, h.p4, ?_⟩
    · intro hp' hs; have := h.p1 hp' hs; omega
    · intro hp' ho hk hr
      have := h.p1 hp' (h.p4 hp' hk hr); omega
  | retransmit k p hc hk hp =>
    have hne : k ≠ s.a.qLo := by omega
    have ha : Arq.Inv { s.a with netData := ⟨k, p⟩ :: s.a.netData, sent := ⟨k, p⟩ :: s.a.sent } :=
      Arq.accept_inv (.send k p) h.arq (by simp [Arq.accept, hp, hne, hk.2])
    exact ⟨ha, h.drained, h.hand, h.readLe, h.eofI, h.sentReq, h.p1, h.p2, h.p3, h.p4, h.o1⟩
  | dropData m =>
    have ha := Arq.step_inv (W := 1) h.arq (Arq.Step.dropData s.a m)
    exact ⟨ha, h.drained, h.hand, h.readLe, h.eofI, h.sentReq, h.p1, h.p2, h.p3, h.p4, h.o1⟩
  | replay m hm =>
    have ha : Arq.Inv { s.a with netData := m :: s.a.netData } := by
      refine ⟨h.arq.order, ?_, h.arq.buf, h.arq.deliv, h.arq.acks, h.arq.hist, h.arq.ackHist⟩
      intro x hx
      simp only [List.mem_cons] at hx
      rcases hx with rfl | hx
      · exact h.arq.hist _ hm
      · exact h.arq.net x hx
    exact ⟨ha, h.drained, h.hand, h.readLe, h.eofI, h.sentReq, h.p1, h.p2, h.p3, h.p4, h.o1⟩
  | recvData m hm =>
    by_cases hr : s.rClosed = true
    · rw [if_pos hr]
      have ha := Arq.step_inv (W := 1) h.arq (Arq.Step.dropData s.a m)
      exact ⟨ha, h.drained, h.hand, h.readLe, h.eofI, h.sentReq, h.p1, h.p2, h.p3, h.p4, h.o1⟩
    · have hr' : s.rClosed = false := by simpa using hr
      rw [if_neg hr]
      have ha := Arq.step_inv (W := 1) h.arq (Arq.Step.recvData s.a m hm)
      have hmono := Arq.drain_mono (s.a.recvBuf.length + 2)
        { s.a with netData := s.a.netData.erase m,
                   recvBuf := if m.seq < s.a.nextRecv then s.a.recvBuf else m :: s.a.recvBuf }
      have hpre := drain_delivered_prefix (s.a.recvBuf.length + 2)
        { s.a with netData := s.a.netData.erase m,
                   recvBuf := if m.seq < s.a.nextRecv then s.a.recvBuf else m :: s.a.recvBuf }
      refine ⟨ha, ?_, ?_, ?_, ?_, h.sentReq, ?_, h.p2, h.p3, ?_, ?_⟩
      · unfold Arq.recv
        apply drain_drained
        simp only
        split <;> simp <;> omega
      · unfold Arq.recv
        apply drain_hand
        intro j hj
        simp only [List.mem_cons] at hj
        simp only
        rcases hj with rfl | hj
        · by_cases hlt : m.seq < s.a.nextRecv
          · left; exact hlt
          · right; exact ⟨m, by simp [hlt], rfl⟩
        · rcases h.hand j hj with h1 | ⟨m', hm', hs'⟩
          · left; exact h1
          · right
            refine ⟨m', ?_, hs'⟩
            split
            · exact hm'
            · simp [hm']
      · unfold Arq.recv
        obtain ⟨ex, hex⟩ := hpre
        simp only at hex ⊢
        rw [hex]
        have := h.readLe
        simp; omega
      · intro he
        exact absurd (h.eofI he).1 hr
      · intro hp hs
        unfold Arq.recv
        rw [hmono.2.2.1, hmono.2.1]
        exact h.p1 hp hs
      · intro hp _ hrc; exact absurd hrc hr
      · intro _ _ _ hrc; exact absurd hrc hr
  | ack a ha' =>
    have ha : Arq.Inv { s.a with netAck := a :: s.a.netAck, acked := a :: s.a.acked } :=
      Arq.accept_inv (.ack a) h.arq (by simp [Arq.accept, ha'])
    exact ⟨ha, h.drained, h.hand, h.readLe, h.eofI, h.sentReq, h.p1, h.p2, h.p3, h.p4, h.o1⟩
  | dropAck a =>
    have ha := Arq.step_inv (W := 1) h.arq (Arq.Step.dropAck s.a a)
    exact ⟨ha, h.drained, h.hand, h.readLe, h.eofI, h.sentReq, h.p1, h.p2, h.p3, h.p4, h.o1⟩
  | recvAck a ha' =>
    have ha : Arq.Inv { s.a with lo := max s.a.lo (min a s.a.qLo) } :=
      Arq.accept_inv (.ackIn a) h.arq (by simp [Arq.accept, ha'])
    exact ⟨ha, h.drained, h.hand, h.readLe, h.eofI, h.sentReq, h.p1, h.p2, h.p3, h.p4, h.o1⟩
  | closeCall hcr =>
    exact ⟨h.arq, h.drained, h.hand, h.readLe, h.eofI, fun _ => rfl, h.p1, h.p2, h.p3, h.p4, h.o1⟩
  | sendClose hcr hc hq =>
    refine ⟨h.arq, h.drained, h.hand, h.readLe, h.eofI, fun _ => hcr, fun _ _ => hq, fun _ _ => rfl,
      fun _ _ => rfl, fun _ _ _ => rfl, h.o1⟩
  | forceClose hp hcr hc =>
    refine ⟨h.arq, h.drained, h.hand, h.readLe, h.eofI, fun _ => hcr, ?_, ?_, ?_, ?_, ?_⟩ <;>
      (intro hp'; rw [hp] at hp'; exact absurd hp' (by simp))
  | discard hs =>
    exact ⟨h.arq, h.drained, h.hand, h.readLe, h.eofI, h.sentReq, h.p1, fun _ _ => hs, h.p3, h.p4, h.o1⟩
  | abandon hp hcr =>
    refine ⟨h.arq, h.drained, h.hand, h.readLe, h.eofI, h.sentReq, ?_, ?_, ?_, ?_, ?_⟩ <;>
      (intro hp'; rw [hp] at hp'; exact absurd hp' (by simp))
  | underlayClose hw =>
    exact ⟨h.arq, h.drained, h.hand, h.readLe, h.eofI, h.sentReq, h.p1, h.p2, fun hp _ => h.p2 hp hw, h.p4, h.o1⟩
  | dropClose hn =>
    refine ⟨h.arq, h.drained, h.hand, h.readLe, h.eofI, h.sentReq, h.p1, h.p2, ?_, h.p4, h.o1⟩
    intro hp _; exact h.p3 hp hn
  | dupClose hs =>
    exact ⟨h.arq, h.drained, h.hand, h.readLe, h.eofI, h.sentReq, h.p1, h.p2, fun _ _ => hs, h.p4, h.o1⟩
  | recvClose hn ho =>
    refine ⟨h.arq, h.drained, h.hand, h.readLe, ?_, h.sentReq, h.p1, h.p2, ?_, ?_, ?_⟩
    · intro he; exact ⟨rfl, (h.eofI he).2⟩
    · intro hp _; exact h.p3 hp hn
    · intro hp _ _; exact h.p3 hp hn
    · intro hp hord _ _
      have hq := h.p1 hp (h.p3 hp hn)
      have := all_handed h.drained h.hand (ho hord)
      have := h.arq.order
      simp only
      omega
  | localClose hk =>
    refine ⟨h.arq, h.drained, h.hand, h.readLe, ?_, h.sentReq, h.p1, h.p2, h.p3, ?_, ?_⟩
    · intro he; exact ⟨rfl, (h.eofI he).2⟩
    · intro _ hk'; rw [hk] at hk'; exact absurd hk' (by simp)
    · intro _ _ hk'; rw [hk] at hk'; exact absurd hk' (by simp)
  | read hlt =>
    refine ⟨h.arq, h.drained, h.hand, ?_, ?_, h.sentReq, h.p1, h.p2, h.p3, h.p4, h.o1⟩
    · simp only; omega
    · intro he
      have := (h.eofI he).2
      omega
  | readEOF hpos hc =>
    exact ⟨h.arq, h.drained, h.hand, h.readLe, fun _ => ⟨hc, hpos⟩, h.sentReq, h.p1, h.p2, h.p3, h.p4, h.o1⟩

theorem reach_cinv {E : Env} {s : St} (h : Reach E s) : CInv E s := by
  induction h with
  | init => exact cinv_init E
  | step _ st ih => exact step_cinv ih st

/-- relaxing the assumptions only adds behaviours -/
theorem step_asIs {E : Env} {s t : St} (st : Step E s t) : Step asIs s t := by
  cases st with
  | write p h => exact Step.write s p h
  | sendNew p hc h => exact Step.sendNew s p hc h
  | retransmit k p hc hk h => exact Step.retransmit s k p hc hk h
  | dropData m => exact Step.dropData s m
  | replay m h => exact Step.replay s m h
  | recvData m h => exact Step.recvData s m h
  | ack a h => exact Step.ack s a h
  | dropAck a => exact Step.dropAck s a
  | recvAck a h => exact Step.recvAck s a h
  | closeCall h => exact Step.closeCall s h
  | sendClose h hc hq => exact Step.sendClose s h hc hq
  | forceClose hp h hc => exact Step.forceClose s rfl h hc
  | discard h => exact Step.discard s h
  | abandon hp h => exact Step.abandon s rfl h
  | underlayClose h => exact Step.underlayClose s h
  | dropClose h => exact Step.dropClose s h
  | dupClose h => exact Step.dupClose s h
  | recvClose h ho => exact Step.recvClose s h (by intro hf; simp [asIs] at hf)
  | localClose hk => exact Step.localClose s rfl
  | read h => exact Step.read s h
  | readEOF h hc => exact Step.readEOF s h hc

theorem reach_asIs {E : Env} {s : St} (h : Reach E s) : Reach asIs s := by
  induction h with
  | init => exact Reach.init
  | step _ st ih => exact Reach.step ih (step_asIs st)

end Mieru.Close
