import Mieru.Model.Quota
import Mieru.Proofs.Counter
/-! # Lemmas about the quota decision (C19) -/
namespace Mieru.Proofs.Quota
open Mieru.Counter Mieru.Quota Mieru.Proofs.Counter

theorem checkQuota_false_iff (policy : Option Policy) (user : String) (metrics : String → Option UserMetrics) (now : Int) :
    checkQuota policy user metrics now = false ↔
      ∃ p m, policy = some p ∧ p.name = user ∧ metrics user = some m ∧ ∃ q ∈ p.quotas, exceeded q m now := by
  unfold checkQuota
  cases policy with
  | none => simp
  | some p =>
    simp only
    by_cases hn : p.name = user
    · simp only [hn, ne_eq, not_true_eq_false, if_false]
      by_cases he : p.quotas.isEmpty
      · simp only [he, if_true]
        have : p.quotas = [] := List.isEmpty_iff.mp he
        simp [this]
      · simp only [he]
        cases hm : metrics user with
        | none => simp
        | some m =>
          simp only [Bool.false_eq_true, if_false, Bool.not_eq_false', List.any_eq_true, decide_eq_true_eq]
          constructor
          · intro ⟨q, hq, hex⟩; exact ⟨p, m, rfl, hn, rfl, q, hq, hex⟩
          · intro ⟨p', m', hp', _, hm', q, hq, hex⟩
            cases hp'; cases hm'
            exact ⟨q, hq, hex⟩
    · simp only [ne_eq, hn, not_false_eq_true, if_true]
      constructor
      · intro h; cases h
      · intro ⟨p', _, hp', hn', _⟩
        cases hp'; exact absurd hn' hn

theorem refused_iff (sv : Server) (user : String) (now : Int) :
    refused sv user now = true ↔
      user ≠ "" ∧ ∃ p m, sv.policies user = some p ∧ p.name = user ∧ sv.metrics user = some m ∧
        ∃ q ∈ p.quotas, Int.tdiv (totalBytes q m now) bytesPerMB > q.megabytes := by
  unfold refused
  simp only [Bool.and_eq_true, decide_eq_true_eq, Bool.not_eq_true', checkQuota_false_iff]
  rfl

theorem refused_isolated (sv : Server) (user other : String) (hne : other ≠ user)
    (p' : Option Policy) (m' : Option UserMetrics) (now : Int) :
    refused { policies := fun u => if u = other then p' else sv.policies u,
              metrics := fun u => if u = other then m' else sv.metrics u } user now
      = refused sv user now := by
  have hu : ¬ user = other := fun h => hne h.symm
  unfold refused checkQuota
  simp only [hu, if_false]

theorem tdiv_mono (a b : Int) (ha : 0 ≤ a) (hab : a ≤ b) : Int.tdiv a bytesPerMB ≤ b / bytesPerMB := by
  rw [Int.tdiv_eq_ediv_of_nonneg ha]
  exact Int.ediv_le_ediv (by unfold bytesPerMB; omega) hab

theorem within_allowance (sv : Server) (user : String) (now : Int) (p : Policy) (m : UserMetrics)
    (hp : sv.policies user = some p) (hm : sv.metrics user = some m)
    (hup : NonNeg m.up) (hdown : NonNeg m.down)
    (hall : ∀ q ∈ p.quotas, (sumD m.up + sumD m.down) / bytesPerMB ≤ q.megabytes) :
    refused sv user now = false := by
  cases h : refused sv user now with
  | false => rfl
  | true =>
    obtain ⟨_, p', m', hp', _, hm', q, hq, hex⟩ := (refused_iff sv user now).mp h
    rw [hp] at hp'; rw [hm] at hm'
    cases hp'; cases hm'
    have h1 := range_le_total m.up (afterIdx m.up (now - clampDays q.days * nsPerDay)) (afterIdx m.up now - afterIdx m.up (now - clampDays q.days * nsPerDay)) hup
    have h2 := range_le_total m.down (afterIdx m.down (now - clampDays q.days * nsPerDay)) (afterIdx m.down now - afterIdx m.down (now - clampDays q.days * nsPerDay)) hdown
    have h3 := range_nonneg m.up (afterIdx m.up (now - clampDays q.days * nsPerDay)) (afterIdx m.up now - afterIdx m.up (now - clampDays q.days * nsPerDay)) hup
    have h4 := range_nonneg m.down (afterIdx m.down (now - clampDays q.days * nsPerDay)) (afterIdx m.down now - afterIdx m.down (now - clampDays q.days * nsPerDay)) hdown
    have htot : totalBytes q m now ≤ sumD m.up + sumD m.down := by unfold totalBytes window; omega
    have hnn : 0 ≤ totalBytes q m now := by unfold totalBytes window; omega
    have := tdiv_mono _ _ hnn htot
    have := hall q hq
    omega

end Mieru.Proofs.Quota
