import Mieru.Proofs.UnderlayCloseInv
/-!
"Close always completes and leaves nothing running", for the underlay transition system:
when nothing can move any more after somebody called `Close` (every own step decreases the measure,
Proofs/UnderlayCloseMeasure), every caller has returned, `done` is closed, every session that was
requested to close is closed with both loops gone, the event loop has left and closed the socket, and
Mux.Close has returned — provided the code has the three properties of `Shape.sound`.
-/
set_option linter.unusedSimpArgs false
namespace Mieru.UClose

/-- the shape under which the event loop cannot park after Close -/
def Shape.sound (sh : Shape) : Prop := sh.checkAfterArm = true ∧ sh.pokeAfterDone = true ∧ sh.drainChecked = true

/-- what the transport looks like when nothing can move any more after somebody called Close -/
structure Settled (s : St) : Prop where
  done : s.done = true
  loop : s.loop = .exited
  sock : s.sock = true
  callers : ∀ k, s.cl k = .idle ∨ s.cl k = .ret
  mux : s.mux = .idle ∨ s.mux = .ret
  sessions : ∀ i, i < s.n → s.req i = true → gone s.closed s.run s.net i
  ranged : ∀ i, i < s.snap → gone s.closed s.run s.net i

theorem settled_of_quiescent {sh : Shape} {m : Nat} {s : St} (hsh : sh.sound) (h2 : 2 ≤ m) (inv : AllInv sh m s)
    (hstart : (∃ k, k < m ∧ s.cl k ≠ .idle) ∨ s.mux ≠ .idle) (hq : Quiescent sh s) : Settled s := by
  obtain ⟨hA, hS, hB, hC, hD, hm⟩ := inv
  have hm0 : 0 < s.m := by omega
  have hm1 : 1 < s.m := by omega
  -- a blocked `wg.Wait()` means a session step is enabled
  have sessStuck : ∀ i, i < s.n → s.req i = true → (s.stream = true → s.wpast = true) → gone s.closed s.run s.net i := by
    intro i hi hr hw
    cases hc : s.closed i with
    | false => exact (hq _ (OwnStep.finClose s i hi hr hc)).elim
    | true =>
      refine ⟨hc, ?_, ?_⟩
      · cases hrun : s.run i with
        | zero => rfl
        | succ r => exact (hq _ (OwnStep.loopExit s i hi hc (by omega))).elim
      · cases hnet : s.net i with
        | zero => rfl
        | succ r =>
          cases hs : s.stream with
          | false => have := hC.pn hs i; omega
          | true => exact (hq _ (OwnStep.netWake s i hi (by omega) (hw hs))).elim
  -- nobody holds the mutex
  have hnone : s.holder = none := by
    cases hh : s.holder with
    | none => rfl
    | some j =>
      obtain ⟨hj, hold⟩ := hA.held j hh
      cases hc : s.cl j with
      | idle => rw [hc] at hold; cases hold
      | lock => rw [hc] at hold; cases hold
      | ret => rw [hc] at hold; cases hold
      | chk =>
        cases hd : s.done with
        | true => exact (hq _ (OwnStep.chkDone s j hj hc hd)).elim
        | false => exact (hq _ (OwnStep.chkOpen s j hj hc hd)).elim
      | poke1 => exact (hq _ (OwnStep.poke1 s j hj hc)).elim
      | sess i b =>
        by_cases hi : i < b
        · exact (hq _ (OwnStep.sessClose s j i b hj hc hi)).elim
        · exact (hq _ (OwnStep.sessEnd s j i b hj hc (by omega))).elim
      | wait i b =>
        obtain ⟨hi, hr⟩ := hB.wt j i b hc
        obtain ⟨e1, _, e3, _⟩ := hB.rng j i b (Or.inr hc)
        have hn : i < s.n := by have := hB.sn; omega
        obtain ⟨g1, g2, g3⟩ := sessStuck i hn hr e3
        exact (hq _ (OwnStep.wgWait s j i b hj hc hi g1 g2 g3)).elim
      | closeDone => exact (hq _ (OwnStep.closeDone s j hj hc)).elim
      | poke2 => exact (hq _ (OwnStep.poke2 s j hj hc)).elim
      | unlock => exact (hq _ (OwnStep.unlock s j hj hc)).elim
  -- so every caller is idle or has returned
  have hcallers : ∀ k, s.cl k = .idle ∨ s.cl k = .ret := by
    intro k
    by_cases hk : k < s.m
    · cases hc : s.cl k with
      | idle => exact Or.inl rfl
      | ret => exact Or.inr rfl
      | lock => exact (hq _ (OwnStep.lock s k hk hc hnone)).elim
      | _ =>
        have := hA.hold k (by rw [hc]; rfl)
        rw [hnone] at this; cases this
    · exact Or.inl (hA.out k (by omega))
  -- Mux.Close is not in the middle of anything either (except waiting for the loop)
  have hmux : s.mux = .idle ∨ s.mux = .wait ∨ s.mux = .ret := by
    cases hx : s.mux with
    | idle => simp
    | wait => simp
    | ret => simp
    | cancel => exact (hq _ (OwnStep.muxCancel s hx)).elim
    | call => exact (hq _ (OwnStep.muxCall s hm1 hx (hS.m1a (by simp [hx])))).elim
    | closing =>
      rcases hcallers 1 with h1 | h1
      · exact (hS.m1b hx h1).elim
      · exact (hq _ (OwnStep.muxClosed s hx h1)).elim
  -- Close has been called, so `done` is closed and the second wake-up has happened
  have hdone : s.done = true := by
    rcases hstart with ⟨k, _, hk⟩ | hx
    · rcases hcallers k with h1 | h1
      · exact (hk h1).elim
      · exact hB.ur k (Or.inr h1)
    · rcases hmux with h1 | h1 | h1
      · exact (hx h1).elim
      · exact hB.ur 1 (Or.inr (hS.m1c (Or.inl h1)))
      · exact hB.ur 1 (Or.inr (hS.m1c (Or.inr h1)))
  have hpoked : s.poked2 = true := by
    rcases hB.pk hsh.2.1 hdone with h1 | ⟨k, _, hk⟩
    · exact h1
    · rcases hcallers k with h1 | h1 <;> rw [hk] at h1 <;> cases h1
  have hw : s.stream = true → s.wpast = true := (hB.dn hdone).1
  have hsess : ∀ i, i < s.n → s.req i = true → gone s.closed s.run s.net i := fun i hi hr => sessStuck i hi hr hw
  have hclean : cleanable s := fun i hi hc => ⟨(hsess i hi (hC.cr i hc)).2.1, (hsess i hi (hC.cr i hc)).2.2⟩
  -- the event loop has left
  have hloop : s.loop = .exited := by
    cases hl : s.loop with
    | exited => rfl
    | top =>
      cases hc : s.ctx with
      | true =>
        cases hs : s.stream with
        | true => exact (hq _ (OwnStep.topCtxStream s hl hc hs)).elim
        | false => exact (hq _ (OwnStep.topCtxPacket s hl hc hs)).elim
      | false => exact (hq _ (OwnStep.topDone s hl hc hdone)).elim
    | pre => exact (hq _ (OwnStep.preClosed s hl hdone)).elim
    | arm => exact (hq _ (OwnStep.arm s hl)).elim
    | check => exact (hq _ (OwnStep.checkDone s hl hdone)).elim
    | read => exact (hq _ (OwnStep.readTimeout s hl (hD.rd hsh.1 hpoked (Or.inl hl)))).elim
    | readMore => exact (hq _ (OwnStep.readMoreTimeout s hl (hD.rd hsh.1 hpoked (Or.inr hl)))).elim
    | errc c => exact (hq _ (OwnStep.errDone s c hl hdone)).elim
    | drainArm => exact (hq _ (OwnStep.drainArm s hl)).elim
    | drain => exact (hq _ (OwnStep.drainTimeout s hl (hD.dr hsh.2.2 hpoked hl))).elim
    | deliver i => exact (hq _ (OwnStep.deliverGiveUp s i hl (Or.inr hdone))).elim
    | ready => exact (hq _ (OwnStep.readyGiveUp s hl hdone)).elim
    | clean r => exact (hq _ (OwnStep.cleanDone s r hl hclean)).elim
    | ctxClose => exact (hq _ (OwnStep.ctxCloseCall s hm0 hl (hS.out0 (by rw [hl]; rfl)))).elim
    | retn => exact (hq _ (OwnStep.returned s hl)).elim
    | ownClose => exact (hq _ (OwnStep.ownCloseCall s hm0 hl (hS.out0 (by rw [hl]; rfl)))).elim
    | inClose a =>
      rcases hcallers 0 with h1 | h1
      · exact ((hS.in0 a hl).1 h1).elim
      · exact (hq _ (OwnStep.closeReturned s a hm0 hl h1)).elim
  refine ⟨hdone, hloop, hS.sk (Or.inl hloop), hcallers, ?_, hsess, (hB.dn hdone).2⟩
  rcases hmux with h1 | h1 | h1
  · exact Or.inl h1
  · exact (hq _ (OwnStep.muxWait s h1 (Or.inr hloop))).elim
  · exact Or.inr h1

end Mieru.UClose
