import Mieru.Model.Rto
/-! Proofs about the RTO / back-off arithmetic of `Mieru.Model.Rto`. -/
namespace Mieru.Rto

/-! ## RTO -/

theorem rto_formula (srtt mdev mad : Nat) :
    rto srtt mdev mad =
      if srtt = 0 then 2000000000 else 3 * (srtt + max (4 * mdev) 10000000 + mad) / 2 := by
  simp [rto, rtoBase, defaultInitialRTT, sec, ms, minVarTerm, devFactor, backOffNum, backOffDen]

theorem rto_ge_min (srtt mdev : Nat) : rtoMin ≤ rto srtt mdev maxAckDelay := by
  rw [rto_formula]; simp only [rtoMin, maxAckDelay, ms]
  split <;> omega

theorem rto_pos_srtt (srtt mdev : Nat) (h : 0 < srtt) : rtoMin < rto srtt mdev maxAckDelay := by
  rw [rto_formula]; simp only [rtoMin, maxAckDelay, ms]
  split <;> omega

theorem rto_mono_mdev (srtt m m' mad : Nat) (h : m ≤ m') : rto srtt m mad ≤ rto srtt m' mad := by
  rw [rto_formula, rto_formula]
  split <;> omega

/-- monotone in srtt among states WITH a sample (`srtt = 0` is the special 2 s case) -/
theorem rto_mono_srtt (s s' mdev mad : Nat) (h0 : 0 < s) (h : s ≤ s') : rto s mdev mad ≤ rto s' mdev mad := by
  rw [rto_formula, rto_formula]
  have : ¬ s = 0 := by omega
  have : ¬ s' = 0 := by omega
  simp only [*, if_false]
  omega

/-- `RTO()` has no upper clamp: it exceeds any bound for a large enough smoothed RTT -/
theorem rto_unbounded (B : Nat) : B < rto (B + 1) 0 maxAckDelay := by
  rw [rto_formula]; simp only [maxAckDelay, ms]
  split <;> omega

/-! ## Back-off factor -/

theorem factor_pos (k : Nat) : 1 ≤ factor k := by
  unfold factor backOffNum backOffDen
  have h2 : 0 < 2 ^ k := Nat.pow_pos (by decide)
  rw [Nat.le_div_iff_mul_le h2]
  have := Nat.pow_le_pow_left (show 2 ≤ 3 by decide) k
  omega

theorem factor_succ (k : Nat) : factor k ≤ factor (k + 1) := by
  unfold factor backOffNum backOffDen
  have h2 : 0 < 2 ^ (k + 1) := Nat.pow_pos (by decide)
  rw [Nat.le_div_iff_mul_le h2, Nat.pow_succ, Nat.pow_succ, ← Nat.mul_assoc]
  have h := Nat.div_mul_le_self (3 ^ k) (2 ^ k)
  generalize 3 ^ k / 2 ^ k * 2 ^ k = m at *
  generalize 3 ^ k = n at *
  omega

theorem factor_mono {j k : Nat} (h : j ≤ k) : factor j ≤ factor k := by
  induction h with
  | refl => exact Nat.le_refl _
  | step _ ih => exact Nat.le_trans ih (factor_succ _)

/-! ## txTimeout -/

theorem txTimeout_le_max (r k : Nat) : txTimeout r k ≤ maxBackOff := Nat.min_le_right _ _

theorem txTimeout_mono_r {r r' : Nat} (k : Nat) (h : r ≤ r') : txTimeout r k ≤ txTimeout r' k := by
  unfold txTimeout
  have := Nat.mul_le_mul_right (factor k) h
  omega

theorem txTimeout_mono_k (r : Nat) {j k : Nat} (h : j ≤ k) : txTimeout r j ≤ txTimeout r k := by
  unfold txTimeout
  have := Nat.mul_le_mul_left r (factor_mono h)
  omega

theorem txTimeout_ge (r k : Nat) (hr : rtoMin ≤ r) :
    min (rtoMin * factor k) maxBackOff ≤ txTimeout r k ∧ rtoMin ≤ txTimeout r k := by
  have h1 := txTimeout_mono_r k hr
  refine ⟨h1, ?_⟩
  have hf := Nat.mul_le_mul_left rtoMin (factor_pos k)
  unfold txTimeout at *
  simp only [rtoMin, maxBackOff, sec] at *
  omega

/-! ## The scan's µs comparison implies the ns gap -/

/-- `now_µs − txTime_µs > txTimeout.Microseconds()` implies that more than `txTimeout` ns elapsed -/
theorem timedOut_gap (nowUs : Nat) (s : TSeg) (h : timedOut nowUs s = true) :
    s.txTimeUs * 1000 + s.txTimeoutNs < nowUs * 1000 := by
  simp only [timedOut, decide_eq_true_eq] at h
  omega

/-- the timed scan agrees with the untimed bookkeeping of `Mieru.Retx` whenever the segment is not abandoned -/
theorem scan_refines_retx (nowUs rtoNow : Nat) (s : TSeg) (h : s.r.txCount < txCountLimit) :
    (scan nowUs rtoNow s).r = Retx.step 3 1 s.r (.scan (timedOut nowUs s)) := by
  have h' : ¬ s.r.txCount ≥ txCountLimit := by omega
  unfold scan decision
  simp only [h', if_false]
  by_cases he : s.r.ackCount ≥ 3 ∧ s.r.txCount ≤ 1
  · simp only [he, and_self, if_true]
  · by_cases ht : timedOut nowUs s = true
    · simp only [he, if_false, ht, if_true]
    · simp only [he, if_false, ht, Retx.step]
      simp

/-- a scan that retransmits stores a timeout within the clamp, and at least the floor when RTO is -/
theorem scan_timeout_clamped (nowUs rtoNow : Nat) (s : TSeg)
    (hd : decision nowUs s = .early ∨ decision nowUs s = .timeout) :
    (scan nowUs rtoNow s).txTimeoutNs ≤ maxBackOff ∧ (scan nowUs rtoNow s).txTimeUs = nowUs ∧
    (rtoMin ≤ rtoNow → rtoMin ≤ (scan nowUs rtoNow s).txTimeoutNs) := by
  unfold scan
  rcases hd with hd | hd <;> simp only [hd] <;>
    exact ⟨txTimeout_le_max _ _, (by first | rfl | trivial), fun h => (txTimeout_ge _ _ h).2⟩

/-- the abandonment needs `txCountLimit` transmissions -/
theorem abandon_iff (nowUs : Nat) (s : TSeg) : decision nowUs s = .abandon ↔ txCountLimit ≤ s.r.txCount := by
  unfold decision
  constructor
  · intro x
    by_cases h : s.r.txCount ≥ txCountLimit
    · exact h
    · rw [if_neg h] at x
      split at x
      · cases x
      · split at x <;> cases x
  · intro x; rw [if_pos x]

/-! ## Time to abandonment -/

theorem sumTimeouts_mono (r r' : Nat) (h : r ≤ r') : ∀ n k, sumTimeouts r k n ≤ sumTimeouts r' k n := by
  intro n
  induction n with
  | zero => intro k; exact Nat.le_refl _
  | succ n ih =>
    intro k
    have := txTimeout_mono_r k h
    have := ih (k + 1)
    simp only [sumTimeouts]; omega

/-- Every schedule from transmission `k ≥ 2` on: the span is at least the sum of the floor timeouts, plus one ns
    per gap (the comparison is strict). -/
theorem span_lower (rmin : Nat) : ∀ (xs : List Tx) (k : Nat) (a : Tx), 2 ≤ k → Valid k a xs →
    rmin ≤ a.r → (∀ x ∈ xs, rmin ≤ x.r) →
    a.t + sumTimeouts rmin k xs.length + xs.length ≤ lastT a xs := by
  intro xs
  induction xs with
  | nil => intro k a _ _ _ _; simp [sumTimeouts, lastT]
  | cons b rest ih =>
    intro k a hk hv ha hall
    obtain ⟨hstep, hv'⟩ := hv
    have hb : rmin ≤ b.r := hall b (List.mem_cons_self ..)
    have hrest : ∀ x ∈ rest, rmin ≤ x.r := fun x hx => hall x (List.mem_cons_of_mem _ hx)
    have h := ih (k + 1) b (by omega) hv' hb hrest
    have hgap : a.t + txTimeout a.r k < b.t := by
      rcases hstep with ⟨h1, _⟩ | h2
      · omega
      · exact h2
    have := txTimeout_mono_r k ha
    simp only [sumTimeouts, lastT, List.length_cons] at *
    omega

/-- From the FIRST transmission: gap 1→2 may cost nothing (early retransmission); the rest as above. -/
theorem span_lower_from_first (rmin : Nat) (a b : Tx) (rest : List Tx) (hv : Valid 1 a (b :: rest))
    (hall : ∀ x ∈ b :: rest, rmin ≤ x.r) :
    a.t + sumTimeouts rmin 2 rest.length + rest.length ≤ lastT a (b :: rest) := by
  obtain ⟨hstep, hv'⟩ := hv
  have hb : rmin ≤ b.r := hall b (List.mem_cons_self ..)
  have hrest : ∀ x ∈ rest, rmin ≤ x.r := fun x hx => hall x (List.mem_cons_of_mem _ hx)
  have h := span_lower rmin rest 2 b (Nat.le_refl _) hv' hb hrest
  have : a.t ≤ b.t := by
    rcases hstep with ⟨_, h1⟩ | h2
    · exact h1
    · omega
  simp only [lastT]
  omega

theorem abandonLowerBound_value : abandonLowerBound = 61483000000 := by decide
theorem abandonLowerBoundInitial_value : abandonLowerBoundInitial = 170000000000 := by decide

/-- the tight schedule respects the rule … -/
theorem tight_valid (r : Nat) : ∀ n k t, Valid k ⟨t, r⟩ (tight r k t n) := by
  intro n
  induction n with
  | zero => intro k t; trivial
  | succ n ih =>
    intro k t
    refine ⟨?_, ih _ _⟩
    by_cases hk : k = 1
    · left; simp [hk]
    · right; simp [hk]

/-- … and meets the bound of `span_lower` with equality -/
theorem tight_last (r : Nat) : ∀ n k t, 2 ≤ k →
    lastT ⟨t, r⟩ (tight r k t n) = t + sumTimeouts r k n + n := by
  intro n
  induction n with
  | zero => intro k t _; simp [tight, lastT, sumTimeouts]
  | succ n ih =>
    intro k t hk
    have hk1 : ¬ k = 1 := by omega
    simp only [tight, lastT, sumTimeouts, hk1, if_false]
    rw [ih (k + 1) _ (by omega)]
    omega

theorem tight_all (r : Nat) : ∀ n k t, ∀ x ∈ tight r k t n, x.r = r := by
  intro n
  induction n with
  | zero => intro k t x hx; simp [tight] at hx
  | succ n ih =>
    intro k t x hx
    simp only [tight, List.mem_cons] at hx
    rcases hx with h | h
    · rw [h]
    · exact ih _ _ x h

end Mieru.Rto
