import Mieru.Model.Bits
/-!
# Bit lists against `Nat.testBit`, and a few value/shape lemmas (core Lean only)

Used by the word-level proofs of C17 (`Proofs/LowEntropyWord.lean`, `Proofs/LowEntropyGen.lean`).
-/
namespace Mieru.Bits
open Mieru

theorem getElem_ofNat (k n i : Nat) (h : i < (ofNat k n).length) : (ofNat k n)[i] = n.testBit i := by
  induction k generalizing n i with
  | zero => simp at h
  | succ k ih =>
    cases i with
    | zero => rcases Nat.mod_two_eq_zero_or_one n with h2 | h2 <;> simp [ofNat, Nat.testBit_zero, h2]
    | succ i =>
      simp only [ofNat, List.getElem_cons_succ]
      rw [ih]; rw [Nat.testBit_succ]

theorem testBit_toNat (l : List Bool) (i : Nat) : (toNat l).testBit i = l.getD i false := by
  induction l generalizing i with
  | nil => simp [toNat]
  | cons b l ih =>
    cases i with
    | zero =>
      simp only [toNat, Nat.testBit_zero, List.getD_cons_zero]
      cases b <;> simp <;> omega
    | succ i =>
      simp only [toNat, Nat.testBit_succ, List.getD_cons_succ]
      rw [← ih]
      congr 1
      cases b <;> simp <;> omega

theorem toNat_append (a b : List Bool) : toNat (a ++ b) = toNat a + 2 ^ a.length * toNat b := by
  induction a with
  | nil => simp [toNat]
  | cons x a ih =>
    simp only [List.cons_append, toNat, ih, List.length_cons, Nat.pow_succ]
    rw [Nat.mul_add, Nat.add_assoc]; congr 1
    rw [Nat.mul_comm (2 ^ a.length) 2, Nat.mul_assoc]

theorem toNat_replicate_false (k : Nat) : toNat (List.replicate k false) = 0 := by
  induction k with
  | zero => rfl
  | succ k ih => simp [List.replicate_succ, toNat, ih]

theorem toNat_replicate_true (k : Nat) : toNat (List.replicate k true) = 2 ^ k - 1 := by
  induction k with
  | zero => rfl
  | succ k ih =>
    simp only [List.replicate_succ, toNat, ih, if_true, Nat.pow_succ]
    have := Nat.two_pow_pos k; omega

/-- a bit list is determined by its length and its value -/
theorem eq_of_toNat_eq (a b : List Bool) (hl : a.length = b.length) (h : toNat a = toNat b) : a = b := by
  rw [← ofNat_toNat a, ← ofNat_toNat b, hl, h]

theorem ofNat_toNat_append_zeros (l : List Bool) (k : Nat) :
    ofNat (l.length + k) (toNat l) = l ++ List.replicate k false := by
  apply eq_of_toNat_eq
  · simp
  · rw [toNat_ofNat, toNat_append, toNat_replicate_false, Nat.mul_zero, Nat.add_zero]
    apply Nat.mod_eq_of_lt
    have := toNat_lt l
    calc toNat l < 2 ^ l.length := this
      _ ≤ 2 ^ (l.length + k) := Nat.pow_le_pow_right (by decide) (by omega)

theorem ofNat_toNat_take (l : List Bool) (k : Nat) (hk : k ≤ l.length) :
    ofNat k (toNat l) = l.take k := by
  apply eq_of_toNat_eq
  · simp; omega
  · rw [toNat_ofNat]
    conv => lhs; rw [← List.take_append_drop k l, toNat_append]
    have hlen : (l.take k).length = k := by simp; omega
    rw [hlen, Nat.add_mul_mod_self_left]
    apply Nat.mod_eq_of_lt
    have := toNat_lt (l.take k); rwa [hlen] at this

theorem ofNat_two_pow_sub_one (k n : Nat) (h : k ≤ n) :
    ofNat n (2 ^ k - 1) = List.replicate k true ++ List.replicate (n - k) false := by
  have := ofNat_toNat_append_zeros (List.replicate k true) (n - k)
  rw [toNat_replicate_true] at this
  simp only [List.length_replicate] at this
  rw [← this]; congr 1; omega

end Mieru.Bits
