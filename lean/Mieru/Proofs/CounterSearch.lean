import Mieru.Proofs.Counter
/-!
# `DeltaBetween` on a sorted history is the traffic stamped inside the window (C19)

`sort.Search` finds the first index at which a monotone predicate holds; on a history sorted by time
the two searches of `DeltaBetween(t1, t2)` delimit exactly the entries with `t1 < time ≤ t2`.
-/
namespace Mieru.Proofs.Counter
open Mieru.Counter

def Mono (f : Nat → Bool) : Prop := ∀ i j, i ≤ j → f i = true → f j = true

theorem searchLoop_spec (f : Nat → Bool) (hm : Mono f) (n : Nat) (fuel i j : Nat)
    (hij : i ≤ j) (hjn : j ≤ n) (hfuel : j - i < fuel)
    (hlo : ∀ k, k < i → f k = false) (hhi : ∀ k, j ≤ k → k < n → f k = true) :
    i ≤ searchLoop f fuel i j ∧ searchLoop f fuel i j ≤ j ∧
    (∀ k, k < searchLoop f fuel i j → f k = false) ∧
    (∀ k, searchLoop f fuel i j ≤ k → k < n → f k = true) := by
  induction fuel generalizing i j with
  | zero => omega
  | succ fuel ih =>
    unfold searchLoop
    split
    · rename_i hlt
      have hmid1 : i ≤ (i + j) / 2 := by omega
      have hmid2 : (i + j) / 2 < j := by omega
      simp only
      split
      · rename_i hf
        have hf' : f ((i + j) / 2) = false := by simpa using hf
        have := ih ((i + j) / 2 + 1) j (by omega) hjn (by omega) (by
          intro k hk
          cases hfk : f k with
          | false => rfl
          | true =>
            have := hm k ((i + j) / 2) (by omega) hfk
            rw [hf'] at this; cases this) hhi
        exact ⟨by omega, this.2.1, this.2.2⟩
      · rename_i hf
        have hf' : f ((i + j) / 2) = true := by simpa using hf
        have := ih i ((i + j) / 2) hmid1 (by omega) (by omega) hlo (by
          intro k hk _
          exact hm _ k hk hf')
        exact ⟨this.1, by omega, this.2.2⟩
    · have : i = j := by omega
      subst this
      exact ⟨Nat.le_refl _, Nat.le_refl _, hlo, hhi⟩

theorem search_spec (n : Nat) (f : Nat → Bool) (hm : Mono f) :
    search n f ≤ n ∧ (∀ k, k < search n f → f k = false) ∧ (∀ k, search n f ≤ k → k < n → f k = true) := by
  unfold search
  have := searchLoop_spec f hm n (n + 1) 0 n (Nat.zero_le _) (Nat.le_refl _) (by omega) (by intro k hk; omega) (by intro k hk hk'; omega)
  exact ⟨this.2.1, this.2.2⟩

def afterPred (h : List Entry) (t : Int) : Nat → Bool :=
  fun i => match h[i]? with | some e => decide (e.t * nsPerMs > t) | none => true

theorem afterPred_mono (h : List Entry) (t : Int) (hs : Sorted h) : Mono (afterPred h t) := by
  intro i j hij hfi
  unfold afterPred at *
  cases hj : h[j]? with
  | none => rfl
  | some ej =>
    have hjlt : j < h.length := by
      rcases Nat.lt_or_ge j h.length with h1 | h1
      · exact h1
      · rw [List.getElem?_eq_none h1] at hj; cases hj
    have hilt : i < h.length := by omega
    rw [List.getElem?_eq_getElem hilt] at hfi
    rw [List.getElem?_eq_getElem hjlt] at hj
    cases hj
    simp only [decide_eq_true_eq] at hfi ⊢
    rcases Nat.lt_or_ge i j with h1 | h1
    · have := List.pairwise_iff_getElem.mp hs i j hilt hjlt h1
      have : h[i].t * nsPerMs ≤ h[j].t * nsPerMs := Int.mul_le_mul_of_nonneg_right this (by unfold nsPerMs; omega)
      omega
    · have : i = j := by omega
      subst this; exact hfi

/-- what the search finds on a sorted history -/
theorem afterIdx_spec (h : List Entry) (t : Int) (hs : Sorted h) :
    afterIdx h t ≤ h.length ∧
    (∀ e ∈ h.take (afterIdx h t), e.t * nsPerMs ≤ t) ∧ (∀ e ∈ h.drop (afterIdx h t), e.t * nsPerMs > t) := by
  have hspec := search_spec h.length (afterPred h t) (afterPred_mono h t hs)
  have heq : afterIdx h t = search h.length (afterPred h t) := rfl
  rw [heq]
  generalize search h.length (afterPred h t) = r at hspec ⊢
  refine ⟨hspec.1, ?_, ?_⟩
  · intro e he
    obtain ⟨k, hk, rfl⟩ := List.getElem_of_mem he
    have hk' : k < r := by simp at hk; omega
    have := hspec.2.1 k hk'
    unfold afterPred at this
    have hlt : k < h.length := by omega
    rw [List.getElem?_eq_getElem hlt] at this
    simp only [decide_eq_false_iff_not] at this
    simp only [List.getElem_take]
    omega
  · intro e he
    obtain ⟨k, hk, rfl⟩ := List.getElem_of_mem he
    simp only [List.length_drop] at hk
    have hlt : r + k < h.length := by omega
    have := hspec.2.2 (r + k) (by omega) hlt
    unfold afterPred at this
    rw [List.getElem?_eq_getElem hlt] at this
    simp only [decide_eq_true_eq] at this
    simp only [List.getElem_drop]
    exact this

theorem filter_all (l : List Entry) (P : Entry → Bool) (h : ∀ e ∈ l, P e = true) : l.filter P = l :=
  List.filter_eq_self.mpr h

theorem filter_none (l : List Entry) (P : Entry → Bool) (h : ∀ e ∈ l, P e = false) : l.filter P = [] := by
  apply List.filter_eq_nil_iff.mpr
  intro e he; simp [h e he]

/-- `DeltaBetween(t1, t2)` on a sorted history: the deltas of the entries stamped in `(t1, t2]` -/
theorem window_sorted (h : List Entry) (t1 t2 : Int) (hs : Sorted h) (h12 : t1 ≤ t2) :
    window h t1 t2 = sumD (h.filter fun e => decide (t1 < e.t * nsPerMs ∧ e.t * nsPerMs ≤ t2)) := by
  obtain ⟨ha, ha1, ha2⟩ := afterIdx_spec h t1 hs
  obtain ⟨hb, hb1, hb2⟩ := afterIdx_spec h t2 hs
  generalize hA : afterIdx h t1 = a at *
  generalize hB : afterIdx h t2 = b at *
  -- a ≤ b
  have hab : a ≤ b := by
    rcases Nat.lt_or_ge b a with h1 | h1
    case inr => exact h1
    case inl =>
      exfalso
      have hblt : b < h.length := by omega
      have m1 : h[b] ∈ h.take a := by
        rw [List.mem_take_iff_getElem]
        exact ⟨b, by omega, rfl⟩
      have m2 : h[b] ∈ h.drop b := by
        rw [List.mem_drop_iff_getElem]
        exact ⟨0, by simpa using hblt, by simp⟩
      have := ha1 _ m1
      have := hb2 _ m2
      omega
  unfold window
  rw [hA, hB]
  -- split h = take a ++ (drop a).take (b-a) ++ drop b
  have hsplit : h = h.take a ++ ((h.drop a).take (b - a) ++ h.drop b) := by
    have h1 : h.drop a = (h.drop a).take (b - a) ++ (h.drop a).drop (b - a) := (List.take_append_drop _ _).symm
    have h2 : (h.drop a).drop (b - a) = h.drop b := by rw [List.drop_drop]; congr 1; omega
    rw [h2] at h1
    conv => lhs; rw [← List.take_append_drop a h, h1]
  have hmid : ∀ e ∈ (h.drop a).take (b - a), t1 < e.t * nsPerMs ∧ e.t * nsPerMs ≤ t2 := by
    intro e he
    refine ⟨ha2 e (List.mem_of_mem_take he), ?_⟩
    apply hb1 e
    have : (h.drop a).take (b - a) = (h.take b).drop a := by
      rw [List.drop_take]
    rw [this] at he
    exact List.mem_of_mem_drop he
  conv => rhs; rw [hsplit]
  rw [List.filter_append, List.filter_append]
  rw [filter_none (h.take a) _ (by intro e he; have := ha1 e he; simp; omega)]
  rw [filter_none (h.drop b) _ (by intro e he; have := hb2 e he; simp; omega)]
  rw [filter_all _ _ (by intro e he; have := hmid e he; simp; omega)]
  simp

end Mieru.Proofs.Counter
