import Mieru.Model.Chunk
/-!
# The fragment loop: every fragment fits, nothing is lost, numbering counts down to 0
-/
namespace Mieru.Chunk

def total (l : List (Nat × Nat)) : Nat := (l.map (·.2)).sum

/-- loop invariant: with `i` iterations left and `a = (i−1)·f`, the remainder satisfies `a < rem ≤ a + f` -/
theorem cutLoop_spec (f : Nat) (hf : 0 < f) : ∀ (i rem a : Nat), (i = 0 → rem = 0) → (0 < i → a = (i - 1) * f ∧ a < rem ∧ rem ≤ a + f) →
    (∀ x ∈ cutLoop f i rem, 0 < x.2 ∧ x.2 ≤ f) ∧ total (cutLoop f i rem) = rem ∧
    (cutLoop f i rem).map (·.1) = (List.range i).reverse := by
  intro i
  induction i with
  | zero => intro rem a h0 _; simp [cutLoop, total, h0 rfl]
  | succ j ih =>
    intro rem a _ h1
    obtain ⟨ha, hlo, hhi⟩ := h1 (Nat.succ_pos j)
    simp only [Nat.add_sub_cancel] at ha
    simp only [cutLoop]
    cases j with
    | zero =>
      have ha0 : a = 0 := by simpa using ha
      have hm : min f rem = rem := by omega
      have := ih (rem - min f rem) 0 (fun _ => by omega) (fun h => absurd h (Nat.lt_irrefl 0))
      refine ⟨?_, ?_, ?_⟩
      · intro x hx; simp only [List.mem_cons] at hx
        rcases hx with rfl | hx
        · simp only; omega
        · exact this.1 x hx
      · simp only [total, List.map_cons, List.sum_cons] at this ⊢; rw [this.2.1]; omega
      · simp [this.2.2, List.range_succ]
    | succ k =>
      have hak : a = k * f + f := by rw [ha, Nat.succ_mul]
      have hm : min f rem = f := by omega
      have := ih (rem - min f rem) (k * f) (fun h => by cases h) (fun _ => ⟨by simp, by omega, by omega⟩)
      refine ⟨?_, ?_, ?_⟩
      · intro x hx; simp only [List.mem_cons] at hx
        rcases hx with rfl | hx
        · simp only; omega
        · exact this.1 x hx
      · simp only [total, List.map_cons, List.sum_cons] at this ⊢; rw [this.2.1]; omega
      · simp only [List.map_cons, this.2.2]
        rw [List.range_succ (n := k + 1)]
        simp

/-- `nFragment` is the ceiling of `len / f`: `(n−1)·f < len ≤ (n−1)·f + f` -/
theorem nFragment_bounds (len f : Nat) (hf : 0 < f) (hl : 0 < len) :
    0 < nFragment len f ∧ (nFragment len f - 1) * f < len ∧ len ≤ (nFragment len f - 1) * f + f := by
  unfold nFragment
  split
  · rename_i hgt
    have h1 := Nat.div_add_mod (len - 1) f
    have h2 := Nat.mod_lt (len - 1) hf
    simp only [Nat.add_sub_cancel]
    refine ⟨Nat.succ_pos _, ?_⟩
    rw [Nat.mul_comm ((len - 1) / f) f]
    generalize f * ((len - 1) / f) = m at h1 ⊢
    omega
  · simp; omega

/-- Every fragment `writeChunk` cuts from a non-empty chunk is non-empty and at most `f` bytes; the
    fragments add up to the chunk; they are numbered `nFragment−1, …, 1, 0`. -/
theorem cut_spec (len f : Nat) (hf : 0 < f) (hl : 0 < len) :
    (∀ x ∈ cut len f, 0 < x.2 ∧ x.2 ≤ f) ∧ total (cut len f) = len ∧
    (cut len f).map (·.1) = (List.range (nFragment len f)).reverse ∧ (cut len f).length = nFragment len f := by
  obtain ⟨b0, b1, b2⟩ := nFragment_bounds len f hf hl
  have := cutLoop_spec f hf (nFragment len f) len ((nFragment len f - 1) * f) (fun h => by omega) (fun _ => ⟨rfl, b1, b2⟩)
  refine ⟨this.1, this.2.1, this.2.2, ?_⟩
  have h := congrArg List.length this.2.2
  simpa [cut] using h

/-- `Write` hands `writeChunk` non-empty pieces of at most `maxPDU` bytes that add up to the write -/
theorem chunks_spec (maxPDU : Nat) (hm : 0 < maxPDU) : ∀ (fuel len : Nat), len ≤ fuel →
    (∀ c ∈ chunks maxPDU fuel len, 0 < c ∧ c ≤ maxPDU) ∧ (chunks maxPDU fuel len).sum = len := by
  intro fuel
  induction fuel with
  | zero => intro len h; have : len = 0 := by omega
            subst this; simp [chunks]
  | succ n ih =>
    intro len h
    simp only [chunks]
    split
    · rename_i h0; simp [h0]
    · rename_i h0
      have := ih (len - min len maxPDU) (by omega)
      refine ⟨?_, ?_⟩
      · intro c hc; simp only [List.mem_cons] at hc
        rcases hc with rfl | hc
        · omega
        · exact this.1 c hc
      · simp only [List.sum_cons, this.2]; omega

end Mieru.Chunk
