import Mieru.Model.Deadline
/-!
Lemmas for the deadline model: the code's `readDeadline` / `writeDeadline` follow the contract's
bookkeeping exactly, the armed timer is never later than the user's deadline, and a call with an
armed timer returns by it.
-/
namespace Mieru.Deadline

theorem minNZ_le {a b : Nat} (h : a ≠ 0) : minNZ a b ≠ 0 ∧ minNZ a b ≤ a := by
  unfold minNZ
  split
  · contradiction
  · split
    · exact ⟨h, Nat.le_refl a⟩
    · constructor
      · omega
      · exact Nat.min_le_left a b

theorem finish_bounded (start armed : Nat) (env : Option Nat) (h : armed ≠ 0) :
    boundedBy start armed (finish start armed env) := by
  unfold finish
  cases env with
  | none => simp [h, boundedBy]
  | some e =>
    simp only [h, if_false]
    split
    · simp only [boundedBy]; assumption
    · simp [boundedBy]

theorem bounded_mono {start a d : Nat} {r : Ret} (had : a ≤ d) (h : boundedBy start a r) :
    boundedBy start d r := by
  cases r with
  | unit => exact h
  | never => exact h
  | «at» t b =>
    simp only [boundedBy] at h ⊢
    omega

/-- only the Set calls change the user's deadlines -/
theorem step_user (client : Bool) (s : St) (o : Op) :
    (⟨(step client s o).1.rd, (step client s o).1.wd⟩ : Spec) = specStep ⟨s.rd, s.wd⟩ o := by
  cases o with
  | setR t => rfl
  | setW t => rfl
  | setRW t => rfl
  | read start env => rfl
  | write start env chunk =>
    simp only [step, specStep]
    split <;> (try split) <;> rfl

theorem run_user (client : Bool) (s : St) (ops : List Op) :
    (⟨(run client s ops).rd, (run client s ops).wd⟩ : Spec) = specRun ⟨s.rd, s.wd⟩ ops := by
  induction ops generalizing s with
  | nil => rfl
  | cons o os ih =>
    simp only [run, specRun]
    rw [ih, step_user]

/-- a `finish` that did not time out returned no earlier than it started -/
theorem finish_ge (start armed : Nat) (env : Option Nat) {t : Nat} {b : Bool} (h : finish start armed env = .at t b) : start ≤ t := by
  unfold finish at h
  cases env with
  | none =>
    simp only at h
    split at h
    · cases h
    · cases h; omega
  | some e =>
    simp only at h
    split at h
    · cases h; omega
    · split at h <;> (cases h; omega)

/-- what one `writeChunk` does to the state -/
theorem step_write (client : Bool) (s : St) (start : Nat) (env : Option Nat) :
    (step client s (.write start env true)).2 = finish start s.wd env ∧
    (step client s (.write start env true)).1.rd = s.rd ∧ (step client s (.write start env true)).1.wd = s.wd ∧
    (∀ t b, (step client s (.write start env true)).2 = .at t b → client = true →
      (step client s (.write start env true)).1.resp = t + respTimeout) := by
  simp only [step]
  cases hf : finish start s.wd env with
  | unit => exact ⟨rfl, rfl, rfl, fun _ _ h => by cases h⟩
  | never => exact ⟨rfl, rfl, rfl, fun _ _ h => by cases h⟩
  | «at» t b =>
    refine ⟨rfl, ?_, ?_, ?_⟩
    · simp only; split <;> rfl
    · simp only; split <;> rfl
    · intro t' b' h hc
      simp only at h ⊢
      cases h
      simp [hc]

theorem step_read (client : Bool) (s : St) (start : Nat) (env : Option Nat) :
    (step client s (.read start env)).2 = finish start (armedRead s) env ∧
    (step client s (.read start env)).1.rd = s.rd ∧ (step client s (.read start env)).1.wd = s.wd ∧
    (step client s (.read start env)).1.resp = 0 := ⟨rfl, rfl, rfl, rfl⟩

/-- a multi-chunk `Write` under write deadline `d ≠ 0` is over by `max start d`, leaves the user's deadlines
    alone, and (on a client, when every chunk went through) arms the implicit response deadline 10 s after
    the return of the last chunk -/
theorem writeChunks_spec (client : Bool) (s : St) (start : Nat) (envs : List (Option Nat)) :
    (s.wd ≠ 0 → boundedBy start s.wd (writeChunks client s start envs).2) ∧
    (writeChunks client s start envs).1.rd = s.rd ∧ (writeChunks client s start envs).1.wd = s.wd ∧
    (∀ t, client = true → envs ≠ [] → (writeChunks client s start envs).2 = .at t false →
      (writeChunks client s start envs).1.resp = t + respTimeout) := by
  induction envs generalizing s start with
  | nil =>
    refine ⟨?_, rfl, rfl, fun _ _ h => (h rfl).elim⟩
    intro _
    simp only [writeChunks, boundedBy]
    omega
  | cons env rest ih =>
    obtain ⟨w1, w2, w3, w4⟩ := step_write client s start env
    unfold writeChunks
    generalize hp : step client s (.write start env true) = p at w1 w2 w3 w4
    obtain ⟨s', r⟩ := p
    simp only at w1 w2 w3 w4 ⊢
    cases r with
    | unit =>
      refine ⟨?_, w2, w3, fun _ _ _ h => by cases h⟩
      intro hw
      have := finish_bounded start s.wd env hw
      rw [← w1] at this; exact this
    | never =>
      refine ⟨?_, w2, w3, fun _ _ _ h => by cases h⟩
      intro hw
      have := finish_bounded start s.wd env hw
      rw [← w1] at this; exact this
    | «at» t b =>
      cases b with
      | true =>
        refine ⟨?_, w2, w3, fun _ _ _ h => by cases h⟩
        intro hw
        have := finish_bounded start s.wd env hw
        rw [← w1] at this; exact this
      | false =>
        obtain ⟨i1, i2, i3, i4⟩ := ih s' t
        refine ⟨?_, by rw [i2, w2], by rw [i3, w3], ?_⟩
        · intro hw
          have hb := finish_bounded start s.wd env hw
          rw [← w1] at hb
          simp only [boundedBy] at hb
          have h2 := i1 (by rw [w3]; exact hw)
          rw [w3] at h2
          revert h2
          cases (writeChunks client s' t rest).2 with
          | unit => exact id
          | never => exact id
          | «at» t' b' => simp only [boundedBy]; omega
        · intro t' hc _ hr
          cases rest with
          | nil =>
            simp only [writeChunks] at hr ⊢
            cases hr
            exact w4 _ false rfl hc
          | cons e2 r2 => exact i4 t' hc (by simp) hr

/-- `Read`s back to back under read deadline `d ≠ 0` are over by `max start d`; the user's deadlines stay -/
theorem readLoop_spec (client : Bool) (s : St) (start : Nat) (envs : List (Option Nat)) :
    (s.rd ≠ 0 → boundedBy start s.rd (readLoop client s start envs).2) ∧
    (readLoop client s start envs).1.rd = s.rd ∧ (readLoop client s start envs).1.wd = s.wd := by
  induction envs generalizing s start with
  | nil =>
    refine ⟨?_, rfl, rfl⟩
    intro _
    simp only [readLoop, boundedBy]
    omega
  | cons env rest ih =>
    obtain ⟨w1, w2, w3, _⟩ := step_read client s start env
    unfold readLoop
    generalize hp : step client s (.read start env) = p at w1 w2 w3
    obtain ⟨s', r⟩ := p
    simp only at w1 w2 w3 ⊢
    have first : s.rd ≠ 0 → boundedBy start s.rd r := by
      intro hr
      have hm := minNZ_le (b := s.resp) hr
      rw [w1]
      exact bounded_mono hm.2 (finish_bounded start _ env hm.1)
    cases r with
    | unit => exact ⟨first, w2, w3⟩
    | never => exact ⟨first, w2, w3⟩
    | «at» t b =>
      cases b with
      | true => exact ⟨first, w2, w3⟩
      | false =>
        obtain ⟨i1, i2, i3⟩ := ih s' t
        refine ⟨?_, by rw [i2, w2], by rw [i3, w3]⟩
        intro hr
        have hb := first hr
        simp only [boundedBy] at hb
        have h2 := i1 (by rw [w2]; exact hr)
        rw [w2] at h2
        revert h2
        cases (readLoop client s' t rest).2 with
        | unit => exact id
        | never => exact id
        | «at» t' b' => simp only [boundedBy]; omega

theorem okWith_bound {tol : Tol} {armed d : Nat} {o : Obs} (hd : d ≠ 0) (ha : armed ≠ 0) (hle : armed ≤ d)
    (h : okWith tol armed o = true) : o.ret ≤ max o.start d + tol.slack := by
  unfold okWith at h
  have _ := hd
  split at h
  · simp only [Bool.and_eq_true, decide_eq_true_eq] at h
    omega
  · simp only [Bool.or_eq_true, beq_iff_eq, decide_eq_true_eq] at h
    omega

/-- the acceptor leaves the user's deadlines to the Set calls as well -/
theorem acceptObs_user {client : Bool} {tol : Tol} {s s' : St} {o : Obs}
    (h : acceptObs client tol s o = some s') : (⟨s'.rd, s'.wd⟩ : Spec) = specObs ⟨s.rd, s.wd⟩ o := by
  unfold acceptObs at h
  unfold specObs
  cases hop : o.op with
  | setR t => simp only [hop] at h ⊢; cases h; rfl
  | setW t => simp only [hop] at h ⊢; cases h; rfl
  | setRW t => simp only [hop] at h ⊢; cases h; rfl
  | read =>
    simp only [hop] at h ⊢
    split at h
    · cases h; rfl
    · cases h
  | write chunk =>
    simp only [hop] at h ⊢
    split at h
    · cases h
      split <;> rfl
    · cases h

theorem acceptObs_contract {client : Bool} {tol : Tol} {s s' : St} {o : Obs}
    (h : acceptObs client tol s o = some s') :
    (match o.op with
      | .read => s.rd ≠ 0 → o.ret ≤ max o.start s.rd + tol.slack
      | .write _ => s.wd ≠ 0 → o.ret ≤ max o.start s.wd + tol.slack
      | _ => True) := by
  unfold acceptObs at h
  cases hop : o.op with
  | setR t => trivial
  | setW t => trivial
  | setRW t => trivial
  | read =>
    simp only [hop] at h ⊢
    split at h
    · rename_i hok
      intro hrd
      have := minNZ_le (b := s.resp) hrd
      exact okWith_bound hrd this.1 this.2 hok
    · cases h
  | write chunk =>
    simp only [hop] at h ⊢
    split at h
    · rename_i hok
      intro hwd
      exact okWith_bound hwd hwd (Nat.le_refl _) hok
    · cases h

theorem acceptAll_contract (client : Bool) (tol : Tol) (s s' : St) (i : Nat) (os : List Obs)
    (h : acceptAll client tol s i os = .inl s') : meetsContract tol.slack ⟨s.rd, s.wd⟩ os := by
  induction os generalizing s i with
  | nil => trivial
  | cons o os ih =>
    unfold acceptAll at h
    split at h
    · cases h
    · rename_i s1 hs1
      refine ⟨acceptObs_contract hs1, ?_⟩
      rw [← acceptObs_user hs1]
      exact ih s1 (i + 1) h

end Mieru.Deadline
