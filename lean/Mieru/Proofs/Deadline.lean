import Mieru.Model.Deadline
/-!
Lemmas for the deadline model: the code's `readDeadline` / `writeDeadline` follow the contract's
bookkeeping exactly, the armed timer is never later than the user's deadline, and a call with an
armed timer returns by it.
-/
namespace Mieru.Deadline

theorem minNZ_le {a b : Nat} (h : a ≠ 0) : minNZ a b ≠ 0 ∧ minNZ a b ≤ a := by
  unfold minNZ
  split
  · contradiction
  · split
    · exact ⟨h, Nat.le_refl a⟩
    · constructor
      · omega
      · exact Nat.min_le_left a b

theorem finish_bounded (start armed : Nat) (env : Option Nat) (h : armed ≠ 0) :
    boundedBy start armed (finish start armed env) := by
  unfold finish
  cases env with
  | none => simp [h, boundedBy]
  | some e =>
    simp only [h, if_false]
    split
    · simp only [boundedBy]; assumption
    · simp [boundedBy]

theorem bounded_mono {start a d : Nat} {r : Ret} (had : a ≤ d) (h : boundedBy start a r) :
    boundedBy start d r := by
  cases r with
  | unit => exact h
  | never => exact h
  | «at» t b =>
    simp only [boundedBy] at h ⊢
    omega

/-- only the Set calls change the user's deadlines -/
theorem step_user (client : Bool) (s : St) (o : Op) :
    (⟨(step client s o).1.rd, (step client s o).1.wd⟩ : Spec) = specStep ⟨s.rd, s.wd⟩ o := by
  cases o with
  | setR t => rfl
  | setW t => rfl
  | setRW t => rfl
  | read start env => rfl
  | write start env chunk =>
    simp only [step, specStep]
    split <;> (try split) <;> rfl

theorem run_user (client : Bool) (s : St) (ops : List Op) :
    (⟨(run client s ops).rd, (run client s ops).wd⟩ : Spec) = specRun ⟨s.rd, s.wd⟩ ops := by
  induction ops generalizing s with
  | nil => rfl
  | cons o os ih =>
    simp only [run, specRun]
    rw [ih, step_user]

theorem okWith_bound {tol : Tol} {armed d : Nat} {o : Obs} (hd : d ≠ 0) (ha : armed ≠ 0) (hle : armed ≤ d)
    (h : okWith tol armed o = true) : o.ret ≤ max o.start d + tol.slack := by
  unfold okWith at h
  have _ := hd
  split at h
  · simp only [Bool.and_eq_true, decide_eq_true_eq] at h
    omega
  · simp only [Bool.or_eq_true, beq_iff_eq, decide_eq_true_eq] at h
    omega

/-- the acceptor leaves the user's deadlines to the Set calls as well -/
theorem acceptObs_user {client : Bool} {tol : Tol} {s s' : St} {o : Obs}
    (h : acceptObs client tol s o = some s') : (⟨s'.rd, s'.wd⟩ : Spec) = specObs ⟨s.rd, s.wd⟩ o := by
  unfold acceptObs at h
  unfold specObs
  cases hop : o.op with
  | setR t => simp only [hop] at h ⊢; cases h; rfl
  | setW t => simp only [hop] at h ⊢; cases h; rfl
  | setRW t => simp only [hop] at h ⊢; cases h; rfl
  | read =>
    simp only [hop] at h ⊢
    split at h
    · cases h; rfl
    · cases h
  | write chunk =>
    simp only [hop] at h ⊢
    split at h
    · cases h
      split <;> rfl
    · cases h

theorem acceptObs_contract {client : Bool} {tol : Tol} {s s' : St} {o : Obs}
    (h : acceptObs client tol s o = some s') :
    (match o.op with
      | .read => s.rd ≠ 0 → o.ret ≤ max o.start s.rd + tol.slack
      | .write _ => s.wd ≠ 0 → o.ret ≤ max o.start s.wd + tol.slack
      | _ => True) := by
  unfold acceptObs at h
  cases hop : o.op with
  | setR t => trivial
  | setW t => trivial
  | setRW t => trivial
  | read =>
    simp only [hop] at h ⊢
    split at h
    · rename_i hok
      intro hrd
      have := minNZ_le (b := s.resp) hrd
      exact okWith_bound hrd this.1 this.2 hok
    · cases h
  | write chunk =>
    simp only [hop] at h ⊢
    split at h
    · rename_i hok
      intro hwd
      exact okWith_bound hwd hwd (Nat.le_refl _) hok
    · cases h

theorem acceptAll_contract (client : Bool) (tol : Tol) (s s' : St) (i : Nat) (os : List Obs)
    (h : acceptAll client tol s i os = .inl s') : meetsContract tol.slack ⟨s.rd, s.wd⟩ os := by
  induction os generalizing s i with
  | nil => trivial
  | cons o os ih =>
    unfold acceptAll at h
    split at h
    · cases h
    · rename_i s1 hs1
      refine ⟨acceptObs_contract hs1, ?_⟩
      rw [← acceptObs_user hs1]
      exact ih s1 (i + 1) h

end Mieru.Deadline
