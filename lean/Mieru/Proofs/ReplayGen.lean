import Mieru.Proofs.Replay
import Mieru.Gen.ReplayGen
/-!
# The hand-written replay-cache model equals the regenerated `ReplayCache.IsDuplicate`

`Mieru.Gen.ReplayGen.isDuplicate` is produced by tools/goextract/replaytrans.go from the Go source on
every run, statement by statement (maps = association lists with map semantics, clock = parameter).
`isDuplicate_eq_gen` proves `Mieru.Replay.isDuplicate` (the model all C06 theorems are about) equal to
it for every cache, every item, every tag and every instant.
-/
namespace Mieru.Proofs.ReplayGen
open Mieru.Replay Mieru.Gen.ReplayGen

/-- the model's cache as the regenerated record -/
def toGen (c : Cache) : RCache :=
  { capacity := c.cap, expireTime := c.exp, expireInterval := c.iv, current := c.cur, previous := c.prev }

theorem mapGet_eq_find (m : List (Sig × Tag)) (s : Sig) : mapGet m s = find m s := rfl

theorem filter_absent (m : List (Sig × Tag)) (s : Sig) (h : find m s = none) :
    m.filter (fun p => p.1 != s) = m := by
  induction m with
  | nil => rfl
  | cons p rest ih =>
    unfold find at h
    simp only [List.find?_cons] at h
    by_cases hp : (p.1 == s) = true
    · simp [hp] at h
    · simp only [hp] at h
      have hne : (p.1 != s) = true := by simp [bne, hp]
      simp only [List.filter_cons, hne, if_true]
      rw [ih (by unfold find; exact h)]

theorem mapSet_absent (m : List (Sig × Tag)) (s : Sig) (t : Tag) (h : find m s = none) :
    mapSet m s t = (s, t) :: m := by
  unfold mapSet; rw [filter_absent m s h]

theorem rot_eq_gen (c : Cache) (now : Nat) :
    toGen (rot c now) =
      (let g := toGen c
       let g := if ((now : Int) - g.expireTime) > g.expireInterval then
           { g with current := [], previous := [], expireTime := (now : Int) + g.expireInterval } else g
       if ((g.current.length : Int) ≥ g.capacity) ∨ ((now : Int) > g.expireTime) then
           { g with previous := g.current, current := [], expireTime := (now : Int) + g.expireInterval } else g) := by
  unfold rot toGen
  by_cases h1 : now > c.exp + c.iv
  · have h1' : ((now : Int) - (c.exp : Int)) > (c.iv : Int) := by omega
    simp only [h1, h1', if_true]
    by_cases h2 : ([] : List (Sig × Tag)).length ≥ c.cap ∨ now > now + c.iv
    · have h2' : ((([] : List (Sig × Tag)).length : Int) ≥ (c.cap : Int)) ∨ ((now : Int) > (now : Int) + (c.iv : Int)) := by
        rcases h2 with h | h
        · left; simp at h ⊢; omega
        · right; omega
      simp only [h2, h2', if_true]; simp
    · have h2' : ¬ (((([] : List (Sig × Tag)).length : Int) ≥ (c.cap : Int)) ∨ ((now : Int) > (now : Int) + (c.iv : Int))) := by
        intro h; apply h2
        rcases h with h | h
        · left; simp at h ⊢; omega
        · right; omega
      simp only [h2, h2', if_false]; simp
  · have h1' : ¬ (((now : Int) - (c.exp : Int)) > (c.iv : Int)) := by omega
    simp only [h1, h1', if_false]
    by_cases h2 : c.cur.length ≥ c.cap ∨ now > c.exp
    · have h2' : ((c.cur.length : Int) ≥ (c.cap : Int)) ∨ ((now : Int) > (c.exp : Int)) := by
        rcases h2 with h | h
        · left; omega
        · right; omega
      simp only [h2, h2', if_true]; simp
    · have h2' : ¬ (((c.cur.length : Int) ≥ (c.cap : Int)) ∨ ((now : Int) > (c.exp : Int))) := by
        intro h; apply h2
        rcases h with h | h
        · left; omega
        · right; omega
      simp only [h2, h2', if_false]


/-- the rotation part of the generated function -/
def genRot (g : RCache) (now : Int) : RCache :=
  let g := if (now - g.expireTime) > g.expireInterval then
      { g with current := [], previous := [], expireTime := now + g.expireInterval } else g
  if ((g.current.length : Int) ≥ g.capacity) ∨ (now > g.expireTime) then
      { g with previous := g.current, current := [], expireTime := now + g.expireInterval } else g

/-- the look-up / insert part of the generated function -/
def genLookup (g : RCache) (signature : Nat) (tag : List UInt8) : RCache × Bool :=
  match mapGet g.current signature with
  | some existingTag => if existingTag = [] ∨ tag = [] then (g, true) else (g, decide (existingTag ≠ tag))
  | none =>
    match mapGet g.previous signature with
    | some existingTag =>
      let g := { g with current := mapSet g.current signature existingTag }
      if existingTag = [] ∨ tag = [] then (g, true) else (g, decide (existingTag ≠ tag))
    | none => ({ g with current := mapSet g.current signature tag }, false)

theorem gen_decompose (f : List UInt8 → Nat) (g : RCache) (data tag : List UInt8) (now : Int) :
    Mieru.Gen.ReplayGen.isDuplicate f g data tag now =
      if g.capacity = 0 then (g, false) else genLookup (genRot g now) (f data) tag := by
  unfold Mieru.Gen.ReplayGen.isDuplicate genLookup genRot
  simp only [false_or]
  all_goals rfl

theorem genRot_eq (c : Cache) (now : Nat) : genRot (toGen c) now = toGen (rot c now) := by
  rw [rot_eq_gen]; rfl

theorem tagConflict_eq (a b : Tag) :
    (if a = [] ∨ b = [] then true else decide (a ≠ b)) = tagConflict a b := by
  unfold tagConflict emptyTag
  by_cases h1 : a = []
  · simp [h1]
  · by_cases h2 : b = []
    · simp [h2]
    · have e1 : (a == ([] : List UInt8)) = false := by simpa using h1
      have e2 : (b == ([] : List UInt8)) = false := by simpa using h2
      simp only [h1, h2, or_self, if_false, e1, e2, Bool.false_or]
      by_cases h3 : a = b
      · simp [h3]
      · simp [h3]

theorem genLookup_eq (c : Cache) (s : Sig) (tag : Tag) :
    genLookup (toGen c) s tag = (toGen (lookup c s tag).1, (lookup c s tag).2) := by
  unfold genLookup lookup
  simp only [toGen, mapGet_eq_find]
  cases h1 : find c.cur s with
  | some t =>
    simp only
    have := tagConflict_eq t tag
    split <;> simp_all
  | none =>
    simp only
    cases h2 : find c.prev s with
    | some t =>
      simp only [mapSet_absent c.cur s t h1]
      have := tagConflict_eq t tag
      split <;> simp_all
    | none => simp only [mapSet_absent c.cur s tag h1]

/-- **The hand-written model IS the regenerated function.** -/
theorem isDuplicate_eq_gen (c : Cache) (data : List UInt8) (tag : Tag) (now : Nat) :
    Mieru.Gen.ReplayGen.isDuplicate fnv1a64 (toGen c) data tag (now : Int) =
      (toGen (Mieru.Replay.isDuplicate c data tag now).1, (Mieru.Replay.isDuplicate c data tag now).2) := by
  rw [gen_decompose]
  unfold Mieru.Replay.isDuplicate step
  by_cases hc : c.cap = 0
  · have : (toGen c).capacity = 0 := by simp [toGen, hc]
    simp [hc, this]
  · have : ¬ (toGen c).capacity = 0 := by simp [toGen]; omega
    simp only [hc, this, if_false]
    rw [genRot_eq, genLookup_eq]

end Mieru.Proofs.ReplayGen
