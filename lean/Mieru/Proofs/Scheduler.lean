import Mieru.Model.Scheduler
namespace Mieru.Sched

/-- every operation leaves a `disableTime` that is set alone: it is written once -/
theorem disable_write_once (T now : Nat) (d : Int) (c : Ctl) (h : c.disable ≠ 0) :
    (incPending now c).1.disable = c.disable ∧ (decPending now c).disable = c.disable ∧
    (tryDisableIdle T now c).1.disable = c.disable ∧ (setRemaining now d c).disable = c.disable := by
  refine ⟨?_, rfl, ?_, ?_⟩
  · unfold incPending; split <;> rfl
  · unfold tryDisableIdle; simp [h]
  · unfold setRemaining; simp [h]

theorem isDisabled_mono {now now' : Nat} {c : Ctl} (hn : now ≤ now') (h : isDisabled now c = true) : isDisabled now' c = true := by
  simp only [isDisabled, Bool.and_eq_true, bne_iff_ne, ne_eq, decide_eq_true_eq] at *
  exact ⟨h.1, by omega⟩

theorem isDisabled_ne {now : Nat} {c : Ctl} (h : isDisabled now c = true) : c.disable ≠ 0 := by
  simp only [isDisabled, Bool.and_eq_true, bne_iff_ne, ne_eq, decide_eq_true_eq] at h
  exact h.1

theorem idle_disabled {T now : Nat} {c : Ctl} (h : idle T now c = true) : isDisabled now c = true := by
  simp only [idle, isDisabled, Bool.and_eq_true, bne_iff_ne, ne_eq, decide_eq_true_eq] at *
  exact ⟨h.1.1, by omega⟩

theorem incPending_refuses {now : Nat} {c : Ctl} (h : isDisabled now c = true) : incPending now c = (c, false) := by
  simp [incPending, h]

theorem incPending_ok {now : Nat} {c : Ctl} (h : (incPending now c).2 = true) : isDisabled now c = false := by
  unfold incPending at h
  split at h
  · cases h
  · rename_i hd; simpa using hd

theorem mem_of_getElem? {α : Type} {l : List α} {i : Nat} {x : α} (h : l[i]? = some x) : x ∈ l := by
  rw [List.getElem?_eq_some_iff] at h
  obtain ⟨hi, rfl⟩ := h
  exact List.getElem_mem hi

theorem pick_sound {mf r now : Nat} {us : List U} {u : U} (h : pick mf r now us = some u) :
    u ∈ us ∧ u.done = false ∧ isDisabled now u.ctl = false := by
  unfold pick at h
  simp only at h
  split at h
  · cases h
  · split at h
    · have hm := mem_of_getElem? h
      rw [List.mem_filter] at hm
      obtain ⟨hu, hp⟩ := hm
      simp only [pickable, Bool.and_eq_true, Bool.not_eq_true'] at hp
      exact ⟨hu, hp.1, hp.2⟩
    · cases h

theorem clean_sound {T now : Nat} {also : Bool} {us : List U} {v : U} (h : v ∈ clean T now also us) :
    v.done = false ∧ ∃ u ∈ us, u.done = false ∧ v = cleanOne T now also u ∧ ¬ (u.sessions = 0 ∧ idle T now u.ctl = true) := by
  unfold clean at h
  rw [List.mem_filter, List.mem_map] at h
  obtain ⟨⟨u, hu, rfl⟩, hv⟩ := h
  rw [List.mem_filter] at hu
  simp only [Bool.not_eq_true'] at hv hu
  refine ⟨hv, u, hu.1, hu.2, rfl, ?_⟩
  intro ⟨h1, h2⟩
  simp [cleanOne, h1, h2] at hv

/-- an underlay that cleanUnderlay closes has no session and is idle — hence already disabled, so no
    DialContext that picks after it was disabled can choose it -/
theorem clean_closes_only_idle {T now : Nat} {also : Bool} {u : U} (h : (cleanOne T now also u).done = true) :
    u.sessions = 0 ∧ idle T now u.ctl = true ∧ isDisabled now u.ctl = true := by
  simp only [cleanOne, Bool.and_eq_true, beq_iff_eq] at h
  exact ⟨h.1, h.2, idle_disabled h.2⟩

end Mieru.Sched
