import Mieru.Model.Egress
import Mieru.Proofs.Ip
/-!
# Helper lemmas for C12 (egress decision model)
-/
set_option linter.unusedSimpArgs false
namespace Mieru.Egress
open Mieru.Ip

/-! ### case-insensitive names -/

theorem lowerByte_ascii (a : UInt8) (h : lowerByte a < 128) : a < 128 := by
  unfold lowerByte at h
  split at h
  · rename_i hc
    have := hc.2
    exact Nat.lt_of_le_of_lt (UInt8.le_iff_toNat_le.mp this) (by decide)
  · exact h

theorem asciiFoldEq_lower_nat : ∀ n, n < 256 → asciiFoldEq (UInt8.ofNat n) (lowerByte (UInt8.ofNat n)) = true := by
  decide +kernel

theorem asciiFoldEq_lower (a : UInt8) : asciiFoldEq a (lowerByte a) = true := by
  have := asciiFoldEq_lower_nat a.toNat a.toNat_lt
  simpa using this

/-- a name whose ASCII lower-casing is the pure-ASCII `t` is `EqualFold` to `t` -/
theorem foldEq_of_lower : ∀ (s t : Name), (∀ c ∈ t, c < 128) → asciiLower s = t → foldEq s t = true
  | [], [], _, _ => by simp [foldEq]
  | [], _ :: _, _, h => by simp [asciiLower] at h
  | _ :: _, [], _, h => by simp [asciiLower] at h
  | a :: s, c :: t, hasc, h => by
    have hh : lowerByte a = c ∧ asciiLower s = t := by simpa [asciiLower] using h
    have hc : c < 128 := hasc c (by simp)
    have ha : a < 128 := lowerByte_ascii a (by rw [hh.1]; exact hc)
    have hrec := foldEq_of_lower s t (fun x hx => hasc x (by simp [hx])) hh.2
    have hf : asciiFoldEq a c = true := by rw [← hh.1]; exact asciiFoldEq_lower a
    have ha' : a.toNat < 128 := UInt8.lt_iff_toNat_lt.mp ha
    unfold foldEq
    split
    all_goals first
      | (simp_all; done)
      | (rename_i heq; simp at heq; omega)
      | skip

theorem wellKnown_ascii : ∀ t ∈ wellKnownV4 ++ wellKnownV6, ∀ c ∈ t, c < 128 := by decide

theorem isWellKnownV4_of_lower (name : Name) (h : asciiLower name ∈ wellKnownV4) : isWellKnownV4 name = true := by
  unfold isWellKnownV4
  rw [List.any_eq_true]
  exact ⟨_, h, foldEq_of_lower name _ (wellKnown_ascii _ (by simp [h])) rfl⟩

theorem isWellKnownV6_of_lower (name : Name) (h : asciiLower name ∈ wellKnownV6) : isWellKnownV6 name = true := by
  unfold isWellKnownV6
  rw [List.any_eq_true]
  exact ⟨_, h, foldEq_of_lower name _ (wellKnown_ascii _ (by simp [h])) rfl⟩

/-! ### the specification side of the refusal theorems -/

/-- the user named by the session may reach loopback destinations (or the server-wide test switch is on) -/
def mayLoopback (cfg : Config) (envUser : Option Name) : Bool :=
  cfg.allowLoopbackDestination ||
  match envUser with
  | none => false
  | some n => !n.isEmpty && match lookupUser cfg.users n with
    | none => false
    | some u => u.allowLoopback

/-- the user named by the session may reach private-network destinations -/
def mayPrivate (cfg : Config) (envUser : Option Name) : Bool :=
  match envUser with
  | none => false
  | some n => !n.isEmpty && match lookupUser cfg.users n with
    | none => false
    | some u => u.allowPrivate

/-- the destination of a CONNECT / of a relayed datagram denotes the local machine: a loopback
    address in 4-byte, 16-byte or IPv4-mapped form, an unspecified address, the empty host, a
    well-known local name in any letter case, or a loopback / unspecified IP literal sent as text (an IPv6 zone `%…` after the literal is ignored, as the resolver ignores it) -/
def DenotesLocal (parseIP : Name → Option IP) (d : Dst) : Prop :=
  (d.ip ≠ [] ∧ (isLoopback d.ip = true ∨ isUnspecified d.ip = true)) ∨
  (d.ip = [] ∧ d.fqdn = []) ∨
  (d.ip = [] ∧ asciiLower d.fqdn ∈ wellKnownV4 ++ wellKnownV6) ∨
  (d.ip = [] ∧ d.fqdn ≠ [] ∧ ∃ ip, parseIPLiteral parseIP d.fqdn = some ip ∧ (isLoopback ip = true ∨ isUnspecified ip = true))

/-- the destination is a private-network address (RFC 1918 / RFC 4193, any form incl. text) -/
def DenotesPrivate (parseIP : Name → Option IP) (d : Dst) : Prop :=
  (d.ip ≠ [] ∧ isPrivate d.ip = true) ∨
  (d.ip = [] ∧ d.fqdn ≠ [] ∧ isWellKnownV4 d.fqdn = false ∧ isWellKnownV6 d.fqdn = false ∧
    ∃ ip, parseIPLiteral parseIP d.fqdn = some ip ∧ isPrivate ip = true)

/-- a loopback destination as the (unrepaired and repaired) code treats it for UDP ASSOCIATE requests,
    whose address field is the client's own address: literal loopback addresses and local names only -/
def DenotesLoopbackStrict (parseIP : Name → Option IP) (d : Dst) : Prop :=
  (d.ip ≠ [] ∧ isLoopback d.ip = true) ∨
  (d.ip = [] ∧ asciiLower d.fqdn ∈ wellKnownV4 ++ wellKnownV6) ∨
  (d.ip = [] ∧ d.fqdn ≠ [] ∧ ∃ ip, parseIPLiteral parseIP d.fqdn = some ip ∧ isLoopback ip = true)

theorem parsedLoopback4_loop : isLoopback parsedLoopback4 = true ∧ isPrivate parsedLoopback4 = false := by decide
theorem parsedLoopback6_loop : isLoopback parsedLoopback6 = true ∧ isPrivate parsedLoopback6 = false := by decide

theorem wellKnown_nonempty : ∀ t ∈ wellKnownV4 ++ wellKnownV6, t ≠ [] := by decide

/-- the decision once the classified address is known -/
theorem reject_of_checked {cfg : Config} {parseIP : Name → Option IP} {envUser : Option Name} {req : Request}
    {ip : IP} (hck : checkedIP parseIP req = some ip)
    (hloop : (isLoopback ip || (isUnspecified ip && req.cmd == connectCmd)) = true)
    (hu : mayLoopback cfg envUser = false) :
    rejectPrivateAndLoopback cfg parseIP envUser req = .reject := by
  have hnp : isPrivate ip = false := by
    simp only [Bool.or_eq_true, Bool.and_eq_true] at hloop
    rcases hloop with h | ⟨h, _⟩
    · exact loopback_not_private ip h
    · exact unspecified_not_private ip h
  unfold mayLoopback at hu
  simp only [Bool.or_eq_false_iff] at hu
  obtain ⟨hald, hu⟩ := hu
  unfold rejectPrivateAndLoopback
  simp only [hck, hloop, hnp, hald]
  cases envUser with
  | none => simp
  | some n =>
    simp only at hu ⊢
    by_cases hn : n.isEmpty = true
    · simp [hn]
    · simp only [hn]
      cases hl : lookupUser cfg.users n with
      | none => simp
      | some u =>
        rw [hl] at hu
        have : u.allowLoopback = false := by simpa [hn] using hu
        simp [this]

theorem reject_of_checked_private {cfg : Config} {parseIP : Name → Option IP} {envUser : Option Name} {req : Request}
    {ip : IP} (hck : checkedIP parseIP req = some ip) (hp : isPrivate ip = true)
    (hu : mayPrivate cfg envUser = false) :
    rejectPrivateAndLoopback cfg parseIP envUser req = .reject := by
  have hnl : isLoopback ip = false := by
    cases h : isLoopback ip with
    | false => rfl
    | true => rw [loopback_not_private ip h] at hp; cases hp
  have hnu : isUnspecified ip = false := by
    cases h : isUnspecified ip with
    | false => rfl
    | true => rw [unspecified_not_private ip h] at hp; cases hp
  unfold mayPrivate at hu
  unfold rejectPrivateAndLoopback
  simp only [hck, hp, hnl, hnu]
  cases envUser with
  | none => simp
  | some n =>
    simp only at hu ⊢
    by_cases hn : n.isEmpty = true
    · simp [hn]
    · simp only [hn]
      cases hl : lookupUser cfg.users n with
      | none => simp
      | some u =>
        rw [hl] at hu
        have : u.allowPrivate = false := by simpa [hn] using hu
        simp [this]

theorem isEmpty_false_of_ne {l : List UInt8} (h : l ≠ []) : l.isEmpty = false := by
  cases l with
  | nil => exact absurd rfl h
  | cons _ _ => rfl

/-- CONNECT: every destination that denotes the local machine is classified as loopback/unspecified -/
theorem checked_of_local_connect {parseIP : Name → Option IP} {req : Request}
    (hc : req.cmd = connectCmd) (hd : DenotesLocal parseIP req.dst) :
    ∃ ip, checkedIP parseIP req = some ip ∧ (isLoopback ip || (isUnspecified ip && req.cmd == connectCmd)) = true := by
  have hcc : (req.cmd == connectCmd) = true := by rw [hc]; rfl
  rcases hd with ⟨hip, hl⟩ | ⟨hip, hf⟩ | ⟨hip, hw⟩ | ⟨hip, hf, ip, hpi, hl⟩
  · refine ⟨req.dst.ip, by simp [checkedIP, isEmpty_false_of_ne hip], ?_⟩
    rcases hl with h | h <;> simp [h, hcc]
  · refine ⟨parsedLoopback4, by simp [checkedIP, hip, hf, hc], ?_⟩
    simp [parsedLoopback4_loop.1]
  · have hne : req.dst.fqdn ≠ [] := by
      intro e
      have := wellKnown_nonempty _ hw
      rw [e] at this
      exact this rfl
    have hfe := isEmpty_false_of_ne hne
    rcases List.mem_append.mp hw with h4 | h6
    · refine ⟨parsedLoopback4, by simp [checkedIP, hip, hfe, isWellKnownV4_of_lower _ h4], ?_⟩
      simp [parsedLoopback4_loop.1]
    · by_cases h4 : isWellKnownV4 req.dst.fqdn = true
      · refine ⟨parsedLoopback4, by simp [checkedIP, hip, hfe, h4], ?_⟩
        simp [parsedLoopback4_loop.1]
      · refine ⟨parsedLoopback6, by simp [checkedIP, hip, hfe, h4, isWellKnownV6_of_lower _ h6], ?_⟩
        simp [parsedLoopback6_loop.1]
  · have hfe := isEmpty_false_of_ne hf
    by_cases h4 : isWellKnownV4 req.dst.fqdn = true
    · refine ⟨parsedLoopback4, by simp [checkedIP, hip, hfe, h4], ?_⟩
      simp [parsedLoopback4_loop.1]
    · by_cases h6 : isWellKnownV6 req.dst.fqdn = true
      · refine ⟨parsedLoopback6, by simp [checkedIP, hip, hfe, h4, h6], ?_⟩
        simp [parsedLoopback6_loop.1]
      · refine ⟨ip, by simp [checkedIP, hip, hfe, h4, h6, hpi], ?_⟩
        rcases hl with h | h <;> simp [h, hcc]

/-- any command: literal loopback addresses and local names -/
theorem checked_of_loopback_strict {parseIP : Name → Option IP} {req : Request}
    (hd : DenotesLoopbackStrict parseIP req.dst) :
    ∃ ip, checkedIP parseIP req = some ip ∧ isLoopback ip = true := by
  rcases hd with ⟨hip, hl⟩ | ⟨hip, hw⟩ | ⟨hip, hf, ip, hpi, hl⟩
  · exact ⟨req.dst.ip, by simp [checkedIP, isEmpty_false_of_ne hip], hl⟩
  · have hne : req.dst.fqdn ≠ [] := by
      intro e
      have := wellKnown_nonempty _ hw
      rw [e] at this
      exact this rfl
    have hfe := isEmpty_false_of_ne hne
    rcases List.mem_append.mp hw with h4 | h6
    · exact ⟨parsedLoopback4, by simp [checkedIP, hip, hfe, isWellKnownV4_of_lower _ h4], parsedLoopback4_loop.1⟩
    · by_cases h4 : isWellKnownV4 req.dst.fqdn = true
      · exact ⟨parsedLoopback4, by simp [checkedIP, hip, hfe, h4], parsedLoopback4_loop.1⟩
      · exact ⟨parsedLoopback6, by simp [checkedIP, hip, hfe, h4, isWellKnownV6_of_lower _ h6], parsedLoopback6_loop.1⟩
  · have hfe := isEmpty_false_of_ne hf
    by_cases h4 : isWellKnownV4 req.dst.fqdn = true
    · exact ⟨parsedLoopback4, by simp [checkedIP, hip, hfe, h4], parsedLoopback4_loop.1⟩
    · by_cases h6 : isWellKnownV6 req.dst.fqdn = true
      · exact ⟨parsedLoopback6, by simp [checkedIP, hip, hfe, h4, h6], parsedLoopback6_loop.1⟩
      · exact ⟨ip, by simp [checkedIP, hip, hfe, h4, h6, hpi], hl⟩

theorem checked_of_private {parseIP : Name → Option IP} {req : Request}
    (hd : DenotesPrivate parseIP req.dst) :
    ∃ ip, checkedIP parseIP req = some ip ∧ isPrivate ip = true := by
  rcases hd with ⟨hip, hl⟩ | ⟨hip, hf, h4, h6, ip, hpi, hl⟩
  · exact ⟨req.dst.ip, by simp [checkedIP, isEmpty_false_of_ne hip], hl⟩
  · exact ⟨ip, by simp [checkedIP, hip, isEmpty_false_of_ne hf, h4, h6, hpi], hl⟩

/-! ### first match -/

theorem find_first {α : Type} (p : α → Bool) (pre post : List α) (r : α)
    (hpre : ∀ q ∈ pre, p q = false) (hr : p r = true) : (pre ++ r :: post).find? p = some r := by
  induction pre with
  | nil => simp [hr]
  | cons a pre ih =>
    have ha : p a = false := hpre a (by simp)
    simp only [List.cons_append, List.find?_cons, ha]
    exact ih (fun q hq => hpre q (by simp [hq]))

theorem find_none {α : Type} (p : α → Bool) (l : List α) (h : ∀ q ∈ l, p q = false) : l.find? p = none := by
  rw [List.find?_eq_none]
  intro q hq
  simp [h q hq]

/-! ### the request parser ignores what follows the request -/

theorem drop_two {l : List UInt8} {p1 p2 : UInt8} {tl : List UInt8} {k : Nat} (h : l.drop k = p1 :: p2 :: tl) :
    k + 2 ≤ l.length ∧ (l.take (k + 2)).drop k = [p1, p2] ∧ (l.take (k+2)).take k = l.take k := by
  have hlen : (l.drop k).length = tl.length + 2 := by rw [h]; simp
  have hl : k + 2 ≤ l.length := by simp at hlen; omega
  refine ⟨hl, ?_, ?_⟩
  · rw [List.drop_take]
    have : k + 2 - k = 2 := by omega
    rw [this, h]; simp
  · rw [List.take_take]; congr 1; omega

theorem parseAddr_take {t : List UInt8} {dst : Dst} {n : Nat} (h : parseAddr t = .ok (dst, n)) :
    parseAddr (t.take n) = .ok (dst, n) ∧ n ≤ t.length ∧ 1 ≤ n := by
  cases t with
  | nil => simp [parseAddr] at h
  | cons atyp r =>
    by_cases h1 : atyp = 1
    · subst h1
      by_cases hl : r.length < 4
      · simp [parseAddr, hl] at h
      · cases hd : r.drop 4 with
        | nil => simp [parseAddr, hl, hd] at h
        | cons p1 r3 =>
          cases r3 with
          | nil => simp [parseAddr, hl, hd] at h
          | cons p2 tl =>
            simp only [parseAddr, hl, hd, if_true, if_false, Except.ok.injEq, Prod.mk.injEq] at h
            obtain ⟨hdst, hn⟩ := h
            obtain ⟨a, b, c⟩ := drop_two hd
            subst hn
            have e : List.take (1 + 4 + 2) (1 :: r) = 1 :: r.take 6 := by simp
            rw [e]
            have l6 : ¬ (r.take 6).length < 4 := by simp; omega
            simp only [parseAddr, l6, if_true, if_false, b, c, hdst]
            simp; omega
    · by_cases h4 : atyp = 4
      · subst h4
        by_cases hl : r.length < 16
        · simp [parseAddr, hl] at h
        · cases hd : r.drop 16 with
          | nil => simp [parseAddr, hl, hd] at h
          | cons p1 r3 =>
            cases r3 with
            | nil => simp [parseAddr, hl, hd] at h
            | cons p2 tl =>
              simp only [parseAddr, hl, hd, if_true, if_false, Except.ok.injEq, Prod.mk.injEq] at h
              simp at h
              obtain ⟨hdst, hn⟩ := h
              obtain ⟨a, b, c⟩ := drop_two hd
              subst hn
              have e : List.take (1 + 16 + 2) (4 :: r) = 4 :: r.take 18 := by simp
              rw [e]
              have l6 : ¬ (r.take 18).length < 16 := by simp; omega
              simp only [parseAddr, l6, if_true, if_false, b, c, hdst]
              simp; omega
      · by_cases h3 : atyp = 3
        · subst h3
          cases r with
          | nil => simp [parseAddr] at h
          | cons nn r1 =>
            by_cases hl : r1.length < nn.toNat
            · simp [parseAddr, hl] at h
            · cases hd : r1.drop nn.toNat with
              | nil => simp [parseAddr, hl, hd] at h
              | cons p1 r3 =>
                cases r3 with
                | nil => simp [parseAddr, hl, hd] at h
                | cons p2 tl =>
                  simp only [parseAddr, hl, hd, if_true, if_false, Except.ok.injEq, Prod.mk.injEq] at h
                  simp at h
                  obtain ⟨hdst, hn⟩ := h
                  obtain ⟨a, b, c⟩ := drop_two hd
                  subst hn
                  have e : List.take (1 + 1 + nn.toNat + 2) (3 :: nn :: r1) = 3 :: nn :: r1.take (nn.toNat + 2) := by
                    have : 1 + 1 + nn.toNat + 2 = (nn.toNat + 2) + 1 + 1 := by omega
                    rw [this]; simp
                  rw [e]
                  have l6 : ¬ (r1.take (nn.toNat + 2)).length < nn.toNat := by simp; omega
                  simp only [parseAddr, l6, if_true, if_false, b, c, hdst]
                  simp; omega
        · simp [parseAddr, h1, h4, h3] at h

theorem parseRequest_take {data : List UInt8} {req : Request} (h : parseRequest data = .ok req) :
    parseRequest (data.take req.rawLen) = .ok req ∧ 4 ≤ (data.take req.rawLen).length := by
  match data, h with
  | ver :: cmd :: rsv :: t, h =>
    by_cases hv : ver = 5
    · subst hv
      cases hp : parseAddr t with
      | error e => simp [parseRequest, hp] at h
      | ok r =>
        obtain ⟨dst, n⟩ := r
        simp only [parseRequest, hp, ne_eq, not_true_eq_false, if_false, Except.ok.injEq] at h
        subst h
        obtain ⟨a, b, c⟩ := parseAddr_take hp
        have e : List.take (3 + n) (5 :: cmd :: rsv :: t) = 5 :: cmd :: rsv :: t.take n := by
          have : 3 + n = n + 1 + 1 + 1 := by omega
          rw [this]; simp
        simp only [e, parseRequest, a, ne_eq, not_true_eq_false, if_false, true_and]
        simp; omega
    · simp [parseRequest, hv] at h

end Mieru.Egress
