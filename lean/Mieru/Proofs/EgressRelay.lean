import Mieru.Proofs.Egress
/-!
# Helper lemmas for C12, round 3: zoned literals, the relay loop over sequences, name resolution
-/
set_option linter.unusedSimpArgs false
namespace Mieru.Egress
open Mieru.Ip

/-! ### `parseIPLiteral`'s zone cut -/

theorem cutZone_no_percent : ∀ (s : Name), (0x25 : UInt8) ∉ s → cutZone s = s
  | [], _ => rfl
  | b :: t, h => by
    have hb : b ≠ 0x25 := fun e => h (by simp [e])
    have ht : (0x25 : UInt8) ∉ t := fun e => h (by simp [e])
    simp [cutZone, hb, cutZone_no_percent t ht]

theorem cutZone_zone : ∀ (lit zone : Name), (0x25 : UInt8) ∉ lit → cutZone (lit ++ 0x25 :: zone) = lit
  | [], _, _ => by simp [cutZone]
  | b :: t, zone, h => by
    have hb : b ≠ 0x25 := fun e => h (by simp [e])
    have ht : (0x25 : UInt8) ∉ t := fun e => h (by simp [e])
    simp [cutZone, hb, cutZone_zone t zone ht]

theorem cutZone_idem (s : Name) : cutZone (cutZone s) = cutZone s := by
  induction s with
  | nil => rfl
  | cons b t ih =>
    by_cases hb : b = 0x25
    · simp [cutZone, hb]
    · simp [cutZone, hb, ih]

/-! ### a parsed destination has an address or a name, never both -/

theorem parseAddr_fqdn_ip {t : List UInt8} {dst : Dst} {n : Nat} (h : parseAddr t = .ok (dst, n))
    (hf : dst.fqdn ≠ []) : dst.ip = [] := by
  unfold parseAddr at h
  split at h
  · cases h
  · rename_i atyp r
    split at h
    · split at h
      · cases h
      · dsimp only at h
        split at h
        · simp only [Except.ok.injEq, Prod.mk.injEq] at h; obtain ⟨h, _⟩ := h; subst h; exact absurd rfl hf
        · cases h
    · split at h
      · split at h
        · cases h
        · dsimp only at h
          split at h
          · simp only [Except.ok.injEq, Prod.mk.injEq] at h; obtain ⟨h, _⟩ := h; subst h; exact absurd rfl hf
          · cases h
      · split at h
        · split at h
          · cases h
          · split at h
            · cases h
            · dsimp only at h
              split at h
              · simp only [Except.ok.injEq, Prod.mk.injEq] at h; obtain ⟨h, _⟩ := h; subst h; rfl
              · cases h
        · cases h

theorem parseRequest_fqdn_ip {data : List UInt8} {req : Request} (h : parseRequest data = .ok req)
    (hf : req.dst.fqdn ≠ []) : req.dst.ip = [] := by
  unfold parseRequest at h
  split at h
  · split at h
    · cases h
    · split at h
      · rename_i dst n hp
        simp only [Except.ok.injEq] at h
        subst h
        exact parseAddr_fqdn_ip hp hf
      · cases h
  · cases h

theorem parseDatagram_fqdn_ip {pkt : List UInt8} {dst : Dst} (h : parseDatagram pkt = some dst)
    (hf : dst.fqdn ≠ []) : dst.ip = [] := by
  unfold parseDatagram at h
  split at h
  · cases h
  · split at h
    · split at h
      · cases h
      · split at h
        · rename_i d n hp
          simp only [Option.some.injEq] at h
          subst h
          exact parseAddr_fqdn_ip hp hf
        · cases h
    · cases h

/-! ### unflagged users: what is not rejected is public -/

theorem checked_public_of_not_rejected {cfg : Config} {parseIP : Name → Option IP} {envUser : Option Name}
    {req : Request} {ip : IP} (hck : checkedIP parseIP req = some ip)
    (hr : rejectPrivateAndLoopback cfg parseIP envUser req ≠ .reject)
    (hl : mayLoopback cfg envUser = false) (hp : mayPrivate cfg envUser = false) :
    isPrivate ip = false ∧ (isLoopback ip || (isUnspecified ip && req.cmd == connectCmd)) = false := by
  constructor
  · cases h : isPrivate ip with
    | false => rfl
    | true => exact absurd (reject_of_checked_private hck h hp) hr
  · cases h : (isLoopback ip || (isUnspecified ip && req.cmd == connectCmd)) with
    | false => rfl
    | true => exact absurd (reject_of_checked hck h hl) hr

/-! ### the relay loop -/

theorem relayRun_length (mode : RelayMode) (cfg : Config) (parseIP : Name → Option IP) (envUser : Option Name) :
    ∀ (pkts : List (List UInt8)) (st : RelaySt), (relayRun mode cfg parseIP envUser st pkts).1.length = pkts.length
  | [], _ => rfl
  | pkt :: rest, st => by
    simp only [relayRun, List.length_cons]
    rw [relayRun_length mode cfg parseIP envUser rest]

theorem relayStep_ev (mode : RelayMode) (cfg : Config) (parseIP : Name → Option IP) (envUser : Option Name)
    (st : RelaySt) (pkt : List UInt8) :
    (relayStep mode cfg parseIP envUser st pkt).2 = .notRead ∨
    (relayStep mode cfg parseIP envUser st pkt).2 = .did (relayDatagram cfg parseIP envUser pkt) := by
  unfold relayStep
  by_cases he : st.ended = true
  · simp [he]
  · right
    simp only [he]
    cases relayDatagram cfg parseIP envUser pkt <;> rfl

/-- the i-th event depends on the i-th datagram alone (and on whether the loop is still running) -/
theorem relayRun_get (mode : RelayMode) (cfg : Config) (parseIP : Name → Option IP) (envUser : Option Name) :
    ∀ (pkts : List (List UInt8)) (st : RelaySt) (i : Nat) (ev : RelayEv),
      (relayRun mode cfg parseIP envUser st pkts).1[i]? = some ev →
      ev = .notRead ∨ ∃ pkt, pkts[i]? = some pkt ∧ ev = .did (relayDatagram cfg parseIP envUser pkt)
  | [], _, i, ev, h => by simp [relayRun] at h
  | pkt :: rest, st, 0, ev, h => by
    simp only [relayRun, List.getElem?_cons_zero, Option.some.injEq] at h
    rcases relayStep_ev mode cfg parseIP envUser st pkt with h1 | h1
    · left; rw [← h, h1]
    · right; exact ⟨pkt, rfl, by rw [← h, h1]⟩
  | pkt :: rest, st, i + 1, ev, h => by
    simp only [relayRun, List.getElem?_cons_succ] at h
    rcases relayRun_get mode cfg parseIP envUser rest _ i ev h with h1 | ⟨p, hp, h1⟩
    · exact Or.inl h1
    · exact Or.inr ⟨p, by simpa using hp, h1⟩

theorem relayStep_remembered (mode : RelayMode) (cfg : Config) (parseIP : Name → Option IP) (envUser : Option Name)
    (st : RelaySt) (pkt : List UInt8) (t : Target)
    (h : t ∈ (relayStep mode cfg parseIP envUser st pkt).1.remembered) :
    t ∈ st.remembered ∨ relayDatagram cfg parseIP envUser pkt = .send t := by
  unfold relayStep at h
  by_cases he : st.ended = true
  · simp [he] at h; exact Or.inl h
  · simp only [he] at h
    cases hr : relayDatagram cfg parseIP envUser pkt with
    | invalid => simp [hr] at h; exact Or.inl h
    | dropped => simp [hr] at h; exact Or.inl h
    | unresolvable => simp [hr] at h; exact Or.inl h
    | send t' =>
      simp [hr] at h
      rcases h with h | h
      · right; rw [h]
      · exact Or.inl h

/-- a destination is remembered (`addrMap` / `targetAddrs`) only for a datagram the filter let pass -/
theorem relayRun_remembered (mode : RelayMode) (cfg : Config) (parseIP : Name → Option IP) (envUser : Option Name) :
    ∀ (pkts : List (List UInt8)) (st : RelaySt) (t : Target),
      t ∈ (relayRun mode cfg parseIP envUser st pkts).2.remembered →
      t ∈ st.remembered ∨ ∃ pkt ∈ pkts, relayDatagram cfg parseIP envUser pkt = .send t
  | [], st, t, h => Or.inl h
  | pkt :: rest, st, t, h => by
    simp only [relayRun] at h
    rcases relayRun_remembered mode cfg parseIP envUser rest _ t h with h1 | ⟨p, hp, h1⟩
    · rcases relayStep_remembered mode cfg parseIP envUser st pkt t h1 with h2 | h2
      · exact Or.inl h2
      · exact Or.inr ⟨pkt, by simp, h2⟩
    · exact Or.inr ⟨p, by simp [hp], h1⟩

/-- datagram mode: the loop never ends on its own, every datagram is decided -/
theorem relayRun_datagram (cfg : Config) (parseIP : Name → Option IP) (envUser : Option Name) :
    ∀ (pkts : List (List UInt8)) (st : RelaySt), st.ended = false →
      (relayRun .datagram cfg parseIP envUser st pkts).1 = pkts.map fun p => .did (relayDatagram cfg parseIP envUser p)
  | [], _, _ => rfl
  | pkt :: rest, st, he => by
    have hstep : (relayStep .datagram cfg parseIP envUser st pkt).2 = .did (relayDatagram cfg parseIP envUser pkt) ∧
        (relayStep .datagram cfg parseIP envUser st pkt).1.ended = false := by
      unfold relayStep
      simp only [he]
      cases relayDatagram cfg parseIP envUser pkt <;> simp [he]
    simp only [relayRun, List.map_cons]
    rw [hstep.1, relayRun_datagram cfg parseIP envUser rest _ hstep.2]

theorem relayRun_ended (mode : RelayMode) (cfg : Config) (parseIP : Name → Option IP) (envUser : Option Name) :
    ∀ (pkts : List (List UInt8)) (st : RelaySt), st.ended = true →
      (relayRun mode cfg parseIP envUser st pkts).1 = pkts.map fun _ => .notRead
  | [], _, _ => rfl
  | pkt :: rest, st, he => by
    have hstep : relayStep mode cfg parseIP envUser st pkt = (st, .notRead) := by simp [relayStep, he]
    simp only [relayRun, hstep, List.map_cons]
    rw [relayRun_ended mode cfg parseIP envUser rest st he]

/-- packet-over-stream mode: every datagram up to and including the first unparsable one is decided, the
    loop returns there, nothing after it is read -/
theorem relayRun_stream (cfg : Config) (parseIP : Name → Option IP) (envUser : Option Name) :
    ∀ (pre : List (List UInt8)) (st : RelaySt), st.ended = false →
      (∀ p ∈ pre, relayDatagram cfg parseIP envUser p ≠ .invalid) →
      (relayRun .stream cfg parseIP envUser st pre).1 = (pre.map fun p => .did (relayDatagram cfg parseIP envUser p)) ∧
      ∀ (bad : List UInt8) (post : List (List UInt8)), relayDatagram cfg parseIP envUser bad = .invalid →
        (relayRun .stream cfg parseIP envUser st (pre ++ bad :: post)).1 =
          (pre.map fun p => .did (relayDatagram cfg parseIP envUser p)) ++ .did .invalid :: post.map fun _ => .notRead
  | [], st, he, _ => by
    refine ⟨rfl, fun bad post hb => ?_⟩
    have hstep : relayStep .stream cfg parseIP envUser st bad = ({ st with ended := true }, .did .invalid) := by
      simp [relayStep, he, hb]
    simp only [List.nil_append, relayRun, hstep, List.map_nil]
    rw [relayRun_ended .stream cfg parseIP envUser post _ rfl]
  | pkt :: rest, st, he, hpre => by
    have hne : relayDatagram cfg parseIP envUser pkt ≠ .invalid := hpre pkt (by simp)
    have hstep : (relayStep .stream cfg parseIP envUser st pkt).2 = .did (relayDatagram cfg parseIP envUser pkt) ∧
        (relayStep .stream cfg parseIP envUser st pkt).1.ended = false := by
      unfold relayStep
      simp only [he]
      cases hr : relayDatagram cfg parseIP envUser pkt <;> simp [he]
      exact hne hr
    obtain ⟨ih1, ih2⟩ := relayRun_stream cfg parseIP envUser rest _ hstep.2 (fun p hp => hpre p (by simp [hp]))
    refine ⟨?_, fun bad post hb => ?_⟩
    · simp only [relayRun, List.map_cons]
      rw [hstep.1, ih1]
    · simp only [List.cons_append, relayRun, List.map_cons]
      rw [hstep.1, ih2 bad post hb]

end Mieru.Egress
