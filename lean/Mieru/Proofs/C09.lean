import Mieru.Model.Spec
import Mieru.Model.NonceGo
/-!
# Lemmas and hypothesis packages for C09 (core tactics only)

Big-endian codec lemmas, metadata round trips, field offsets, nonce progression (including the
equality of the Go byte loop with the document's "+1"), segment framing round trips over an
abstract AEAD, UDP-associate encapsulation.
-/
namespace Mieru.Spec
open Mieru


theorem be_length (n x : Nat) : (be n x).length = n := by
  induction n generalizing x with
  | zero => rfl
  | succ n ih => simp [be, ih]

theorem fromBE_append_single (bs : Bytes) (b : UInt8) : fromBE (bs ++ [b]) = fromBE bs * 256 + b.toNat := by
  simp [fromBE]

theorem fromBE_be (n x : Nat) : fromBE (be n x) = x % 256 ^ n := by
  induction n generalizing x with
  | zero => simp [be, fromBE, Nat.mod_one]
  | succ n ih =>
    simp only [be, fromBE_append_single, ih, Nat.pow_succ]
    have h : (UInt8.ofNat (x % 256)).toNat = x % 256 := by
      simp
    rw [h]
    have := Nat.mod_mul (a := 256) (b := 256 ^ n) (x := x)
    rw [Nat.mul_comm (256 ^ n) 256, Nat.mod_mul]
    omega

theorem rev_ind {P : Bytes → Prop} (hnil : P []) (snoc : ∀ bs b, P bs → P (bs ++ [b])) : ∀ bs, P bs := by
  intro bs
  have h : P bs.reverse.reverse := by
    induction bs.reverse with
    | nil => exact hnil
    | cons b l ih => simp only [List.reverse_cons]; exact snoc _ _ ih
  simpa using h

theorem fromBE_lt (bs : Bytes) : fromBE bs < 256 ^ bs.length := by
  induction bs using rev_ind with
  | hnil => simp [fromBE]
  | snoc bs b ih =>
    rw [fromBE_append_single]
    simp only [List.length_append, List.length_singleton, Nat.pow_succ]
    have := b.toNat_lt
    omega

theorem be_fromBE (bs : Bytes) : be bs.length (fromBE bs) = bs := by
  induction bs using rev_ind with
  | hnil => rfl
  | snoc bs b ih =>
    rw [fromBE_append_single]
    simp only [List.length_append, List.length_singleton, be]
    have hb := b.toNat_lt
    have h1 : (fromBE bs * 256 + b.toNat) / 256 = fromBE bs := by omega
    have h2 : (fromBE bs * 256 + b.toNat) % 256 = b.toNat := by omega
    rw [h1, h2, ih]
    simp

theorem takeBE_be (w x : Nat) (rest : Bytes) : takeBE w (be w x ++ rest) = (x % 256 ^ w, rest) := by
  have hl := be_length w x
  simp only [takeBE]
  rw [List.take_left' hl, List.drop_left' hl, fromBE_be]

theorem takeBE_zeros_snd (w : Nat) (rest : Bytes) : (takeBE w (zeros w ++ rest)).2 = rest := by
  simp only [takeBE, zeros]
  exact List.drop_left' (by simp)

theorem session_len (m : SessionMeta) : m.encode.length = 32 := by
  simp [SessionMeta.encode, be_length, zeros]

theorem session_roundtrip (m : SessionMeta) (h : m.inRange) : SessionMeta.decode m.encode = some m := by
  obtain ⟨hp, h1, h2, h3, h4, h5, h6⟩ := h
  have hp' : m.protocol < 256 := by unfold isSessionType at hp; omega
  simp only [SessionMeta.decode, session_len, ne_eq, not_true_eq_false, if_false]
  simp only [SessionMeta.encode, takeBE_be, takeBE_zeros_snd]
  have e0 : m.protocol % 256 ^ 1 = m.protocol := Nat.mod_eq_of_lt (by omega)
  have e1 : m.timestamp % 256 ^ 4 = m.timestamp := Nat.mod_eq_of_lt (by omega)
  have e2 : m.sessionID % 256 ^ 4 = m.sessionID := Nat.mod_eq_of_lt (by omega)
  have e3 : m.seq % 256 ^ 4 = m.seq := Nat.mod_eq_of_lt (by omega)
  have e4 : m.status % 256 ^ 1 = m.status := Nat.mod_eq_of_lt (by omega)
  have e5 : m.payloadLen % 256 ^ 2 = m.payloadLen := Nat.mod_eq_of_lt (by omega)
  have e6 : m.suffixLen % 256 ^ 1 = m.suffixLen := Nat.mod_eq_of_lt (by omega)
  simp only [e0, e1, e2, e3, e4, e5, e6, hp, if_true]

theorem data_len (m : DataMeta) : m.encode.length = 32 := by
  simp [DataMeta.encode, be_length, zeros]

theorem le_len (m : LEMeta) : m.encode.length = 32 := by
  simp [LEMeta.encode, be_length]

theorem data_roundtrip (m : DataMeta) (h : m.inRange) : DataMeta.decode m.encode = some m := by
  obtain ⟨hp, h1, h2, h3, h4, h5, h6, h7, h8, h9⟩ := h
  have hp' : m.protocol < 256 := by unfold isDataType at hp; omega
  simp only [DataMeta.decode, data_len, ne_eq, not_true_eq_false, if_false]
  simp only [DataMeta.encode, takeBE_be, takeBE_zeros_snd]
  have e0 : m.protocol % 256 ^ 1 = m.protocol := Nat.mod_eq_of_lt (by omega)
  have e1 : m.timestamp % 256 ^ 4 = m.timestamp := Nat.mod_eq_of_lt (by omega)
  have e2 : m.sessionID % 256 ^ 4 = m.sessionID := Nat.mod_eq_of_lt (by omega)
  have e3 : m.seq % 256 ^ 4 = m.seq := Nat.mod_eq_of_lt (by omega)
  have e4 : m.unAckSeq % 256 ^ 4 = m.unAckSeq := Nat.mod_eq_of_lt (by omega)
  have e5 : m.windowSize % 256 ^ 2 = m.windowSize := Nat.mod_eq_of_lt (by omega)
  have e6 : m.fragment % 256 ^ 1 = m.fragment := Nat.mod_eq_of_lt (by omega)
  have e7 : m.prefixLen % 256 ^ 1 = m.prefixLen := Nat.mod_eq_of_lt (by omega)
  have e8 : m.payloadLen % 256 ^ 2 = m.payloadLen := Nat.mod_eq_of_lt (by omega)
  have e9 : m.suffixLen % 256 ^ 1 = m.suffixLen := Nat.mod_eq_of_lt (by omega)
  simp only [e0, e1, e2, e3, e4, e5, e6, e7, e8, e9, hp, if_true]

theorem takeBE_be_nil (w x : Nat) : takeBE w (be w x) = (x % 256 ^ w, []) := by
  have := takeBE_be w x []
  simpa using this

theorem le_roundtrip (m : LEMeta) (h : m.inRange) : LEMeta.decode m.encode = some m := by
  obtain ⟨hp, h0, h1, h2, h3, h4, h5, h6, h7, h8, h9, h10, h11, h12⟩ := h
  have hp' : m.protocol < 256 := by unfold isLEType at hp; omega
  simp only [LEMeta.decode, le_len, ne_eq, not_true_eq_false, if_false]
  simp only [LEMeta.encode, takeBE_be, takeBE_be_nil]
  have e0 : m.protocol % 256 ^ 1 = m.protocol := Nat.mod_eq_of_lt (by omega)
  have e00 : m.mode % 256 ^ 1 = m.mode := Nat.mod_eq_of_lt (by omega)
  have e1 : m.timestamp % 256 ^ 4 = m.timestamp := Nat.mod_eq_of_lt (by omega)
  have e2 : m.sessionID % 256 ^ 4 = m.sessionID := Nat.mod_eq_of_lt (by omega)
  have e3 : m.seq % 256 ^ 4 = m.seq := Nat.mod_eq_of_lt (by omega)
  have e4 : m.unAckSeq % 256 ^ 4 = m.unAckSeq := Nat.mod_eq_of_lt (by omega)
  have e5 : m.windowSize % 256 ^ 2 = m.windowSize := Nat.mod_eq_of_lt (by omega)
  have e6 : m.fragment % 256 ^ 1 = m.fragment := Nat.mod_eq_of_lt (by omega)
  have e7 : m.prefixLen % 256 ^ 1 = m.prefixLen := Nat.mod_eq_of_lt (by omega)
  have e8 : m.payloadLen % 256 ^ 2 = m.payloadLen := Nat.mod_eq_of_lt (by omega)
  have e9 : m.suffixLen % 256 ^ 1 = m.suffixLen := Nat.mod_eq_of_lt (by omega)
  have e10 : m.mask % 256 ^ 4 = m.mask := Nat.mod_eq_of_lt (by omega)
  have e11 : m.extractedLen % 256 ^ 2 = m.extractedLen := Nat.mod_eq_of_lt (by omega)
  have e12 : m.rotation % 256 ^ 1 = m.rotation := Nat.mod_eq_of_lt (by omega)
  simp only [e0, e00, e1, e2, e3, e4, e5, e6, e7, e8, e9, e10, e11, e12, hp, if_true]

theorem meta_len (m : Meta) : m.encode.length = 32 := by
  cases m <;> simp [Meta.encode, session_len, data_len, le_len]

/-- first byte of an encoding is the type byte -/
theorem be1_head (x : Nat) (rest : Bytes) : be 1 x ++ rest = UInt8.ofNat (x % 256) :: rest := by
  simp [be]

theorem meta_roundtrip (m : Meta) (h : m.inRange) : Meta.decode m.encode = some m := by
  cases m with
  | session s =>
    have hp : isSessionType s.protocol := h.1
    have hr := session_roundtrip s h
    have hh : s.encode = UInt8.ofNat (s.protocol % 256) :: (s.encode.drop 1) := by
      simp [SessionMeta.encode, be]
    have hb : (UInt8.ofNat (s.protocol % 256)).toNat = s.protocol := by
      unfold isSessionType at hp
      simp; omega
    simp only [Meta.encode]
    rw [hh]
    simp only [Meta.decode, hb, hp, if_true]
    rw [← hh, hr]; rfl
  | data s =>
    have hp : isDataType s.protocol := h.1
    have hr := data_roundtrip s h
    have hh : s.encode = UInt8.ofNat (s.protocol % 256) :: (s.encode.drop 1) := by
      simp [DataMeta.encode, be]
    have hb : (UInt8.ofNat (s.protocol % 256)).toNat = s.protocol := by
      unfold isDataType at hp
      simp; omega
    have hn : ¬ isSessionType s.protocol := by unfold isSessionType; unfold isDataType at hp; omega
    simp only [Meta.encode]
    rw [hh]
    simp only [Meta.decode, hb, hp, hn, if_true, if_false]
    rw [← hh, hr]; rfl
  | le s =>
    have hp : isLEType s.protocol := h.1
    have hr := le_roundtrip s h
    have hh : s.encode = UInt8.ofNat (s.protocol % 256) :: (s.encode.drop 1) := by
      simp [LEMeta.encode, be]
    have hb : (UInt8.ofNat (s.protocol % 256)).toNat = s.protocol := by
      unfold isLEType at hp
      simp; omega
    have hn : ¬ isSessionType s.protocol := by unfold isSessionType; unfold isLEType at hp; omega
    have hn2 : ¬ isDataType s.protocol := by unfold isDataType; unfold isLEType at hp; omega
    simp only [Meta.encode]
    rw [hh]
    simp only [Meta.decode, hb, hp, hn, hn2, if_true, if_false]
    rw [← hh, hr]; rfl

theorem meta_injective (a b : Meta) (ha : a.inRange) (hb : b.inRange) (h : a.encode = b.encode) : a = b := by
  have := meta_roundtrip a ha
  rw [h, meta_roundtrip b hb] at this
  exact (Option.some.inj this).symm

/-! ## Field offsets -/

def SessionMeta.field (m : SessionMeta) : String → Nat
  | "protocol" => m.protocol | "timestamp" => m.timestamp | "sessionID" => m.sessionID | "seq" => m.seq
  | "status" => m.status | "payloadLen" => m.payloadLen | "suffixLen" => m.suffixLen | _ => 0

def DataMeta.field (m : DataMeta) : String → Nat
  | "protocol" => m.protocol | "timestamp" => m.timestamp | "sessionID" => m.sessionID | "seq" => m.seq
  | "unAckSeq" => m.unAckSeq | "windowSize" => m.windowSize | "fragment" => m.fragment
  | "prefixLen" => m.prefixLen | "payloadLen" => m.payloadLen | "suffixLen" => m.suffixLen | _ => 0

def LEMeta.field (m : LEMeta) : String → Nat
  | "protocol" => m.protocol | "mode" => m.mode | "timestamp" => m.timestamp | "sessionID" => m.sessionID
  | "seq" => m.seq | "unAckSeq" => m.unAckSeq | "windowSize" => m.windowSize | "fragment" => m.fragment
  | "prefixLen" => m.prefixLen | "payloadLen" => m.payloadLen | "suffixLen" => m.suffixLen
  | "mask" => m.mask | "extractedLen" => m.extractedLen | "rotation" => m.rotation | _ => 0

theorem drop_be (n k x : Nat) (h : n ≤ k) : (be n x).drop k = [] :=
  List.drop_eq_nil_of_le (by rw [be_length]; exact h)

theorem take_be_self (n x : Nat) : (be n x).take n = be n x :=
  List.take_of_length_le (by rw [be_length]; exact Nat.le_refl n)

theorem session_offsets (m : SessionMeta) :
    ∀ e ∈ sessionOffsets, ((m.encode).drop e.2.1).take e.2.2 = be e.2.2 (m.field e.1) := by
  intro e he
  simp only [sessionOffsets, List.mem_cons, List.not_mem_nil, or_false] at he
  rcases he with rfl | rfl | rfl | rfl | rfl | rfl | rfl <;>
    simp [SessionMeta.encode, SessionMeta.field, zeros, List.drop_append, be_length, drop_be]

theorem data_offsets (m : DataMeta) :
    ∀ e ∈ dataOffsets, ((m.encode).drop e.2.1).take e.2.2 = be e.2.2 (m.field e.1) := by
  intro e he
  simp only [dataOffsets, List.mem_cons, List.not_mem_nil, or_false] at he
  rcases he with rfl | rfl | rfl | rfl | rfl | rfl | rfl | rfl | rfl | rfl <;>
    simp [DataMeta.encode, DataMeta.field, zeros, List.drop_append, be_length, drop_be]

theorem le_offsets (m : LEMeta) :
    ∀ e ∈ leOffsets, ((m.encode).drop e.2.1).take e.2.2 = be e.2.2 (m.field e.1) := by
  intro e he
  simp only [leOffsets, List.mem_cons, List.not_mem_nil, or_false] at he
  rcases he with rfl | rfl | rfl | rfl | rfl | rfl | rfl | rfl | rfl | rfl | rfl | rfl | rfl | rfl <;>
    simp [LEMeta.encode, LEMeta.field, List.drop_append, be_length, drop_be, take_be_self]

/-! ## Nonce progression -/

theorem incr_length (n : Bytes) : (incr n).length = n.length := by simp [incr, be_length]

theorem fromBE_incr (n : Bytes) : fromBE (incr n) = (fromBE n + 1) % 256 ^ n.length := by
  simp [incr, fromBE_be]

theorem fromBE_inj (a b : Bytes) (hl : a.length = b.length) (h : fromBE a = fromBE b) : a = b := by
  rw [← be_fromBE a, ← be_fromBE b, hl, h]

theorem incr_injective (a b : Bytes) (hl : a.length = b.length) (h : incr a = incr b) : a = b := by
  apply fromBE_inj a b hl
  have h1 := fromBE_incr a
  have h2 := fromBE_incr b
  rw [h, hl] at h1
  have ha := fromBE_lt a
  have hb := fromBE_lt b
  rw [hl] at ha
  have hpos : 0 < 256 ^ b.length := Nat.pow_pos (by decide)
  generalize 256 ^ b.length = M at *
  generalize fromBE a = x at *
  generalize fromBE b = y at *
  have e : (x + 1) % M = (y + 1) % M := by rw [← h1, ← h2]
  by_cases hx : x + 1 = M
  · by_cases hy : y + 1 = M
    · omega
    · have : (y + 1) % M = y + 1 := Nat.mod_eq_of_lt (by omega)
      rw [hx, Nat.mod_self] at e; omega
  · have ex : (x + 1) % M = x + 1 := Nat.mod_eq_of_lt (by omega)
    by_cases hy : y + 1 = M
    · rw [hy, Nat.mod_self] at e; omega
    · have : (y + 1) % M = y + 1 := Nat.mod_eq_of_lt (by omega)
      omega

theorem nthNonce_length (n0 : Bytes) (i : Nat) : (nthNonce n0 i).length = n0.length := by
  induction i with
  | zero => rfl
  | succ i ih => simp [nthNonce, incr_length, ih]

theorem fromBE_nthNonce (n0 : Bytes) (i : Nat) : fromBE (nthNonce n0 i) = (fromBE n0 + i) % 256 ^ n0.length := by
  induction i with
  | zero => simp [nthNonce]; exact (Nat.mod_eq_of_lt (fromBE_lt n0)).symm
  | succ i ih =>
    simp only [nthNonce, fromBE_incr, nthNonce_length, ih]
    rw [Nat.add_mod, Nat.mod_mod, ← Nat.add_mod]
    rfl

theorem nthNonce_injective (n0 : Bytes) (i j : Nat) (hi : i < 256 ^ n0.length) (hj : j < 256 ^ n0.length)
    (h : nthNonce n0 i = nthNonce n0 j) : i = j := by
  have h1 := fromBE_nthNonce n0 i
  have h2 := fromBE_nthNonce n0 j
  rw [h] at h1
  have e : (fromBE n0 + i) % 256 ^ n0.length = (fromBE n0 + j) % 256 ^ n0.length := by rw [← h1, ← h2]
  have hx := fromBE_lt n0
  generalize 256 ^ n0.length = M at *
  generalize fromBE n0 = x at *
  -- both sums are below 2M
  by_cases c1 : x + i < M
  · rw [Nat.mod_eq_of_lt c1] at e
    by_cases c2 : x + j < M
    · rw [Nat.mod_eq_of_lt c2] at e; omega
    · have : (x + j) % M = x + j - M := by
        rw [Nat.mod_eq_sub_mod (by omega)]; exact Nat.mod_eq_of_lt (by omega)
      omega
  · have e1 : (x + i) % M = x + i - M := by
      rw [Nat.mod_eq_sub_mod (by omega)]; exact Nat.mod_eq_of_lt (by omega)
    by_cases c2 : x + j < M
    · rw [Nat.mod_eq_of_lt c2] at e; omega
    · have : (x + j) % M = x + j - M := by
        rw [Nat.mod_eq_sub_mod (by omega)]; exact Nat.mod_eq_of_lt (by omega)
      omega

/-! incrGo = incr -/
open Mieru.NonceGo

def fromLE : Bytes → Nat
  | [] => 0
  | b :: bs => b.toNat + 256 * fromLE bs

theorem incrLE_length (l : Bytes) : (incrLE l).length = l.length := by
  induction l with
  | nil => rfl
  | cons b bs ih => simp only [incrLE]; split <;> simp [ih]

theorem fromLE_lt (l : Bytes) : fromLE l < 256 ^ l.length := by
  induction l with
  | nil => simp [fromLE]
  | cons b bs ih =>
    simp only [fromLE, List.length_cons, Nat.pow_succ]
    have := b.toNat_lt
    omega

theorem fromLE_incrLE (l : Bytes) : fromLE (incrLE l) = (fromLE l + 1) % 256 ^ l.length := by
  induction l with
  | nil => simp [incrLE, fromLE]
  | cons b bs ih =>
    have hb := b.toNat_lt
    have hlt := fromLE_lt bs
    have hadd : (b + 1).toNat = (b.toNat + 1) % 256 := by
      rw [UInt8.toNat_add]; rfl
    simp only [incrLE]
    by_cases hz : b + 1 = 0
    · have hbz : (b.toNat + 1) % 256 = 0 := by rw [← hadd, hz]; rfl
      have hb255 : b.toNat = 255 := by omega
      simp only [hz, ne_eq, not_true_eq_false, if_false, fromLE, ih, List.length_cons, Nat.pow_succ]
      have : (0 : UInt8).toNat = 0 := rfl
      rw [this, hb255]
      have hpos : 0 < 256 ^ bs.length := Nat.pow_pos (by decide)
      generalize 256 ^ bs.length = M at *
      generalize fromLE bs = y at *
      -- (255 + 256 y + 1) % (M*256) = 256 * ((y+1) % M)
      have : 255 + 256 * y + 1 = 256 * (y + 1) := by omega
      rw [this, Nat.mul_comm M 256, Nat.mul_mod_mul_left]
      omega
    · have hne : (b.toNat + 1) % 256 ≠ 0 := by
        intro h0
        apply hz
        apply UInt8.toNat_inj.mp
        rw [hadd, h0]; rfl
      have hbl : b.toNat + 1 < 256 := by omega
      simp only [hz, ne_eq, not_false_eq_true, if_true, fromLE, List.length_cons, Nat.pow_succ, hadd]
      have hpos : 0 < 256 ^ bs.length := Nat.pow_pos (by decide)
      rw [Nat.mod_eq_of_lt hbl]
      generalize 256 ^ bs.length = M at *
      generalize fromLE bs = y at *
      have : b.toNat + 256 * y + 1 < M * 256 := by omega
      rw [Nat.mod_eq_of_lt this]
      omega

theorem fromBE_reverse (l : Bytes) : fromBE l.reverse = fromLE l := by
  induction l with
  | nil => rfl
  | cons b bs ih =>
    simp only [List.reverse_cons, fromBE_append_single, ih, fromLE]
    omega

theorem incrGo_eq_incr (n : Bytes) : incrGo n = incr n := by
  apply fromBE_inj
  · simp [incrGo, incrLE_length, incr_length]
  · rw [fromBE_incr]
    simp only [incrGo]
    rw [fromBE_reverse, fromLE_incrLE, ← fromBE_reverse, List.reverse_reverse, List.length_reverse]

/-! ## Segment framing over an abstract AEAD -/

structure AeadLaws (A : AeadFns) : Prop where
  seal_len : ∀ k n p, (A.sealF k n p).length = p.length + 16
  open_seal : ∀ k n p, A.openF k n (A.sealF k n p) = some p

/-- what the framing theorems need from the low-entropy body codec (property C17's round trip and
    length law) -/
def LELaw : Prop :=
  ∀ src mode half rot pad enc, LowEntropy.encode src mode half rot pad = some enc →
    LowEntropy.decode enc src.length mode half rot = some src ∧
    LowEntropy.encodedLen src.length mode = some enc.length

def Segment.wf (s : Segment) : Prop :=
  s.md.inRange ∧ s.md.valid = true ∧ s.md.prefixLen = s.pad1.length ∧ s.md.suffixLen = s.pad2.length ∧
  (match s.md with
   | .le l => l.extractedLen = s.payload.length
   | m => m.payloadLen = s.payload.length)

theorem encodedLen_pos (n mode L : Nat) (hn : n ≠ 0) (h : LowEntropy.encodedLen n mode = some L) : L ≠ 0 := by
  unfold LowEntropy.encodedLen LowEntropy.sourceBytes LowEntropy.ceilDiv at h
  split at h
  · cases h
  · rename_i c hc
    simp only [hn, if_false] at h
    split at h
    · cases h
    · simp only [Option.some.injEq] at h
      split at hc <;> simp only [Option.some.injEq, reduceCtorEq] at hc <;> subst hc <;> omega

theorem metaValid_le (l : LEMeta) (h : (Meta.le l).valid = true) (hn : l.extractedLen ≠ 0) :
    LowEntropy.encodedLen l.extractedLen l.mode = some l.payloadLen := by
  simp only [Meta.valid, LowEntropy.metaValid, Bool.and_eq_true] at h
  obtain ⟨_, h5⟩ := h
  have hne : (l.extractedLen == 0) = false := by simpa using hn
  simp only [hne, Bool.false_eq_true, if_false] at h5
  split at h5
  · simp at h5
  · rename_i el hel
    simp only [beq_iff_eq] at h5
    rw [hel, h5]

theorem metaValid_le_zero (l : LEMeta) (h : (Meta.le l).valid = true) (hn : l.extractedLen = 0) :
    l.payloadLen = 0 := by
  simp only [Meta.valid, LowEntropy.metaValid, Bool.and_eq_true] at h
  obtain ⟨_, h5⟩ := h
  simpa [hn] using h5

theorem body_spec (A : AeadFns) (hA : AeadLaws A) (key nonce : Bytes) (s : Segment) (hle : (∃ l, s.md = Meta.le l) → LELaw) (hw : s.wf)
    (lePad : Bool) (body : Bytes) (hb : sealBody A key nonce s.md s.payload lePad = some body) :
    (s.payload = [] ∧ body = [] ∧ s.md.payloadLen = 0) ∨
    (s.md.payloadLen ≠ 0 ∧ body.length = s.md.payloadLen + 16 ∧ openBody A key nonce s.md body = .ok s.payload) := by
  obtain ⟨hr, hv, h1, h2, h3⟩ := hw
  unfold sealBody at hb
  by_cases hp : s.payload = []
  · left
    simp only [hp, if_true, Option.some.injEq] at hb
    refine ⟨hp, hb.symm, ?_⟩
    cases hm : s.md with
    | le l =>
      rw [hm] at h3 hv
      simp only [hp, List.length_nil] at h3
      simpa [Meta.payloadLen] using metaValid_le_zero l hv h3
    | session m => rw [hm] at h3; simpa [hp] using h3
    | data m => rw [hm] at h3; simpa [hp] using h3
  · right
    have hpl : s.payload.length ≠ 0 := fun h => hp (List.eq_nil_of_length_eq_zero h)
    simp only [hp, if_false] at hb
    have hcl := hA.seal_len key nonce s.payload
    cases hm : s.md with
    | session m =>
      rw [hm] at hb h3
      simp only [Option.some.injEq] at hb
      subst hb
      simp only [Meta.payloadLen] at h3 ⊢
      refine ⟨by omega, by omega, ?_⟩
      simp [openBody, hA.open_seal]
    | data m =>
      rw [hm] at hb h3
      simp only [Option.some.injEq] at hb
      subst hb
      simp only [Meta.payloadLen] at h3 ⊢
      refine ⟨by omega, by omega, ?_⟩
      simp [openBody, hA.open_seal]
    | le l =>
      rw [hm] at hb h3 hv
      simp only [Option.map_eq_some_iff] at hb
      obtain ⟨enc, henc, hbody⟩ := hb
      generalize hc : A.sealF key nonce s.payload = c at *
      have hct : (c.take (c.length - 16)).length = s.payload.length := by
        simp only [List.length_take]; omega
      obtain ⟨hdec, hel⟩ := hle ⟨l, hm⟩ _ _ _ _ _ _ henc
      rw [hct] at hdec hel
      have hel2 := metaValid_le l hv (by omega)
      rw [h3, hel] at hel2
      have hpl2 : l.payloadLen = enc.length := (Option.some.inj hel2).symm
      have hnz := encodedLen_pos _ _ _ hpl hel
      simp only [Meta.payloadLen]
      refine ⟨by omega, ?_, ?_⟩
      · subst hbody
        simp only [List.length_append, List.length_drop]; omega
      · subst hbody
        simp only [openBody, hpl2, h3]
        rw [List.take_left' rfl, List.drop_left' rfl, hdec]
        simp only [Option.map_some]
        rw [List.take_append_drop, ← hc, hA.open_seal]

theorem parseMeta_encode (md : Meta) (hr : md.inRange) (hv : md.valid = true) : parseMeta md.encode = .ok md := by
  simp [parseMeta, meta_roundtrip md hr, hv]

theorem take_left (x y : Bytes) (n : Nat) (h : x.length = n) : (x ++ y).take n = x := List.take_left' h
theorem drop_left (x y : Bytes) (n : Nat) (h : x.length = n) : (x ++ y).drop n = y := List.drop_left' h

/-- the part of a segment after the (nonce and) encrypted metadata -/
def tail (s : Segment) (body : Bytes) : Bytes := s.pad1 ++ (body ++ s.pad2)

theorem udp_roundtrip (A : AeadFns) (hA : AeadLaws A) (hle : LELaw) (key nonce : Bytes) (hn : nonce.length = 24)
    (s : Segment) (hw : s.wf) (lePad : Bool) (d : Bytes) (hs : udpSeal A key nonce s lePad = some d) :
    udpOpen A key d = .ok (s.md, s.payload) := by
  simp only [udpSeal, Option.map_eq_some_iff] at hs
  obtain ⟨body, hb, hd⟩ := hs
  have hbs := body_spec A hA key nonce s (fun _ => hle) hw lePad body hb
  obtain ⟨hr, hv, h1, h2, _⟩ := hw
  have hm : (A.sealF key nonce s.md.encode).length = 48 := by rw [hA.seal_len, meta_len]
  subst hd
  have hlen : ¬ (nonce ++ (A.sealF key nonce s.md.encode ++ (s.pad1 ++ (body ++ s.pad2)))).length < 72 := by
    simp only [List.length_append, hn, hm]; omega
  have ht : (nonce ++ (A.sealF key nonce s.md.encode ++ (s.pad1 ++ (body ++ s.pad2)))).take 24 = nonce :=
    take_left _ _ _ hn
  have hmt : ((nonce ++ (A.sealF key nonce s.md.encode ++ (s.pad1 ++ (body ++ s.pad2)))).drop 24).take 48
      = A.sealF key nonce s.md.encode := by
    rw [drop_left _ _ _ hn]; exact take_left _ _ _ hm
  have hrest : (nonce ++ (A.sealF key nonce s.md.encode ++ (s.pad1 ++ (body ++ s.pad2)))).drop 72
      = s.pad1 ++ (body ++ s.pad2) := by
    have : (72 : Nat) = 24 + 48 := rfl
    rw [this, ← List.drop_drop, drop_left _ _ _ hn, drop_left _ _ _ hm]
  simp only [udpOpen, hlen, if_false, ht, hmt, hA.open_seal, parseMeta_encode s.md hr hv, hrest]
  rcases hbs with ⟨hp, hb0, hz⟩ | ⟨hnz, hbl, hob⟩
  · subst hb0
    simp only [hz, if_true, hp, List.nil_append, List.length_append, h1, h2]
  · have hl : (s.pad1 ++ (body ++ s.pad2)).length = s.md.prefixLen + (s.md.payloadLen + 16) + s.md.suffixLen := by
      simp only [List.length_append, h1, h2, hbl]; omega
    have hbd : ((s.pad1 ++ (body ++ s.pad2)).drop s.md.prefixLen).take (s.md.payloadLen + 16) = body := by
      rw [drop_left _ _ _ h1.symm]; exact take_left _ _ _ hbl
    simp only [hnz, if_false, hl, if_true, hbd, hob]

/-- sender and receiver of one direction agree on key and next nonce.  Before the first segment
    the receiver only has candidate keys: the sender's key is among them and the others do not
    authenticate what it seals under its first nonce (key commitment, an AEAD idealisation). -/
def InSync (A : AeadFns) (t : Tx) (r : Rx) : Prop :=
  (t.started = false ∧ r.key = none ∧ t.nonce.length = 24 ∧ t.key ∈ r.cands ∧
     ∀ k ∈ r.cands, k ≠ t.key → ∀ p, A.openF k t.nonce (A.sealF t.key t.nonce p) = none) ∨
  (t.started = true ∧ r.key = some t.key ∧ r.nonce = t.nonce)

/-- `InSync` with the key-commitment clause restricted to ONE plaintext `p` (the metadata the sender
    seals first): "the other candidate keys do not authenticate THIS ciphertext" — a statement about
    one forgery attempt per candidate, which a real AEAD can satisfy, where `∀ p` cannot. -/
def InSyncFor (A : AeadFns) (t : Tx) (r : Rx) (p : Bytes) : Prop :=
  (t.started = false ∧ r.key = none ∧ t.nonce.length = 24 ∧ t.key ∈ r.cands ∧
     ∀ k ∈ r.cands, k ≠ t.key → A.openF k t.nonce (A.sealF t.key t.nonce p) = none) ∨
  (t.started = true ∧ r.key = some t.key ∧ r.nonce = t.nonce)

theorem InSync.toFor {A : AeadFns} {t : Tx} {r : Rx} (h : InSync A t r) (p : Bytes) : InSyncFor A t r p := by
  rcases h with ⟨a, b, c, d, e⟩ | h
  · exact Or.inl ⟨a, b, c, d, fun k hk hne => e k hk hne p⟩
  · exact Or.inr h

theorem selectKey_finds (A : AeadFns) (hA : AeadLaws A) (key nonce p : Bytes) (cands : List Bytes)
    (hin : key ∈ cands) (hw : ∀ k ∈ cands, k ≠ key → A.openF k nonce (A.sealF key nonce p) = none) :
    selectKey A nonce (A.sealF key nonce p) cands = some (key, p) := by
  induction cands with
  | nil => simp at hin
  | cons k ks ih =>
    simp only [selectKey]
    by_cases hk : k = key
    · subst hk; simp [hA.open_seal]
    · rw [hw k (by simp) hk]
      simp only
      apply ih
      · simp only [List.mem_cons] at hin
        rcases hin with h | h
        · exact absurd h.symm hk
        · exact h
      · intro k' hk' hne
        exact hw k' (by simp [hk']) hne

theorem tcp_parse_one_for (A : AeadFns) (hA : AeadLaws A) (hle : LELaw) (t t' : Tx) (r : Rx)
    (s : Segment) (hsync : InSyncFor A t r s.md.encode) (hw : s.wf) (lePad : Bool) (bytes rest : Bytes)
    (hs : tcpSeal A t s lePad = some (bytes, t')) (hbuf : r.buf = bytes ++ rest) :
    parseOne A r = .ok t.key s.md s.payload bytes.length t'.nonce := by
  simp only [tcpSeal, Option.map_eq_some_iff, Prod.mk.injEq] at hs
  obtain ⟨body, hb, hbytes, ht'⟩ := hs
  have hbs := body_spec A hA t.key (incr t.nonce) s (fun _ => hle) hw lePad body hb
  obtain ⟨hr, hv, h1, h2, _⟩ := hw
  have hm : (A.sealF t.key t.nonce s.md.encode).length = 48 := by rw [hA.seal_len, meta_len]
  have hnn : t'.nonce = if s.payload = [] then incr t.nonce else incr (incr t.nonce) := by rw [← ht']
  rcases hsync with ⟨hst, hk, hnl, hin, hwrong⟩ | ⟨hst, hk, hnr⟩
  · -- first segment: nonce on the wire
    simp only [hst, Bool.false_eq_true, if_false] at hbytes
    subst hbytes
    have e : r.buf = t.nonce ++ (A.sealF t.key t.nonce s.md.encode ++ (s.pad1 ++ (body ++ s.pad2) ++ rest)) := by
      rw [hbuf]; simp only [List.append_assoc]
    have hl0 : ¬ r.buf.length < 24 + 48 := by rw [e]; simp only [List.length_append, hnl, hm]; omega
    have ht : r.buf.take 24 = t.nonce := by rw [e]; exact take_left _ _ _ hnl
    have hmt : (r.buf.drop 24).take 48 = A.sealF t.key t.nonce s.md.encode := by
      rw [e, drop_left _ _ _ hnl]; exact take_left _ _ _ hm
    have hsel := selectKey_finds A hA t.key t.nonce s.md.encode r.cands hin (fun k hk' hne => hwrong k hk' hne)
    simp only [parseOne, hk, Option.isNone_none, if_true, hl0, if_false, ht, hmt, hsel,
      parseMeta_encode s.md hr hv]
    rcases hbs with ⟨hp, hb0, hz⟩ | ⟨hnz, hbl, hob⟩
    · subst hb0
      have hl1 : ¬ r.buf.length < 24 + 48 + s.md.prefixLen + s.md.suffixLen := by
        rw [e]; simp only [List.length_append, hnl, hm, h1, h2, List.length_nil]; omega
      simp only [hz, if_true, hl1, if_false, hnn, hp]
      simp only [List.length_append, hnl, hm, h1, h2, List.length_nil, Parse.ok.injEq, true_and, and_true]
      omega
    · have hl1 : ¬ r.buf.length < 24 + 48 + s.md.prefixLen + (s.md.payloadLen + 16) + s.md.suffixLen := by
        rw [e]; simp only [List.length_append, hnl, hm, h1, h2, hbl]; omega
      have hbd : (r.buf.drop (24 + 48 + s.md.prefixLen)).take (s.md.payloadLen + 16) = body := by
        have e2 : r.buf = (t.nonce ++ (A.sealF t.key t.nonce s.md.encode ++ s.pad1)) ++ (body ++ (s.pad2 ++ rest)) := by
          rw [e]; simp only [List.append_assoc]
        rw [e2, drop_left _ _ _ (by simp only [List.length_append, hnl, hm, h1]; omega)]
        exact take_left _ _ _ hbl
      have hpne : s.payload ≠ [] := by
        intro hp
        have := hA.seal_len t.key (incr t.nonce) s.payload
        -- payload empty would give an empty body
        simp only [sealBody, hp, if_true, Option.some.injEq] at hb
        subst hb
        simp at hbl
      simp only [hnz, if_false, hl1, hbd, hob, hnn, hpne]
      simp only [List.length_append, hnl, hm, h1, h2, hbl, Parse.ok.injEq, true_and, and_true]
      omega
  · -- later segment
    simp only [hst, if_true, List.nil_append] at hbytes
    subst hbytes
    have e : r.buf = A.sealF t.key t.nonce s.md.encode ++ (s.pad1 ++ (body ++ s.pad2) ++ rest) := by
      rw [hbuf]; simp only [List.append_assoc]
    have hl0 : ¬ r.buf.length < 0 + 48 := by rw [e]; simp only [List.length_append, hm]; omega
    have hmt : (r.buf.drop 0).take 48 = A.sealF t.key t.nonce s.md.encode := by
      rw [e, List.drop_zero]; exact take_left _ _ _ hm
    simp only [parseOne, hk, Option.isNone_some, Bool.false_eq_true, if_false, hl0, hmt, hnr, hA.open_seal,
      Option.map_some, parseMeta_encode s.md hr hv]
    rcases hbs with ⟨hp, hb0, hz⟩ | ⟨hnz, hbl, hob⟩
    · subst hb0
      have hl1 : ¬ r.buf.length < 0 + 48 + s.md.prefixLen + s.md.suffixLen := by
        rw [e]; simp only [List.length_append, hm, h1, h2, List.length_nil]; omega
      simp only [hz, if_true, hl1, if_false, hnn, hp]
      simp only [List.length_append, hm, h1, h2, List.length_nil, Parse.ok.injEq, true_and, and_true]
      omega
    · have hl1 : ¬ r.buf.length < 0 + 48 + s.md.prefixLen + (s.md.payloadLen + 16) + s.md.suffixLen := by
        rw [e]; simp only [List.length_append, hm, h1, h2, hbl]; omega
      have hbd : (r.buf.drop (0 + 48 + s.md.prefixLen)).take (s.md.payloadLen + 16) = body := by
        have e2 : r.buf = (A.sealF t.key t.nonce s.md.encode ++ s.pad1) ++ (body ++ (s.pad2 ++ rest)) := by
          rw [e]; simp only [List.append_assoc]
        rw [e2, drop_left _ _ _ (by simp only [List.length_append, hm, h1, Nat.zero_add])]
        exact take_left _ _ _ hbl
      have hpne : s.payload ≠ [] := by
        intro hp
        simp only [sealBody, hp, if_true, Option.some.injEq] at hb
        subst hb
        simp at hbl
      simp only [hnz, if_false, hl1, hbd, hob, hnn, hpne]
      simp only [List.length_append, hm, h1, h2, hbl, Parse.ok.injEq, true_and, and_true]
      omega

theorem tcp_parse_one (A : AeadFns) (hA : AeadLaws A) (hle : LELaw) (t t' : Tx) (r : Rx)
    (hsync : InSync A t r) (s : Segment) (hw : s.wf) (lePad : Bool) (bytes rest : Bytes)
    (hs : tcpSeal A t s lePad = some (bytes, t')) (hbuf : r.buf = bytes ++ rest) :
    parseOne A r = .ok t.key s.md s.payload bytes.length t'.nonce :=
  tcp_parse_one_for A hA hle t t' r s (hsync.toFor _) hw lePad bytes rest hs hbuf

/-- the plaintext of the first encryption of a direction: the encoded metadata of its first segment -/
def firstMeta (segs : List (Segment × Bool)) : Bytes :=
  match segs with
  | [] => []
  | x :: _ => x.1.md.encode

/-- a whole direction of a connection: segments sealed one after the other -/
def sealAll (A : AeadFns) : Tx → List (Segment × Bool) → Option Bytes
  | _, [] => some []
  | t, (s, lp) :: ss =>
    match tcpSeal A t s lp with
    | none => none
    | some (b, t') => (sealAll A t' ss).map (b ++ ·)

theorem tcpSeal_post (A : AeadFns) (hA : AeadLaws A) (t t' : Tx) (s : Segment) (lp : Bool) (b : Bytes)
    (hs : tcpSeal A t s lp = some (b, t')) : t'.started = true ∧ t'.key = t.key ∧ 48 ≤ b.length := by
  simp only [tcpSeal, Option.map_eq_some_iff, Prod.mk.injEq] at hs
  obtain ⟨body, _, hb, ht'⟩ := hs
  subst ht'; subst hb
  refine ⟨rfl, rfl, ?_⟩
  simp only [List.length_append, hA.seal_len, meta_len]; omega

theorem sealAll_length (A : AeadFns) (hA : AeadLaws A) (segs : List (Segment × Bool)) (t : Tx) (bytes : Bytes)
    (hs : sealAll A t segs = some bytes) : 48 * segs.length ≤ bytes.length := by
  induction segs generalizing t bytes with
  | nil => simp
  | cons x ss ih =>
    obtain ⟨s, lp⟩ := x
    simp only [sealAll] at hs
    split at hs
    · cases hs
    · rename_i b t' hseal
      simp only [Option.map_eq_some_iff] at hs
      obtain ⟨bs, hbs, hb⟩ := hs
      subst hb
      have := ih t' bs hbs
      have := (tcpSeal_post A hA t t' s lp b hseal).2.2
      simp only [List.length_cons, List.length_append]; omega

theorem drain_sealAll_for (A : AeadFns) (hA : AeadLaws A) (hle : LELaw) (segs : List (Segment × Bool))
    (hw : ∀ x ∈ segs, x.1.wf) (t : Tx) (r : Rx) (hsync : InSyncFor A t r (firstMeta segs)) (hdead : r.dead = none)
    (hs : sealAll A t segs = some r.buf) (fuel : Nat) (hf : segs.length ≤ fuel) :
    (drain A fuel r).out = r.out ++ segs.map (fun x => (x.1.md, x.1.payload)) ∧
    (drain A fuel r).dead = none ∧ (drain A fuel r).buf = [] := by
  induction segs generalizing t r fuel with
  | nil =>
    simp only [sealAll, Option.some.injEq] at hs
    cases fuel with
    | zero => simp [drain, hdead, ← hs]
    | succ n =>
      have hp : parseOne A r = .need := by
        simp only [parseOne, ← hs, List.length_nil]
        split <;> simp
      simp [drain, hdead, hp, ← hs]
  | cons x ss ih =>
    obtain ⟨s, lp⟩ := x
    cases fuel with
    | zero => simp at hf
    | succ n =>
      simp only [sealAll] at hs
      split at hs
      · cases hs
      · rename_i b t' hseal
        simp only [Option.map_eq_some_iff] at hs
        obtain ⟨bs, hbs, hb⟩ := hs
        have hpost := tcpSeal_post A hA t t' s lp b hseal
        have key := tcp_parse_one_for A hA hle t t' r s hsync (hw (s, lp) (by simp)) lp b bs hseal hb.symm
        have hdrop : r.buf.drop b.length = bs := by rw [← hb]; exact drop_left _ _ _ rfl
        simp only [drain, hdead, Option.isSome_none, Bool.false_eq_true, if_false, key, hdrop]
        have hsync' : InSyncFor A t' { r with key := some t.key, nonce := t'.nonce, buf := bs, out := r.out ++ [(s.md, s.payload)] } (firstMeta ss) := by
          right
          exact ⟨hpost.1, by simp [hpost.2.1], rfl⟩
        have := ih (fun x hx => hw x (by simp [hx])) t' _ hsync' hdead hbs n (by simp at hf; omega)
        simpa [List.append_assoc, hdead] using this

theorem drain_sealAll (A : AeadFns) (hA : AeadLaws A) (hle : LELaw) (segs : List (Segment × Bool))
    (hw : ∀ x ∈ segs, x.1.wf) (t : Tx) (r : Rx) (hsync : InSync A t r) (hdead : r.dead = none)
    (hs : sealAll A t segs = some r.buf) (fuel : Nat) (hf : segs.length ≤ fuel) :
    (drain A fuel r).out = r.out ++ segs.map (fun x => (x.1.md, x.1.payload)) ∧
    (drain A fuel r).dead = none ∧ (drain A fuel r).buf = [] :=
  drain_sealAll_for A hA hle segs hw t r (hsync.toFor _) hdead hs fuel hf

/-- **Stream round trip**: everything one direction of a connection carries, fed to a fresh
    receiver in one piece, comes out as exactly the segments that were sealed.  The key-commitment
    clause is about the ONE ciphertext the sender produces first. -/
theorem tcp_stream_roundtrip_for (A : AeadFns) (hA : AeadLaws A) (hle : LELaw) (segs : List (Segment × Bool))
    (hw : ∀ x ∈ segs, x.1.wf) (t : Tx) (cands : List Bytes) (hsync : InSyncFor A t (Rx.new cands) (firstMeta segs))
    (bytes : Bytes) (hs : sealAll A t segs = some bytes) :
    (feed A (Rx.new cands) bytes).out = segs.map (fun x => (x.1.md, x.1.payload)) ∧
    (feed A (Rx.new cands) bytes).dead = none ∧ (feed A (Rx.new cands) bytes).buf = [] := by
  have hlen := sealAll_length A hA segs t bytes hs
  have hsync' : InSyncFor A t { Rx.new cands with buf := (Rx.new cands).buf ++ bytes } (firstMeta segs) := by
    rcases hsync with h | h
    · left; exact h
    · right; exact h
  have := drain_sealAll_for A hA hle segs hw t { Rx.new cands with buf := (Rx.new cands).buf ++ bytes } hsync' rfl
    (by simpa [Rx.new] using hs) (((Rx.new cands).buf ++ bytes).length / 48 + 1)
    (by simp only [Rx.new, List.nil_append]; omega)
  simpa [feed, Rx.new] using this

theorem tcp_stream_roundtrip (A : AeadFns) (hA : AeadLaws A) (hle : LELaw) (segs : List (Segment × Bool))
    (hw : ∀ x ∈ segs, x.1.wf) (t : Tx) (cands : List Bytes) (hsync : InSync A t (Rx.new cands))
    (bytes : Bytes) (hs : sealAll A t segs = some bytes) :
    (feed A (Rx.new cands) bytes).out = segs.map (fun x => (x.1.md, x.1.payload)) ∧
    (feed A (Rx.new cands) bytes).dead = none ∧ (feed A (Rx.new cands) bytes).buf = [] :=
  tcp_stream_roundtrip_for A hA hle segs hw t cands (hsync.toFor _) bytes hs

/-! ## UDP associate encapsulation -/

theorem assoc_roundtrip (d rest : Bytes) (hd : d.length < 65536) :
    assocUnwrap (assocWrap d ++ rest) = .ok d rest := by
  have hl : (be 2 d.length).length = 2 := be_length 2 _
  have e : assocWrap d ++ rest = 0x00 :: (be 2 d.length ++ (d ++ (0xff :: rest))) := by
    simp [assocWrap]
  rw [e]
  have h2 : ¬ (be 2 d.length ++ (d ++ (0xff :: rest))).length < 2 := by
    simp only [List.length_append, hl]; omega
  have ht : (be 2 d.length ++ (d ++ (0xff :: rest))).take 2 = be 2 d.length := List.take_left' hl
  have hdr : (be 2 d.length ++ (d ++ (0xff :: rest))).drop 2 = d ++ (0xff :: rest) := List.drop_left' hl
  have hn : fromBE (be 2 d.length) = d.length := by
    rw [fromBE_be]; exact Nat.mod_eq_of_lt (by omega)
  have h3 : ¬ (d ++ (0xff :: rest)).length < d.length + 1 := by
    simp only [List.length_append, List.length_cons]; omega
  simp only [assocUnwrap, ne_eq, not_true_eq_false, if_false, h2, ht, hdr, hn, h3]
  rw [List.drop_left' rfl, List.take_left' rfl]
  have : (d ++ 0xff :: rest).drop (d.length + 1) = rest := by
    rw [← List.drop_drop, List.drop_left' rfl]; rfl
  simp [this]

/-! ## A toy AEAD for the non-vacuity examples of `Mieru.Props.C09` -/

/-- a toy AEAD: tag = first 16 bytes of (key ‖ nonce ‖ zeros) -/
def toyTag (k n : Bytes) : Bytes := (k ++ n ++ List.replicate 16 0).take 16
def toyAead : AeadFns where
  sealF k n p := p ++ toyTag k n
  openF k n c := if c.length ≥ 16 ∧ c.drop (c.length - 16) = toyTag k n then some (c.take (c.length - 16)) else none

theorem toyTag_len (k n : Bytes) : (toyTag k n).length = 16 := by
  simp [toyTag]; omega


end Mieru.Spec
