import Mieru.Model.Blocking
/-!
Invariants of the concurrent `closeWithError` model (`Mieru.Blocking.CStep`): who holds the CAS, how
often `closedChan` is closed, and a decreasing measure (every closer returns).
-/
namespace Mieru.Blocking

def isWon : PC → Bool
  | .won _ => true
  | _ => false

/-- remaining steps of one closer -/
def pcMeasure : PC → Nat
  | .start => winnerSteps + 2
  | .won k => k + 1
  | .done => 0

def measure (s : Sys) : Nat := (s.pcs.map pcMeasure).sum

theorem countP_set (f : PC → Bool) (l : List PC) (i : Nat) (y x : PC) (h : l[i]? = some y) :
    (l.set i x).countP f + (if f y then 1 else 0) = l.countP f + (if f x then 1 else 0) := by
  induction l generalizing i with
  | nil => simp at h
  | cons a t ih =>
    cases i with
    | zero =>
      simp only [List.getElem?_cons_zero, Option.some.injEq] at h
      subst h
      simp only [List.set_cons_zero, List.countP_cons]
      omega
    | succ j =>
      simp only [List.getElem?_cons_succ] at h
      have := ih j h
      simp only [List.set_cons_succ, List.countP_cons]
      omega

theorem sum_set (l : List PC) (i : Nat) (y x : PC) (h : l[i]? = some y) :
    ((l.set i x).map pcMeasure).sum + pcMeasure y = (l.map pcMeasure).sum + pcMeasure x := by
  induction l generalizing i with
  | nil => simp at h
  | cons a t ih =>
    cases i with
    | zero =>
      simp only [List.getElem?_cons_zero, Option.some.injEq] at h
      subst h
      simp only [List.set_cons_zero, List.map_cons, List.sum_cons]
      omega
    | succ j =>
      simp only [List.getElem?_cons_succ] at h
      have := ih j h
      simp only [List.set_cons_succ, List.map_cons, List.sum_cons]
      omega

theorem mem_set_of (l : List PC) (i : Nat) (x p : PC) (h : p ∈ l.set i x) : p = x ∨ p ∈ l := by
  rcases List.mem_or_eq_of_mem_set h with h | h
  · exact Or.inr h
  · exact Or.inl h

structure Inv (n : Nat) (s : Sys) : Prop where
  len : s.pcs.length = n
  /-- exactly one of: nobody won yet / the winner is still working / the channel was closed once -/
  one : s.closes + s.pcs.countP isWon = (if s.requested then 1 else 0)
  fresh : s.requested = false → ∀ p ∈ s.pcs, p = .start

theorem inv_init (n : Nat) : Inv n (initSys n) := by
  refine ⟨by simp [initSys], ?_, ?_⟩
  · simp only [initSys]
    have : (List.replicate n PC.start).countP isWon = 0 := by
      rw [List.countP_eq_zero]
      intro p hp
      rw [List.eq_of_mem_replicate hp]
      simp [isWon]
    simp [this]
  · intro _ p hp
    exact List.eq_of_mem_replicate hp

theorem inv_step {n : Nat} {s t : Sys} (hi : Inv n s) (hs : CStep s t) : Inv n t := by
  cases hs with
  | casWin i h hr =>
    refine ⟨by simpa using hi.len, ?_, ?_⟩
    · have c := countP_set isWon s.pcs i .start (.won winnerSteps) h
      have c' : (s.pcs.set i (.won winnerSteps)).countP isWon = s.pcs.countP isWon + 1 := by
        simpa [isWon] using c
      have o := hi.one
      rw [hr] at o
      show s.closes + (s.pcs.set i (.won winnerSteps)).countP isWon = (if true = true then 1 else 0)
      rw [c']
      simp only [Bool.false_eq_true, if_false, if_true] at o ⊢
      omega
    · intro hf; simp at hf
  | casLose i h hr =>
    refine ⟨by simpa using hi.len, ?_, ?_⟩
    · have c := countP_set isWon s.pcs i .start .done h
      have o := hi.one
      simp only [isWon] at c
      simp at c
      simp only [c]
      exact o
    · intro hf; simp [hr] at hf
  | work i k j h hj =>
    refine ⟨by simpa using hi.len, ?_, ?_⟩
    · have c := countP_set isWon s.pcs i (.won (k + 1)) (.won j) h
      have o := hi.one
      simp only [isWon] at c
      simp at c
      simp only [c]
      exact o
    · intro hf
      have := hi.fresh hf _ (List.mem_of_getElem? h)
      cases this
  | closeChan i h =>
    refine ⟨by simpa using hi.len, ?_, ?_⟩
    · have c := countP_set isWon s.pcs i (.won 0) .done h
      have o := hi.one
      simp only [isWon] at c
      simp at c
      simp only []
      omega
    · intro hf
      have := hi.fresh hf _ (List.mem_of_getElem? h)
      cases this

theorem reach_inv {n : Nat} {s : Sys} (h : CReach n s) : Inv n s := by
  induction h with
  | init => exact inv_init n
  | step _ hs ih => exact inv_step ih hs

theorem step_decreases {s t : Sys} (hs : CStep s t) : measure t < measure s := by
  cases hs with
  | casWin i h hr =>
    have := sum_set s.pcs i .start (.won winnerSteps) h
    simp only [measure, pcMeasure] at this ⊢
    omega
  | casLose i h hr =>
    have := sum_set s.pcs i .start .done h
    simp only [measure, pcMeasure] at this ⊢
    omega
  | work i k j h hj =>
    have := sum_set s.pcs i (.won (k + 1)) (.won j) h
    simp only [measure, pcMeasure] at this ⊢
    omega
  | closeChan i h =>
    have := sum_set s.pcs i (.won 0) .done h
    simp only [measure, pcMeasure] at this ⊢
    omega

theorem sum_replicate_pc (n : Nat) (p : PC) : ((List.replicate n p).map pcMeasure).sum = n * pcMeasure p := by
  induction n with
  | zero => simp
  | succ k ih =>
    simp only [List.replicate_succ, List.map_cons, List.sum_cons, ih]
    rw [Nat.succ_mul]
    omega

theorem measure_init (n : Nat) : measure (initSys n) = n * (winnerSteps + 2) := by
  simp only [measure, initSys, sum_replicate_pc, pcMeasure]

/-- a closer that has not returned can always take a step: nothing in `closeWithError` parks -/
theorem can_step (s : Sys) (h : ¬ allDone s) : ∃ t, CStep s t := by
  simp only [allDone, Classical.not_forall] at h
  obtain ⟨p, hm, hne⟩ := h
  obtain ⟨i, hi⟩ := List.getElem?_of_mem hm
  cases p with
  | start =>
    cases hr : s.requested with
    | false => exact ⟨_, CStep.casWin s i hi hr⟩
    | true => exact ⟨_, CStep.casLose s i hi hr⟩
  | won k =>
    cases k with
    | zero => exact ⟨_, CStep.closeChan s i hi⟩
    | succ k => exact ⟨_, CStep.work s i k k hi (Nat.le_refl k)⟩
  | done => exact absurd rfl hne

theorem done_not_won (l : List PC) (h : ∀ p ∈ l, p = .done) : l.countP isWon = 0 := by
  rw [List.countP_eq_zero]
  intro p hp
  rw [h p hp]
  simp [isWon]

end Mieru.Blocking
