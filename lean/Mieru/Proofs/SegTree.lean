import Mieru.Model.SegTree
/-!
# Invariant and specification of the `segmentTree` model (helper file for Props/C13)
-/
namespace Mieru.SegTree
variable {α : Type}

abbrev Sorted (l : List (Nat × α)) : Prop := l.Pairwise (fun a b => a.1 < b.1)

theorem keys_insertSorted (k : Nat) (v : α) (l : List (Nat × α)) :
    ∀ x ∈ insertSorted k v l, x = (k, v) ∨ x ∈ l := by
  induction l with
  | nil => intro x hx; simp [insertSorted] at hx; exact Or.inl hx
  | cons h rest ih =>
    intro x hx
    obtain ⟨k', v'⟩ := h
    simp only [insertSorted] at hx
    split at hx
    · simp at hx; rcases hx with rfl | rfl | hx
      · exact Or.inl rfl
      · exact Or.inr (by simp)
      · exact Or.inr (by simp [hx])
    · split at hx
      · simp at hx; rcases hx with rfl | hx
        · exact Or.inl rfl
        · exact Or.inr (by simp [hx])
      · simp at hx; rcases hx with rfl | hx
        · exact Or.inr (by simp)
        · rcases ih x hx with h1 | h1
          · exact Or.inl h1
          · exact Or.inr (by simp [h1])

theorem insertSorted_sorted (k : Nat) (v : α) (l : List (Nat × α)) (h : Sorted l) : Sorted (insertSorted k v l) := by
  induction l with
  | nil => simp [insertSorted]
  | cons hd rest ih =>
    obtain ⟨k', v'⟩ := hd
    have hr : Sorted rest := (List.pairwise_cons.mp h).2
    have hh : ∀ y ∈ rest, k' < y.1 := (List.pairwise_cons.mp h).1
    simp only [insertSorted]
    split
    · rename_i hlt
      refine List.pairwise_cons.mpr ⟨?_, h⟩
      intro y hy; simp at hy
      rcases hy with rfl | hy
      · exact hlt
      · exact Nat.lt_trans hlt (hh y hy)
    · split
      · rename_i _ heq
        refine List.pairwise_cons.mpr ⟨?_, hr⟩
        intro y hy; have := hh y hy; simp only; omega
      · rename_i hnl hne
        refine List.pairwise_cons.mpr ⟨?_, ih hr⟩
        intro y hy
        rcases keys_insertSorted k v rest y hy with rfl | hy'
        · simp only; omega
        · exact hh y hy'

/-- specification of `ReplaceOrInsert` on a sorted list: the new entry is there, every entry with another
    sequence number is kept, and the entry that had the same sequence number is gone -/
theorem mem_insertSorted (k : Nat) (v : α) (l : List (Nat × α)) (h : Sorted l) (x : Nat × α) :
    x ∈ insertSorted k v l ↔ x = (k, v) ∨ (x ∈ l ∧ x.1 ≠ k) := by
  induction l with
  | nil => simp [insertSorted]
  | cons hd rest ih =>
    obtain ⟨k', v'⟩ := hd
    have hr : Sorted rest := (List.pairwise_cons.mp h).2
    have hh : ∀ y ∈ rest, k' < y.1 := (List.pairwise_cons.mp h).1
    simp only [insertSorted]
    split
    · rename_i hlt
      simp only [List.mem_cons]
      constructor
      · rintro (rfl | rfl | hx)
        · exact Or.inl rfl
        · exact Or.inr ⟨Or.inl rfl, by simp only; omega⟩
        · exact Or.inr ⟨Or.inr hx, by have := hh x hx; omega⟩
      · rintro (rfl | ⟨rfl | hx, _⟩)
        · exact Or.inl rfl
        · exact Or.inr (Or.inl rfl)
        · exact Or.inr (Or.inr hx)
    · split
      · rename_i _ heq
        subst heq
        simp only [List.mem_cons]
        constructor
        · rintro (rfl | hx)
          · exact Or.inl rfl
          · exact Or.inr ⟨Or.inr hx, by have := hh x hx; omega⟩
        · rintro (rfl | ⟨rfl | hx, hne⟩)
          · exact Or.inl rfl
          · exact absurd rfl hne
          · exact Or.inr hx
      · rename_i hnl hne
        simp only [List.mem_cons, ih hr]
        constructor
        · rintro (rfl | rfl | ⟨hx, hk⟩)
          · exact Or.inr ⟨Or.inl rfl, by simp only; omega⟩
          · exact Or.inl rfl
          · exact Or.inr ⟨Or.inr hx, hk⟩
        · rintro (rfl | ⟨rfl | hx, hk⟩)
          · exact Or.inr (Or.inl rfl)
          · exact Or.inl rfl
          · exact Or.inr (Or.inr ⟨hx, hk⟩)

theorem length_insertSorted_le (k : Nat) (v : α) (l : List (Nat × α)) :
    l.length ≤ (insertSorted k v l).length ∧ (insertSorted k v l).length ≤ l.length + 1 := by
  induction l with
  | nil => simp [insertSorted]
  | cons hd rest ih =>
    obtain ⟨k', v'⟩ := hd
    simp only [insertSorted]
    split
    · simp
    · split
      · simp
      · simp; omega

/-- every operation keeps the tree well formed -/
theorem insert_wf (t : T α) (k : Nat) (v : α) (h : WF t) : WF (insert t k v).1 := by
  unfold insert
  split
  · exact h
  · rename_i hc
    exact ⟨insertSorted_sorted k v _ h.1, by have := (length_insertSorted_le k v t.items).2; simp only; omega⟩

theorem deleteMin_wf (t : T α) (h : WF t) : WF (deleteMin t).1 := by
  unfold deleteMin
  split
  · exact h
  · rename_i x rest he
    have h1 := h.1; have h2 := h.2
    rw [he] at h1 h2
    exact ⟨(List.pairwise_cons.mp h1).2, by simp at h2 ⊢; omega⟩

theorem deleteMinIf_wf (t : T α) (p : Nat × α → Bool) (h : WF t) : WF (deleteMinIf t p).1 := by
  unfold deleteMinIf
  split
  · exact h
  · rename_i x rest he
    split
    · have h1 := h.1; have h2 := h.2
      rw [he] at h1 h2
      exact ⟨(List.pairwise_cons.mp h1).2, by simp at h2 ⊢; omega⟩
    · exact h

theorem deleteAll_wf (t : T α) : WF (deleteAll t) := by simp [deleteAll, WF]

theorem empty_wf (cap : Nat) : WF (empty cap : T α) := by simp [empty, WF]

/-- `DeleteMin` removes the entry with the smallest sequence number and nothing else -/
theorem deleteMin_spec (t : T α) (h : WF t) (x : Nat × α) (hx : (deleteMin t).2 = some x) :
    t.items = x :: (deleteMin t).1.items ∧ ∀ y ∈ (deleteMin t).1.items, x.1 < y.1 := by
  unfold deleteMin at hx ⊢
  split at hx
  · cases hx
  · rename_i x' rest he
    simp only [Option.some.injEq] at hx
    subst hx
    have h1 := h.1
    rw [he] at h1
    simp only [he]
    exact ⟨trivial, (List.pairwise_cons.mp h1).1⟩

theorem mem_dropWhile_lt (a : Nat) (l : List (Nat × α)) (h : Sorted l) (x : Nat × α) :
    x ∈ l.dropWhile (fun y => y.1 < a) ↔ x ∈ l ∧ a ≤ x.1 := by
  induction l with
  | nil => simp
  | cons hd rest ih =>
    have hr : Sorted rest := (List.pairwise_cons.mp h).2
    have hh : ∀ y ∈ rest, hd.1 < y.1 := (List.pairwise_cons.mp h).1
    simp only [List.dropWhile_cons]
    split
    · rename_i hlt
      have hlt' : hd.1 < a := by simpa using hlt
      rw [ih hr]
      constructor
      · rintro ⟨hx, ha⟩; exact ⟨by simp [hx], ha⟩
      · rintro ⟨hx, ha⟩
        simp only [List.mem_cons] at hx
        rcases hx with rfl | hx
        · omega
        · exact ⟨hx, ha⟩
    · rename_i hge
      have hge' : a ≤ hd.1 := by simpa using hge
      simp only [List.mem_cons]
      constructor
      · rintro (rfl | hx)
        · exact ⟨Or.inl rfl, hge'⟩
        · exact ⟨Or.inr hx, by have := hh x hx; omega⟩
      · rintro ⟨hx, _⟩; exact hx

/-- the discard loop as the code runs it (repeated `DeleteMinIf(seq < a)`) is `discardBelow` -/
theorem discardLoop_eq (a : Nat) : ∀ (fuel : Nat) (t : T α), t.items.length < fuel → discardLoop a fuel t = discardBelow t a := by
  intro fuel
  induction fuel with
  | zero => intro t h; omega
  | succ n ih =>
    intro t h
    obtain ⟨cap, items⟩ := t
    cases items with
    | nil => simp [discardLoop, deleteMinIf, discardBelow]
    | cons x rest =>
      simp only [discardLoop, deleteMinIf]
      by_cases hp : x.1 < a
      · simp only [hp, decide_true, if_true]
        rw [ih ⟨cap, rest⟩ (by simp at h ⊢; omega)]
        simp [discardBelow, List.dropWhile_cons, hp]
      · simp [hp, discardBelow, List.dropWhile_cons]

theorem discardBelow_wf (t : T α) (a : Nat) (h : WF t) : WF (discardBelow t a) := by
  refine ⟨List.Pairwise.sublist (List.dropWhile_sublist _) h.1, ?_⟩
  have := (List.dropWhile_sublist (fun (x : Nat × α) => decide (x.1 < a)) (l := t.items)).length_le
  have := h.2
  simp only [discardBelow]; omega

theorem dropWhile_range' (a : Nat) : ∀ (n lo : Nat),
    (List.range' lo n).dropWhile (fun x => decide (x < a)) =
      List.range' (max lo (min a (lo + n))) (lo + n - max lo (min a (lo + n))) := by
  intro n
  induction n with
  | zero => intro lo; simp; omega
  | succ n ih =>
    intro lo
    rw [List.range'_succ, List.dropWhile_cons]
    by_cases h : lo < a
    · simp only [h, decide_true, if_true]
      rw [ih (lo + 1)]
      have e1 : lo + 1 + n = lo + (n + 1) := by omega
      have e2 : max (lo + 1) (min a (lo + (n + 1))) = max lo (min a (lo + (n + 1))) := by omega
      rw [e1, e2]
    · simp only [h, decide_false, Bool.false_eq_true, if_false]
      have e : max lo (min a (lo + (n + 1))) = lo := by omega
      rw [e]
      have : lo + (n + 1) - lo = n + 1 := by omega
      rw [this, List.range'_succ]

theorem map_fst_dropWhile (a : Nat) (l : List (Nat × α)) :
    (l.dropWhile (fun x => decide (x.1 < a))).map (·.1) = (l.map (·.1)).dropWhile (fun x => decide (x < a)) := by
  induction l with
  | nil => simp
  | cons hd rest ih =>
    simp only [List.dropWhile_cons, List.map_cons]
    split <;> simp_all

/-- the receiver's release step: on a tree without stale entries, `DeleteMinIf(seq ≤ n)` deletes iff the
    segment numbered `n` is buffered, and what it deletes is that segment -/
theorem release_step (t : T α) (n : Nat) (h : WF t) (hs : ∀ x ∈ t.items, n ≤ x.1) :
    ((deleteMinIf t (fun x => decide (x.1 ≤ n))).2.2 = true ↔ ∃ x ∈ t.items, x.1 = n) ∧
    (∀ x, (deleteMinIf t (fun x => decide (x.1 ≤ n))).2 = (some x, true) →
      x.1 = n ∧ ∀ y ∈ (deleteMinIf t (fun x => decide (x.1 ≤ n))).1.items, n < y.1) := by
  obtain ⟨cap, items⟩ := t
  cases items with
  | nil => simp [deleteMinIf]
  | cons x rest =>
    have hx := hs x (by simp)
    have hh : ∀ y ∈ rest, x.1 < y.1 := (List.pairwise_cons.mp h.1).1
    simp only [deleteMinIf]
    by_cases hp : x.1 ≤ n
    · have he : x.1 = n := by omega
      simp only [hp, decide_true, if_true]
      refine ⟨⟨fun _ => ⟨x, by simp, he⟩, fun _ => trivial⟩, ?_⟩
      intro y hy
      simp only [Prod.mk.injEq, Option.some.injEq, and_true] at hy
      subst hy
      exact ⟨he, fun z hz => by have := hh z hz; omega⟩
    · simp only [hp, decide_false, Bool.false_eq_true, if_false]
      refine ⟨⟨fun hf => hf.elim, ?_⟩, fun y hy => by simp at hy⟩
      rintro ⟨y, hy, hn⟩
      simp only [List.mem_cons] at hy
      rcases hy with rfl | hy
      · omega
      · have := hh y hy; omega

end Mieru.SegTree
