import Mieru.Model.Discovery
/-!
# Helper lemmas about `tryState` (used by Props/C07.lean)
-/
set_option linter.unusedSimpArgs false
set_option linter.unusedVariables false
namespace Mieru.Discovery

variable {n : Nat} {hint auth : Nat → Bool} {want : Bool}

theorem validID_iff (n id : Nat) : validID n id = true ↔ 1 ≤ id ∧ id ≤ n := by
  simp [validID]

theorem mem_ids (n id : Nat) : id ∈ ids n ↔ 1 ≤ id ∧ id ≤ n := by
  unfold ids; rw [List.mem_range'_1]; omega

theorem ids_nodup (n : Nat) : (ids n).Nodup := by
  simp [ids, List.nodup_range']

/-! ### what a phase that returns a user guarantees -/

theorem cp_some (l : List Nat) (a a' : Acc) (u : Nat)
    (h : cachedPhase n hint auth want l a = (some u, a')) :
    auth u = true ∧ hint u = want ∧ validID n u = true ∧ u ∈ l := by
  induction l generalizing a with
  | nil => simp [cachedPhase] at h
  | cons id rest ih =>
    unfold cachedPhase at h
    split at h
    · obtain ⟨h1, h2, h3, h4⟩ := ih a h
      exact ⟨h1, h2, h3, List.mem_cons_of_mem _ h4⟩
    · rename_i hc
      simp only [not_or, Decidable.not_not, Bool.not_eq_false] at hc
      split at h
      · rename_i ha
        simp only [Prod.mk.injEq, Option.some.injEq] at h
        obtain ⟨hu, _⟩ := h
        subst hu
        exact ⟨ha, hc.2.2, hc.1, List.mem_cons_self⟩
      · obtain ⟨h1, h2, h3, h4⟩ := ih _ h
        exact ⟨h1, h2, h3, List.mem_cons_of_mem _ h4⟩

theorem rp_some (l : List Nat) (a a' : Acc) (u : Nat)
    (h : registryPhase hint auth want l a = (some u, a')) :
    auth u = true ∧ hint u = want ∧ u ∈ l := by
  induction l generalizing a with
  | nil => simp [registryPhase] at h
  | cons id rest ih =>
    unfold registryPhase at h
    split at h
    · obtain ⟨h1, h2, h3⟩ := ih a h
      exact ⟨h1, h2, List.mem_cons_of_mem _ h3⟩
    · rename_i hc
      simp only [not_or, Decidable.not_not] at hc
      split at h
      · rename_i ha
        simp only [Prod.mk.injEq, Option.some.injEq] at h
        obtain ⟨hu, _⟩ := h
        subst hu
        exact ⟨ha, hc.2, List.mem_cons_self⟩
      · obtain ⟨h1, h2, h3⟩ := ih _ h
        exact ⟨h1, h2, List.mem_cons_of_mem _ h3⟩

/-! ### what a phase that finds nobody guarantees -/

theorem mem_mark (att : List Nat) (id x : Nat) (h : x ∈ mark att id) : x ∈ att ∨ x = id := by
  unfold mark at h
  split at h
  · simpa using h
  · exact Or.inl h

/-- every id newly entered into `attempted` by a cached phase that found nobody failed to
    authenticate -/
theorem cp_none (l : List Nat) (a a' : Acc)
    (h : cachedPhase n hint auth want l a = (none, a')) :
    ∀ x ∈ a'.att, x ∈ a.att ∨ auth x = false := by
  induction l generalizing a with
  | nil =>
    simp only [cachedPhase, Prod.mk.injEq, true_and] at h
    subst h; intro x hx; exact Or.inl hx
  | cons id rest ih =>
    unfold cachedPhase at h
    split at h
    · exact ih a h
    · split at h
      · simp at h
      · rename_i hna
        intro x hx
        rcases ih _ h x hx with hm | hf
        · rcases mem_mark _ _ _ hm with h1 | h2
          · exact Or.inl h1
          · subst h2; right; simpa using hna
        · exact Or.inr hf

theorem rp_none (l : List Nat) (a a' : Acc)
    (h : registryPhase hint auth want l a = (none, a')) :
    a'.att = a.att ∧ ∀ u ∈ l, hint u = want → u ∉ a.att → auth u = false := by
  induction l generalizing a with
  | nil =>
    simp only [registryPhase, Prod.mk.injEq, true_and] at h
    subst h; exact ⟨rfl, by simp⟩
  | cons id rest ih =>
    unfold registryPhase at h
    split at h
    · rename_i hc
      obtain ⟨h1, h2⟩ := ih a h
      refine ⟨h1, ?_⟩
      intro u hu hh hn
      rcases List.mem_cons.mp hu with rfl | hr
      · rcases hc with hc | hc
        · exact absurd hc hn
        · exact absurd hh hc
      · exact h2 u hr hh hn
    · split at h
      · simp at h
      · rename_i hna
        obtain ⟨h1, h2⟩ := ih _ h
        refine ⟨h1, ?_⟩
        intro u hu hh hn
        rcases List.mem_cons.mp hu with rfl | hr
        · simpa using hna
        · exact h2 u hr hh hn

/-! ### the bookkeeping: who was tried, and that `attempted` tracks the cached phases -/

/-- candidates a cached phase may try: entries of the cached list whose hint value is `want` -/
def cnt (hint : Nat → Bool) (want : Bool) (l : List Nat) : Nat := (l.filter fun id => hint id == want).length

theorem cnt_cons (id : Nat) (l : List Nat) :
    cnt hint want (id :: l) = (if hint id = want then 1 else 0) + cnt hint want l := by
  unfold cnt
  by_cases h : hint id = want
  · simp [List.filter_cons, h]; omega
  · simp [List.filter_cons, h]

theorem cnt_add (l : List Nat) : cnt hint true l + cnt hint false l = l.length := by
  induction l with
  | nil => simp [cnt]
  | cons id rest ih =>
    rw [cnt_cons, cnt_cons]
    cases hh : hint id <;> simp <;> omega

theorem cp_spec (l : List Nat) (a a' : Acc) (r : Option Nat)
    (h : cachedPhase n hint auth want l a = (r, a'))
    (hcap : a.att.length + cnt hint want l ≤ slots) :
    ∃ t, a'.tried = a.tried ++ t ∧ a'.att = a.att ++ t ∧ t.Nodup ∧
      (∀ x ∈ t, x ∉ a.att ∧ hint x = want) ∧ t.length ≤ cnt hint want l := by
  induction l generalizing a with
  | nil =>
    simp only [cachedPhase, Prod.mk.injEq] at h
    obtain ⟨_, h2⟩ := h
    subst h2
    exact ⟨[], by simp, by simp, List.nodup_nil, by simp, by simp⟩
  | cons id rest ih =>
    rw [cnt_cons] at hcap
    unfold cachedPhase at h
    split at h
    · obtain ⟨t, h1, h2, h3, h4, h5⟩ := ih a h (by omega)
      exact ⟨t, h1, h2, h3, h4, by rw [cnt_cons]; omega⟩
    · rename_i hc
      simp only [not_or, Decidable.not_not, Bool.not_eq_false] at hc
      obtain ⟨hv, hnin, hh⟩ := hc
      rw [if_pos hh] at hcap
      have hmark : mark a.att id = a.att ++ [id] := by
        unfold mark
        rw [if_pos ⟨by omega, hnin⟩]
      split at h
      · simp only [Prod.mk.injEq] at h
        obtain ⟨_, h2⟩ := h
        subst h2
        refine ⟨[id], rfl, hmark, by simp, ?_, by rw [cnt_cons, if_pos hh]; simp⟩
        intro x hx
        simp only [List.mem_singleton] at hx
        subst hx
        exact ⟨hnin, hh⟩
      · have hcap' : ({ att := mark a.att id, tried := a.tried ++ [id] } : Acc).att.length
            + cnt hint want rest ≤ slots := by
          simp only [hmark, List.length_append, List.length_singleton]; omega
        obtain ⟨t, h1, h2, h3, h4, h5⟩ := ih _ h hcap'
        refine ⟨id :: t, ?_, ?_, ?_, ?_, ?_⟩
        · simp only [h1, List.append_assoc, List.singleton_append]
        · simp only [h2, hmark, List.append_assoc, List.singleton_append]
        · refine List.nodup_cons.mpr ⟨?_, h3⟩
          intro hin
          have := (h4 id hin).1
          simp only [hmark, List.mem_append, List.mem_singleton, or_true, not_true_eq_false] at this
        · intro x hx
          rcases List.mem_cons.mp hx with rfl | hr
          · exact ⟨hnin, hh⟩
          · have := h4 x hr
            refine ⟨?_, this.2⟩
            intro hin
            apply this.1
            simp only [hmark, List.mem_append]
            exact Or.inl hin
        · rw [cnt_cons, if_pos hh]; simp only [List.length_cons]; omega

theorem rp_spec (l : List Nat) (a a' : Acc) (r : Option Nat)
    (h : registryPhase hint auth want l a = (r, a')) :
    ∃ t, a'.tried = a.tried ++ t ∧ a'.att = a.att ∧ t.Sublist l ∧
      (∀ x ∈ t, x ∉ a.att ∧ hint x = want) := by
  induction l generalizing a with
  | nil =>
    simp only [registryPhase, Prod.mk.injEq] at h
    obtain ⟨_, h2⟩ := h
    subst h2
    exact ⟨[], by simp, rfl, List.Sublist.refl _, by simp⟩
  | cons id rest ih =>
    unfold registryPhase at h
    split at h
    · obtain ⟨t, h1, h2, h3, h4⟩ := ih a h
      exact ⟨t, h1, h2, List.Sublist.cons _ h3, h4⟩
    · rename_i hc
      simp only [not_or, Decidable.not_not] at hc
      obtain ⟨hnin, hh⟩ := hc
      split at h
      · simp only [Prod.mk.injEq] at h
        obtain ⟨_, h2⟩ := h
        subst h2
        refine ⟨[id], rfl, rfl, ?_, ?_⟩
        · exact List.Sublist.cons₂ _ (List.nil_sublist _)
        · intro x hx
          simp only [List.mem_singleton] at hx
          subst hx
          exact ⟨hnin, hh⟩
      · obtain ⟨t, h1, h2, h3, h4⟩ := ih _ h
        refine ⟨id :: t, ?_, h2, List.Sublist.cons₂ _ h3, ?_⟩
        · simp only [h1, List.append_assoc, List.singleton_append]
        · intro x hx
          rcases List.mem_cons.mp hx with rfl | hr
          · exact ⟨hnin, hh⟩
          · exact h4 x hr

theorem nodup_app {a b : List Nat} (h1 : a.Nodup) (h2 : b.Nodup) (h3 : ∀ x ∈ a, x ∉ b) :
    (a ++ b).Nodup := by
  rw [List.nodup_append]
  exact ⟨h1, h2, fun x hx y hy hxy => h3 x hx (hxy ▸ hy)⟩

/-! ### invalid cached ids have no effect -/

theorem cp_filter_valid (l : List Nat) (a : Acc) :
    cachedPhase n hint auth want (l.filter (validID n)) a = cachedPhase n hint auth want l a := by
  induction l generalizing a with
  | nil => rfl
  | cons id rest ih =>
    by_cases hv : validID n id = true
    · rw [List.filter_cons_of_pos hv]
      unfold cachedPhase
      simp only [ih]
    · rw [List.filter_cons_of_neg hv]
      conv => rhs; unfold cachedPhase
      have : validID n id = false := by simpa using hv
      simp only [this, true_or, if_true]
      exact ih a

end Mieru.Discovery
