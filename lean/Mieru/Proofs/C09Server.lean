import Mieru.Proofs.C09
import Mieru.Model.SpecServer
/-!
# Lemmas for the server→client half of C09 (reference server, `Mieru.Model.SpecServer`)
-/
namespace Mieru.Spec.Srv
open Mieru Mieru.Spec

/-! ## The segments the reference server builds are well formed -/

theorem openResp_wf (c : Ctx) (hc : c.ok) (payload pad2 : Bytes) (hp : payload.length ≤ 1024)
    (h2 : pad2.length < 256) : (openResp c payload pad2).wf := by
  obtain ⟨a, b, d, _, _⟩ := hc
  simp only [Segment.wf, openResp, Meta.inRange, SessionMeta.inRange, isSessionType, Meta.valid,
    Meta.prefixLen, Meta.suffixLen, Meta.payloadLen, and_true, and_self, List.length_nil, decide_eq_true_eq]
  omega

theorem closeReq_wf (c : Ctx) (hc : c.ok) (status : Nat) (hs : status < 256) (pad2 : Bytes)
    (h2 : pad2.length < 256) : (closeReq c status pad2).wf := by
  obtain ⟨a, b, d, _, _⟩ := hc
  simp only [Segment.wf, closeReq, Meta.inRange, SessionMeta.inRange, isSessionType, Meta.valid,
    Meta.prefixLen, Meta.suffixLen, Meta.payloadLen, and_true, and_self, List.length_nil, decide_eq_true_eq]
  omega

theorem closeResp_wf (c : Ctx) (hc : c.ok) (pad2 : Bytes) (h2 : pad2.length < 256) :
    (closeResp c pad2).wf := by
  obtain ⟨a, b, d, _, _⟩ := hc
  simp only [Segment.wf, closeResp, Meta.inRange, SessionMeta.inRange, isSessionType, Meta.valid,
    Meta.prefixLen, Meta.suffixLen, Meta.payloadLen, and_true, and_self, List.length_nil, decide_eq_true_eq]
  omega

theorem data_wf (c : Ctx) (hc : c.ok) (fragment : Nat) (hf : fragment < 256) (payload pad1 pad2 : Bytes)
    (hp : payload.length < 65536) (h1 : pad1.length < 256) (h2 : pad2.length < 256) :
    (data c fragment payload pad1 pad2).wf := by
  obtain ⟨a, b, d, e, f⟩ := hc
  simp only [Segment.wf, data, Meta.inRange, DataMeta.inRange, isDataType, Meta.valid,
    Meta.prefixLen, Meta.suffixLen, Meta.payloadLen, and_true, and_self]
  omega

theorem ack_wf (c : Ctx) (hc : c.ok) (pad1 pad2 : Bytes) (h1 : pad1.length < 256) (h2 : pad2.length < 256) :
    (ack c pad1 pad2).wf := by
  obtain ⟨a, b, d, e, f⟩ := hc
  simp only [Segment.wf, ack, Meta.inRange, DataMeta.inRange, isDataType, Meta.valid,
    Meta.prefixLen, Meta.suffixLen, Meta.payloadLen, and_true, and_self, List.length_nil]
  omega

theorem encodedLen_spec (n mode el : Nat) (h : LowEntropy.encodedLen n mode = some el) :
    n ≠ 0 ∧ el % 8 = 0 ∧ el < 65536 := by
  unfold LowEntropy.encodedLen at h
  split at h
  · cases h
  · split at h
    · cases h
    · split at h
      · cases h
      · simp only [Option.some.injEq] at h
        subst h
        refine ⟨by assumption, by omega, by omega⟩

theorem validParams_bounds (mode half rot : Nat) (h : LowEntropy.validParams mode half rot = true) :
    mode < 256 ∧ rot < 256 := by
  unfold LowEntropy.validParams at h
  split at h
  · cases h
  · rename_i k hk
    simp only [Bool.and_eq_true] at h
    obtain ⟨_, hr⟩ := h
    constructor
    · unfold LowEntropy.halfOnes at hk
      split at hk <;> first | omega | cases hk
    · simp only [LowEntropy.validRotation, Bool.or_eq_true, Bool.and_eq_true, beq_iff_eq,
        decide_eq_true_eq] at hr
      omega

theorem dataLE_wf (c : Ctx) (hc : c.ok) (fragment : Nat) (hf : fragment < 256) (mode mask rot : Nat)
    (hm : mask < 2 ^ 32) (hv : LowEntropy.validParams mode mask rot = true)
    (payload pad1 pad2 : Bytes) (hp : payload.length ≤ 32768) (h1 : pad1.length < 256) (h2 : pad2.length < 256)
    (s : Segment) (hs : dataLE c fragment mode mask rot payload pad1 pad2 = some s) : s.wf := by
  obtain ⟨a, b, d, e, f⟩ := hc
  simp only [dataLE, Option.map_eq_some_iff] at hs
  obtain ⟨el, hel, rfl⟩ := hs
  obtain ⟨hn, h8, hlt⟩ := encodedLen_spec _ _ _ hel
  obtain ⟨hmode, hrot⟩ := validParams_bounds _ _ _ hv
  have hne : (payload.length == 0) = false := by simpa using hn
  simp only [Segment.wf, Meta.inRange, LEMeta.inRange, isLEType, Meta.valid, LowEntropy.metaValid,
    Meta.prefixLen, Meta.suffixLen, and_true, and_self, hv, hel, hne, Bool.and_eq_true, Bool.or_eq_true,
    decide_eq_true_eq, beq_iff_eq, Bool.false_eq_true, if_false]
  exact ⟨⟨⟨by omega, by omega⟩, hmode, a, b, d, e, f, hf, h1, hlt, h2, hm, by omega, hrot⟩, ⟨Or.inr trivial, hp⟩, h8⟩

/-! ## TCP: the receiver of the client's direction ends up holding the client's key -/

theorem drain_sealAll_key (A : AeadFns) (hA : AeadLaws A) (hle : LELaw) (segs : List (Segment × Bool))
    (hw : ∀ x ∈ segs, x.1.wf) (t : Tx) (r : Rx) (hsync : InSync A t r) (hdead : r.dead = none)
    (hs : sealAll A t segs = some r.buf) (fuel : Nat) (hf : segs.length ≤ fuel) :
    (drain A fuel r).key = if segs = [] then r.key else some t.key := by
  induction segs generalizing t r fuel with
  | nil =>
    simp only [sealAll, Option.some.injEq] at hs
    cases fuel with
    | zero => simp [drain]
    | succ n =>
      have hp : parseOne A r = .need := by
        simp only [parseOne, ← hs, List.length_nil]
        split <;> simp
      simp [drain, hdead, hp]
  | cons x ss ih =>
    obtain ⟨s, lp⟩ := x
    cases fuel with
    | zero => simp at hf
    | succ n =>
      simp only [sealAll] at hs
      split at hs
      · cases hs
      · rename_i b t' hseal
        simp only [Option.map_eq_some_iff] at hs
        obtain ⟨bs, hbs, hb⟩ := hs
        have hpost := tcpSeal_post A hA t t' s lp b hseal
        have key := tcp_parse_one A hA hle t t' r hsync s (hw (s, lp) (by simp)) lp b bs hseal hb.symm
        have hdrop : r.buf.drop b.length = bs := by rw [← hb]; exact drop_left _ _ _ rfl
        simp only [drain, hdead, Option.isSome_none, Bool.false_eq_true, if_false, key, hdrop]
        have hsync' : InSync A t' { r with key := some t.key, nonce := t'.nonce, buf := bs, out := r.out ++ [(s.md, s.payload)] } := by
          right
          exact ⟨hpost.1, by simp [hpost.2.1], rfl⟩
        have := ih (fun x hx => hw x (by simp [hx])) t' _ hsync' hdead hbs n (by simp at hf; omega)
        rw [hdead] at this
        rw [this]
        simp only [reduceCtorEq, if_false, hpost.2.1]
        split <;> rfl

theorem feed_key (A : AeadFns) (hA : AeadLaws A) (hle : LELaw) (segs : List (Segment × Bool))
    (hne : segs ≠ []) (hw : ∀ x ∈ segs, x.1.wf) (t : Tx) (cands : List Bytes)
    (hsync : InSync A t (Rx.new cands)) (bytes : Bytes) (hs : sealAll A t segs = some bytes) :
    (feed A (Rx.new cands) bytes).key = some t.key := by
  have hlen := sealAll_length A hA segs t bytes hs
  have hsync' : InSync A t { Rx.new cands with buf := (Rx.new cands).buf ++ bytes } := by
    rcases hsync with h | h
    · left; exact h
    · right; exact h
  have := drain_sealAll_key A hA hle segs hw t { Rx.new cands with buf := (Rx.new cands).buf ++ bytes } hsync' rfl
    (by simpa [Rx.new] using hs) (((Rx.new cands).buf ++ bytes).length / 48 + 1)
    (by simp only [Rx.new, List.nil_append]; omega)
  simpa [feed, Rx.new, hne] using this

/-- a sender that has not started and a fresh receiver whose only candidate is the sender's key -/
theorem inSync_single (A : AeadFns) (k n0 : Bytes) (hn : n0.length = 24) :
    InSync A ⟨k, n0, false⟩ (Rx.new [k]) := by
  left
  refine ⟨rfl, rfl, hn, by simp [Rx.new], ?_⟩
  intro k' hk' hne
  simp only [Rx.new, List.mem_cons, List.not_mem_nil, or_false] at hk'
  exact absurd hk' hne

/-- **Both directions of one TCP connection.**  The reference server feeds what the client sent
    to a receiver that only has the candidate keys, answers under the key that receiver settled
    on (`replyTx`) with any well-formed segments, and a client that knows nothing but its own
    key gets exactly those segments back. -/
theorem tcp_duplex (A : AeadFns) (hA : AeadLaws A) (hle : LELaw)
    (cs : List (Segment × Bool)) (hcne : cs ≠ []) (hcw : ∀ x ∈ cs, x.1.wf)
    (tc : Tx) (cands : List Bytes) (hsync : InSync A tc (Rx.new cands))
    (up : Bytes) (hup : sealAll A tc cs = some up)
    (n0 : Bytes) (hn : n0.length = 24) (ts : Tx)
    (hts : replyTx (feed A (Rx.new cands) up) n0 = some ts)
    (ss : List (Segment × Bool)) (hsw : ∀ x ∈ ss, x.1.wf) (down : Bytes) (hdown : sealAll A ts ss = some down) :
    ts.key = tc.key ∧
    (feed A (Rx.new [tc.key]) down).out = ss.map (fun x => (x.1.md, x.1.payload)) ∧
    (feed A (Rx.new [tc.key]) down).dead = none ∧ (feed A (Rx.new [tc.key]) down).buf = [] := by
  have hk := feed_key A hA hle cs hcne hcw tc cands hsync up hup
  simp only [replyTx, hk, Option.map_some, Option.some.injEq] at hts
  subst hts
  exact ⟨rfl, tcp_stream_roundtrip A hA hle ss hsw _ [tc.key] (inSync_single A tc.key n0 hn) down hdown⟩

/-! ## UDP: the candidate key that opens a datagram is the sender's -/

theorem udpSeal_shape (A : AeadFns) (key nonce : Bytes) (s : Segment) (lePad : Bool) (d : Bytes)
    (hs : udpSeal A key nonce s lePad = some d) :
    ∃ rest, d = nonce ++ (A.sealF key nonce s.md.encode ++ rest) := by
  simp only [udpSeal, Option.map_eq_some_iff] at hs
  obtain ⟨body, _, rfl⟩ := hs
  exact ⟨_, rfl⟩

theorem udpOpen_other_key (A : AeadFns) (hA : AeadLaws A) (key nonce : Bytes) (hn : nonce.length = 24)
    (s : Segment) (lePad : Bool) (d : Bytes) (hs : udpSeal A key nonce s lePad = some d) (k : Bytes)
    (hk : A.openF k nonce (A.sealF key nonce s.md.encode) = none) :
    udpOpen A k d = .error .auth := by
  obtain ⟨rest, rfl⟩ := udpSeal_shape A key nonce s lePad d hs
  have hm : (A.sealF key nonce s.md.encode).length = 48 := by rw [hA.seal_len, meta_len]
  have h1 : (nonce ++ (A.sealF key nonce s.md.encode ++ rest)).take 24 = nonce := take_left _ _ _ hn
  have h2 : ((nonce ++ (A.sealF key nonce s.md.encode ++ rest)).drop 24).take 48 = A.sealF key nonce s.md.encode := by
    rw [drop_left _ _ _ hn]; exact take_left _ _ _ hm
  have h3 : ¬ (nonce ++ (A.sealF key nonce s.md.encode ++ rest)).length < 72 := by
    simp only [List.length_append, hm, hn]; omega
  simp only [udpOpen, h3, if_false, h1, h2, hk]

theorem udpOpenCands_finds (A : AeadFns) (hA : AeadLaws A) (hle : LELaw) (key nonce : Bytes)
    (hn : nonce.length = 24) (s : Segment) (hw : s.wf) (lePad : Bool) (d : Bytes)
    (hs : udpSeal A key nonce s lePad = some d) (cands : List Bytes) (hin : key ∈ cands)
    (hc : ∀ k ∈ cands, k ≠ key → A.openF k nonce (A.sealF key nonce s.md.encode) = none) :
    udpOpenCands A d cands = some (key, .ok (s.md, s.payload)) := by
  induction cands with
  | nil => simp at hin
  | cons k ks ih =>
    by_cases hk : k = key
    · subst hk
      simp only [udpOpenCands, udp_roundtrip A hA hle k nonce hn s hw lePad d hs]
    · have := udpOpen_other_key A hA key nonce hn s lePad d hs k (hc k (by simp) hk)
      simp only [udpOpenCands, this]
      apply ih
      · simp only [List.mem_cons] at hin
        rcases hin with h | h
        · exact absurd h.symm hk
        · exact h
      · intro k' hk' hne
        exact hc k' (by simp [hk']) hne

end Mieru.Spec.Srv
