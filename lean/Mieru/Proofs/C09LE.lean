import Mieru.Proofs.C09
import Mieru.Props.C17
/-!
# The low-entropy hypothesis of the C09 framing theorems, discharged by C17's theorems

`Mieru.Spec.LELaw` (round trip and length law of the low-entropy body codec) was a hypothesis of
the framing theorems of `Mieru.Props.C09`; `Mieru.C17.le_roundtrip`, `encode_eq` and `le_length`
prove it for every body, mode, mask, rotation and polarity.
-/
namespace Mieru.Spec
open Mieru Mieru.LowEntropy

theorem leLaw : LELaw := by
  intro src mode half rot pad enc h
  refine ⟨Mieru.C17.le_roundtrip src mode half rot pad enc h, ?_⟩
  obtain ⟨c, el, _, hc, hel, _⟩ := Mieru.C17.encode_eq src mode half rot pad enc h
  obtain ⟨c', hc', hl⟩ := Mieru.C17.le_length src mode half rot pad enc h
  rw [hc] at hc'; cases hc'
  rw [hel, hl]
  unfold encodedLen at hel
  rw [hc] at hel
  simp only at hel
  split at hel
  · cases hel
  · split at hel
    · cases hel
    · simp only [Option.some.injEq] at hel
      rw [← hel]

end Mieru.Spec
