import Mieru.Gen.SrcCache
import Mieru.Model.SrcCache
/-!
# The hand-written source-cache model agrees with the definitions REGENERATED from
# source_user_cache.go (`Mieru.Gen.SrcCache`, written by tools/goextract/c07srccache.go on every run)

A change of `sourceUserCacheAge`, `sourceUserCacheExpired`, the slot word packing (operators,
constants) changes the regenerated definition and breaks one of these proofs at build time.
(`selectSourceUserCacheWay` is regenerated too — loops unrolled — and compared with the real function
and with the model by execution through `mieru-gen`; the equality proof with the model is open.)
-/
set_option linter.unusedSimpArgs false
set_option linter.unusedVariables false
namespace Mieru.SrcCache
open Mieru.Gen.SrcCache

theorem age_eq_gen (now seen : Nat) : age now seen = sourceUserCacheAge now seen := by
  simp only [age, tickMod, sourceUserCacheAge]

theorem age_mod (now seen : Nat) : age (now % 4294967296) (seen % 4294967296) = age now seen := by
  simp only [age, tickMod, Nat.mod_mod]

theorem expired_eq_gen (now seen : Nat) : expired now seen = sourceUserCacheExpired now seen := by
  simp only [expired, life, sourceUserCacheExpired, ← age_eq_gen, age_mod, ge_iff_le]
  rfl

theorem gen_age_mod (now t : Nat) : sourceUserCacheAge (now % 4294967296) (t % 4294967296) = age now t := by
  rw [← age_eq_gen, age_mod]

theorem gen_expired_mod (now t : Nat) :
    sourceUserCacheExpired (now % 4294967296) (t % 4294967296) = expired now t := by
  rw [← expired_eq_gen]
  simp only [expired, age_mod]

/-- the (user id, tick) slot word: unpacking what was packed gives both halves back -/
theorem slot_word_roundtrip (id tick : Nat) :
    sourceUserCacheUnpackUser (sourceUserCachePackUser id tick) = (id % 4294967296, tick % 4294967296) := by
  simp only [sourceUserCacheUnpackUser, sourceUserCachePackUser]
  have ht : tick % 4294967296 < 2 ^ 32 := Nat.mod_lt _ (by decide)
  rw [← Nat.shiftLeft_add_eq_or_of_lt ht, Nat.shiftLeft_eq, Nat.shiftRight_eq_div_pow]
  have h2 : (2:Nat) ^ 32 = 4294967296 := by decide
  rw [h2] at ht ⊢
  have hi : id % 4294967296 < 4294967296 := Nat.mod_lt _ (by decide)
  refine Prod.ext ?_ ?_ <;> simp only <;> omega

end Mieru.SrcCache
