import Mieru.Model.Replay
/-!
# Lemmas about the replay-cache model (C06)

* provenance: every stored (signature, tag) pair was a call of the history (`Prov`), which gives
  "no false positive" and the tag rule;
* the no-miss invariant `Inv` (adapted from design/proof-sketches.md Appendix E, extended to tags
  and to in-between calls that carry the signature itself);
* map well-formedness: keys of `cur` are distinct (so `cur.length` is the Go map size).
-/
namespace Mieru.Proofs.Replay
open Mieru.Replay

def keys (m : List (Sig × Tag)) : List Sig := m.map (·.1)

theorem find_some_mem {m : List (Sig × Tag)} {s : Sig} {t : Tag} (h : find m s = some t) : (s, t) ∈ m := by
  unfold find at h
  cases hf : m.find? (fun p => p.1 == s) with
  | none => simp [hf] at h
  | some p =>
    simp [hf] at h
    have hm := List.mem_of_find?_eq_some hf
    have hp := List.find?_some hf
    simp at hp
    obtain ⟨a, b⟩ := p
    simp at hp h
    subst hp; subst h; exact hm

theorem find_none_iff {m : List (Sig × Tag)} {s : Sig} : find m s = none ↔ s ∉ keys m := by
  unfold find keys
  constructor
  · intro h
    cases hf : m.find? (fun p => p.1 == s) with
    | some p => simp [hf] at h
    | none =>
      rw [List.find?_eq_none] at hf
      intro hmem
      obtain ⟨p, hp, rfl⟩ := List.mem_map.mp hmem
      exact hf p hp (by simp)
  · intro h
    have : m.find? (fun p => p.1 == s) = none := by
      rw [List.find?_eq_none]
      intro p hp hps
      apply h
      simp at hps
      exact List.mem_map.mpr ⟨p, hp, hps⟩
    simp [this]

theorem find_isSome_of_mem {m : List (Sig × Tag)} {s : Sig} (h : s ∈ keys m) : ∃ t, find m s = some t := by
  cases hf : find m s with
  | some t => exact ⟨t, rfl⟩
  | none => exact absurd h (find_none_iff.mp hf)

/-! ## rot -/

theorem rot_cap (c : Cache) (now : Nat) : (rot c now).cap = c.cap ∧ (rot c now).iv = c.iv := by
  unfold rot; simp only; split <;> split <;> simp

/-- after `rot` at `now` the deadline is not in the past -/
theorem rot_exp (c : Cache) (now : Nat) : now ≤ (rot c now).exp := by
  unfold rot; simp only; split <;> split <;> simp_all <;> omega

/-- `rot` invents nothing: what is stored afterwards was stored before -/
theorem rot_sub (c : Cache) (now : Nat) (p : Sig × Tag)
    (h : p ∈ (rot c now).cur ∨ p ∈ (rot c now).prev) : p ∈ c.cur ∨ p ∈ c.prev := by
  unfold rot at h
  simp only at h
  split at h <;> split at h <;> simp_all

/-! ## provenance -/

/-- everything stored was a call of the history `hist` -/
def Prov (hist : List Call) (c : Cache) : Prop :=
  ∀ p : Sig × Tag, p ∈ c.cur ∨ p ∈ c.prev → ∃ q ∈ hist, q.sig = p.1 ∧ q.tag = p.2

theorem prov_init (cap iv now : Nat) : Prov [] (init cap iv now) := by
  intro p h; simp [init] at h

theorem prov_step (hist : List Call) (c : Cache) (q : Call) (h : Prov hist c) :
    Prov (hist ++ [q]) (step c q.sig q.tag q.time).1 := by
  intro p hp
  have hsub : p ∈ (rot c q.time).cur ∨ p ∈ (rot c q.time).prev ∨ p = (q.sig, q.tag) := by
    unfold step lookup at hp
    split at hp
    · rcases hp with hp | hp
      · exact Or.inl hp
      · exact Or.inr (Or.inl hp)
    · split at hp
      · rename_i t hf
        rcases hp with hp | hp
        · simp at hp
          rcases hp with hp | hp
          · exact Or.inr (Or.inl (by rw [hp]; exact find_some_mem hf))
          · exact Or.inl hp
        · exact Or.inr (Or.inl hp)
      · rcases hp with hp | hp
        · simp at hp
          rcases hp with hp | hp
          · exact Or.inr (Or.inr hp)
          · exact Or.inl hp
        · exact Or.inr (Or.inl hp)
  rcases hsub with h1 | h1 | h1
  · obtain ⟨r, hr, hh⟩ := h p (rot_sub c q.time p (Or.inl h1))
    exact ⟨r, by simp [hr], hh⟩
  · obtain ⟨r, hr, hh⟩ := h p (rot_sub c q.time p (Or.inr h1))
    exact ⟨r, by simp [hr], hh⟩
  · exact ⟨q, by simp, by simp [h1]⟩

theorem prov_run (hist : List Call) (c : Cache) (calls : List Call) (h : Prov hist c) :
    Prov (hist ++ calls) (run c calls) := by
  induction calls generalizing hist c with
  | nil => simpa [run] using h
  | cons q rest ih =>
    simp only [run]
    have := ih (hist ++ [q]) _ (prov_step hist c q h)
    simpa using this

/-- a positive answer names a stored pair whose tag conflicts -/
theorem step_true_stored (c : Cache) (s : Sig) (tag : Tag) (now : Nat) (h : (step c s tag now).2 = true) :
    ∃ t, ((s, t) ∈ c.cur ∨ (s, t) ∈ c.prev) ∧ tagConflict t tag = true := by
  unfold step lookup at h
  split at h
  · rename_i t hf
    exact ⟨t, rot_sub c now _ (Or.inl (find_some_mem hf)), h⟩
  · split at h
    · rename_i t hf
      exact ⟨t, rot_sub c now _ (Or.inr (find_some_mem hf)), h⟩
    · simp at h

/-- a stored signature is answered by the tag rule against a stored tag -/
theorem lookup_found (c : Cache) (e : Sig) (tag : Tag) (h : e ∈ keys c.cur ∨ e ∈ keys c.prev) :
    ∃ t, ((e, t) ∈ c.cur ∨ (e, t) ∈ c.prev) ∧ (lookup c e tag).2 = tagConflict t tag := by
  unfold lookup
  split
  · rename_i t hf
    exact ⟨t, Or.inl (find_some_mem hf), rfl⟩
  · rename_i hf
    have hn := find_none_iff.mp hf
    rcases h with h | h
    · exact absurd h hn
    · obtain ⟨t, ht⟩ := find_isSome_of_mem h
      simp only [ht]
      exact ⟨t, Or.inr (find_some_mem ht), rfl⟩

/-! ## the no-miss invariant -/

section NoMiss
variable (cap iv : Nat) (e : Sig) (t0 : Nat)

/-- `e` was recorded at `t0`; `seen` are the signatures of the calls since then -/
def Inv (seen : List Sig) (c : Cache) : Prop :=
  c.cap = cap ∧ c.iv = iv ∧
  ((e ∈ keys c.cur ∧ t0 ≤ c.exp) ∨
   (e ∈ keys c.prev ∧ t0 + iv ≤ c.exp ∧ (keys c.cur).Nodup ∧ ∀ x ∈ keys c.cur, x ∈ seen ∧ x ≠ e))

theorem lookup_keys (c : Cache) (s : Sig) (tag : Tag) :
    (lookup c s tag).1.cap = c.cap ∧ (lookup c s tag).1.iv = c.iv ∧ (lookup c s tag).1.exp = c.exp ∧
    (lookup c s tag).1.prev = c.prev ∧
    ((s ∈ keys c.cur ∧ (lookup c s tag).1.cur = c.cur) ∨
     (s ∉ keys c.cur ∧ ∃ τ, (lookup c s tag).1.cur = (s, τ) :: c.cur ∧
        ((s, τ) ∈ c.prev ∨ (τ = tag ∧ s ∉ keys c.prev)))) := by
  unfold lookup
  split
  · rename_i t hf
    have : s ∈ keys c.cur := List.mem_map.mpr ⟨(s, t), find_some_mem hf, rfl⟩
    simp [this]
  · rename_i hf
    have hn := find_none_iff.mp hf
    split
    · rename_i t hp
      exact ⟨rfl, rfl, rfl, rfl, Or.inr ⟨hn, t, rfl, Or.inl (find_some_mem hp)⟩⟩
    · rename_i hp
      exact ⟨rfl, rfl, rfl, rfl, Or.inr ⟨hn, tag, rfl, Or.inr ⟨rfl, find_none_iff.mp hp⟩⟩⟩

theorem inv_after_record (c : Cache) (tag : Tag) (hc : c.cap = cap) (hi : c.iv = iv) :
    Inv cap iv e t0 [] (step c e tag t0).1 := by
  have h1 := rot_cap c t0
  have h2 := rot_exp c t0
  obtain ⟨k1, k2, k3, _, k5⟩ := lookup_keys (rot c t0) e tag
  unfold step Inv
  refine ⟨by rw [k1, h1.1, hc], by rw [k2, h1.2, hi], Or.inl ⟨?_, by rw [k3]; exact h2⟩⟩
  rcases k5 with ⟨hin, hcur⟩ | ⟨_, τ, hcur, _⟩
  · rw [hcur]; exact hin
  · rw [hcur]; simp [keys]

/-- what `rot` does to a state satisfying the invariant, for instants inside the window -/
theorem rot_inv (seen : List Sig) (c : Cache) (now : Nat)
    (h : Inv cap iv e t0 seen c) (h0 : t0 ≤ now) (hnow : now ≤ t0 + iv)
    (hfew : ∀ l : List Sig, l.Nodup → (∀ x ∈ l, x ∈ seen ∧ x ≠ e) → l.length < cap) :
    Inv cap iv e t0 seen (rot c now) := by
  obtain ⟨hc, hi, h⟩ := h
  rcases h with ⟨he, hexp⟩ | ⟨he, hexp, hnd, hsub⟩
  · have noreset : ¬ now > c.exp + c.iv := by omega
    unfold rot Inv
    simp only [noreset, if_false]
    by_cases hrot : c.cur.length ≥ c.cap ∨ now > c.exp
    · simp only [hrot, if_true]
      exact ⟨hc, hi, Or.inr ⟨he, by simp [hi]; omega, by simp [keys], by simp [keys]⟩⟩
    · simp only [hrot, if_false]
      exact ⟨hc, hi, Or.inl ⟨he, hexp⟩⟩
  · have noreset : ¬ now > c.exp + c.iv := by omega
    have hlen : (keys c.cur).length < cap := hfew (keys c.cur) hnd hsub
    have hlen' : c.cur.length < cap := by simpa [keys] using hlen
    have norot : ¬ (c.cur.length ≥ c.cap ∨ now > c.exp) := by rw [hc]; omega
    unfold rot Inv
    simp only [noreset, norot, if_false]
    exact ⟨hc, hi, Or.inr ⟨he, hexp, hnd, hsub⟩⟩

/-- the lookup/insert part keeps the invariant, for any signature (also `e` itself) -/
theorem lookup_inv (seen : List Sig) (c : Cache) (s : Sig) (tag : Tag) (h : Inv cap iv e t0 seen c) :
    Inv cap iv e t0 (s :: seen) (lookup c s tag).1 := by
  obtain ⟨hc, hi, h⟩ := h
  obtain ⟨k1, k2, k3, k4, k5⟩ := lookup_keys c s tag
  unfold Inv
  rw [k1, k2, k3, k4]
  refine ⟨hc, hi, ?_⟩
  rcases k5 with ⟨_, hcur⟩ | ⟨hnot, τ, hcur, _⟩
  · rw [hcur]
    rcases h with h | ⟨he, hexp, hnd, hsub⟩
    · exact Or.inl h
    · exact Or.inr ⟨he, hexp, hnd, fun x hx => ⟨List.mem_cons_of_mem _ (hsub x hx).1, (hsub x hx).2⟩⟩
  · rw [hcur]
    rcases h with ⟨he, hexp⟩ | ⟨he, hexp, hnd, hsub⟩
    · exact Or.inl ⟨by simp only [keys, List.map_cons]; exact List.mem_cons_of_mem _ he, hexp⟩
    · by_cases hs : s = e
      · exact Or.inl ⟨by simp [keys, hs], by omega⟩
      · refine Or.inr ⟨he, hexp, ?_, ?_⟩
        · simp only [keys, List.map_cons]
          exact List.nodup_cons.mpr ⟨hnot, hnd⟩
        · intro x hx
          simp only [keys, List.map_cons] at hx
          rcases List.mem_cons.mp hx with rfl | hx
          · exact ⟨List.mem_cons_self, hs⟩
          · exact ⟨List.mem_cons_of_mem _ (hsub x hx).1, (hsub x hx).2⟩

theorem inv_present (seen : List Sig) (c : Cache) (h : Inv cap iv e t0 seen c) :
    e ∈ keys c.cur ∨ e ∈ keys c.prev := by
  obtain ⟨_, _, h⟩ := h
  rcases h with ⟨he, _⟩ | ⟨he, _⟩
  · exact Or.inl he
  · exact Or.inr he

/-- the invariant along the in-between calls -/
theorem inv_run (mid : List Call) (seen : List Sig) (c : Cache)
    (hinv : Inv cap iv e t0 seen c)
    (hm : ∀ p ∈ mid, t0 ≤ p.time ∧ p.time ≤ t0 + iv)
    (hf : ∀ l : List Sig, l.Nodup → (∀ x ∈ l, (x ∈ seen ∨ x ∈ mid.map (·.sig)) ∧ x ≠ e) → l.length < cap) :
    ∃ seen', Inv cap iv e t0 seen' (run c mid) ∧ ∀ x ∈ seen', x ∈ seen ∨ x ∈ mid.map (·.sig) := by
  induction mid generalizing seen c with
  | nil => exact ⟨seen, by simpa [run] using hinv, fun x hx => Or.inl hx⟩
  | cons p rest ih =>
    have hp := hm p (by simp)
    simp only [run]
    have hstep : Inv cap iv e t0 (p.sig :: seen) (step c p.sig p.tag p.time).1 := by
      unfold step
      apply lookup_inv
      apply rot_inv cap iv e t0 seen c p.time hinv hp.1 hp.2
      intro l hl hx; apply hf l hl; intro x hxl; exact ⟨Or.inl (hx x hxl).1, (hx x hxl).2⟩
    obtain ⟨seen', hinv', hsub⟩ := ih (p.sig :: seen) _ hstep (fun q hq => hm q (by simp [hq])) (by
      intro l hl hx; apply hf l hl; intro x hxl
      have := hx x hxl
      refine ⟨?_, this.2⟩
      rcases this.1 with h1 | h1
      · rcases List.mem_cons.mp h1 with rfl | h2
        · right; simp
        · left; exact h2
      · right; simp at h1 ⊢; right; exact h1)
    refine ⟨seen', hinv', ?_⟩
    intro x hx
    rcases hsub x hx with h1 | h1
    · rcases List.mem_cons.mp h1 with rfl | h2
      · right; simp
      · left; exact h2
    · right; simp at h1 ⊢; right; exact h1

/-- No miss, from any starting state: the signature recorded at `t0` is still stored when it is
    presented again at `t1`, so the answer is the tag rule against a stored tag. -/
theorem no_miss_stored (c : Cache) (hc : c.cap = cap) (hi : c.iv = iv) (tag0 : Tag) (mid : List Call)
    (tag1 : Tag) (t1 : Nat)
    (hmid : ∀ p ∈ mid, t0 ≤ p.time ∧ p.time ≤ t0 + iv) (ht0 : t0 ≤ t1) (ht : t1 ≤ t0 + iv)
    (hfew : ∀ l : List Sig, l.Nodup → (∀ x ∈ l, x ∈ mid.map (·.sig) ∧ x ≠ e) → l.length < cap) :
    let c' := run (step c e tag0 t0).1 mid
    ∃ t, ((e, t) ∈ c'.cur ∨ (e, t) ∈ c'.prev) ∧ (step c' e tag1 t1).2 = tagConflict t tag1 := by
  intro c'
  obtain ⟨seen', hinv, hsub⟩ := inv_run cap iv e t0 mid [] _ (inv_after_record cap iv e t0 c tag0 hc hi) hmid (by
    intro l hl hx; apply hfew l hl; intro x hxl; have := hx x hxl; simp_all)
  have hrot := rot_inv cap iv e t0 seen' c' t1 hinv ht0 ht (by
    intro l hl hx; apply hfew l hl; intro x hxl
    have := hx x hxl
    refine ⟨?_, this.2⟩
    rcases hsub x this.1 with h1 | h1
    · simp at h1
    · exact h1)
  obtain ⟨t, hmem, hres⟩ := lookup_found (rot c' t1) e tag1 (inv_present cap iv e t0 seen' _ hrot)
  exact ⟨t, rot_sub c' t1 _ hmem, hres⟩

/-! ### the owner's tag: every stored pair of `e` carries the tag of its first sighting -/

def Own (tag0 : Tag) (c : Cache) : Prop := ∀ t, ((e, t) ∈ c.cur ∨ (e, t) ∈ c.prev) → t = tag0

theorem own_rot (tag0 : Tag) (c : Cache) (now : Nat) (h : Own e tag0 c) : Own e tag0 (rot c now) :=
  fun t ht => h t (rot_sub c now _ ht)

theorem mem_keys_of_mem {m : List (Sig × Tag)} {s : Sig} {t : Tag} (h : (s, t) ∈ m) : s ∈ keys m :=
  List.mem_map.mpr ⟨(s, t), h, rfl⟩

/-- the lookup/insert part keeps the owner's tag, provided `e` is stored when it is `e` that is presented -/
theorem own_lookup (tag0 : Tag) (c : Cache) (s : Sig) (tag : Tag) (h : Own e tag0 c)
    (hp : s ≠ e ∨ e ∈ keys c.cur ∨ e ∈ keys c.prev) : Own e tag0 (lookup c s tag).1 := by
  obtain ⟨_, _, _, k4, k5⟩ := lookup_keys c s tag
  intro t ht
  rw [k4] at ht
  rcases k5 with ⟨_, hcur⟩ | ⟨hnot, τ, hcur, hτ⟩
  · rw [hcur] at ht; exact h t ht
  · rw [hcur] at ht
    rcases ht with ht | ht
    · rcases List.mem_cons.mp ht with heq | ht'
      · have hs : e = s := (Prod.mk.inj heq).1
        have hτt : t = τ := (Prod.mk.inj heq).2
        subst hs
        rcases hτ with hprev | ⟨_, hnp⟩
        · rw [hτt]; exact h τ (Or.inr hprev)
        · rcases hp with hp | hp | hp
          · exact absurd rfl hp
          · exact absurd hp hnot
          · exact absurd hp hnp
      · exact h t (Or.inl ht')
    · exact h t (Or.inr ht)

/-- recording a fresh signature makes the presenter its owner -/
theorem own_after_record (c : Cache) (tag0 : Tag) (hf : Fresh c e) : Own e tag0 (step c e tag0 t0).1 := by
  have hn1 : e ∉ keys (rot c t0).cur := by
    intro hm
    obtain ⟨p, hp, hpe⟩ := List.mem_map.mp hm
    have hp' : (e, p.2) ∈ (rot c t0).cur := by rw [← hpe]; exact hp
    rcases rot_sub c t0 _ (Or.inl hp') with h1 | h1
    · exact find_none_iff.mp hf.1 (mem_keys_of_mem h1)
    · exact find_none_iff.mp hf.2 (mem_keys_of_mem h1)
  have hn2 : e ∉ keys (rot c t0).prev := by
    intro hm
    obtain ⟨p, hp, hpe⟩ := List.mem_map.mp hm
    have hp' : (e, p.2) ∈ (rot c t0).prev := by rw [← hpe]; exact hp
    rcases rot_sub c t0 _ (Or.inr hp') with h1 | h1
    · exact find_none_iff.mp hf.1 (mem_keys_of_mem h1)
    · exact find_none_iff.mp hf.2 (mem_keys_of_mem h1)
  obtain ⟨_, _, _, k4, k5⟩ := lookup_keys (rot c t0) e tag0
  unfold step
  intro t ht
  rw [k4] at ht
  rcases k5 with ⟨hin, _⟩ | ⟨_, τ, hcur, hτ⟩
  · exact absurd hin hn1
  · rw [hcur] at ht
    rcases ht with ht | ht
    · rcases List.mem_cons.mp ht with heq | ht'
      · have hτt : t = τ := (Prod.mk.inj heq).2
        rcases hτ with hprev | ⟨hτ0, _⟩
        · exact absurd (mem_keys_of_mem hprev) hn2
        · rw [hτt, hτ0]
      · exact absurd (mem_keys_of_mem ht') hn1
    · exact absurd (mem_keys_of_mem ht) hn2

/-- invariant and owner's tag along the in-between calls -/
theorem inv_own_run (tag0 : Tag) (mid : List Call) (seen : List Sig) (c : Cache)
    (hinv : Inv cap iv e t0 seen c) (hown : Own e tag0 c)
    (hm : ∀ p ∈ mid, t0 ≤ p.time ∧ p.time ≤ t0 + iv)
    (hf : ∀ l : List Sig, l.Nodup → (∀ x ∈ l, (x ∈ seen ∨ x ∈ mid.map (·.sig)) ∧ x ≠ e) → l.length < cap) :
    Own e tag0 (run c mid) := by
  induction mid generalizing seen c with
  | nil => simpa [run] using hown
  | cons p rest ih =>
    have hp := hm p (by simp)
    simp only [run]
    have hrot : Inv cap iv e t0 seen (rot c p.time) := by
      apply rot_inv cap iv e t0 seen c p.time hinv hp.1 hp.2
      intro l hl hx; apply hf l hl; intro x hxl; exact ⟨Or.inl (hx x hxl).1, (hx x hxl).2⟩
    have hstep : Inv cap iv e t0 (p.sig :: seen) (step c p.sig p.tag p.time).1 := by
      unfold step; exact lookup_inv cap iv e t0 seen _ p.sig p.tag hrot
    have hown' : Own e tag0 (step c p.sig p.tag p.time).1 := by
      unfold step
      exact own_lookup e tag0 _ p.sig p.tag (own_rot e tag0 c p.time hown) (Or.inr (inv_present cap iv e t0 seen _ hrot))
    exact ih (p.sig :: seen) _ hstep hown' (fun q hq => hm q (by simp [hq])) (by
      intro l hl hx; apply hf l hl; intro x hxl
      have := hx x hxl
      refine ⟨?_, this.2⟩
      rcases this.1 with h1 | h1
      · rcases List.mem_cons.mp h1 with rfl | h2
        · right; simp
        · left; exact h2
      · right; simp at h1 ⊢; right; exact h1)

/-- No miss WITH the owner's tag: a signature that was fresh when `(e, tag0)` recorded it at `t0` is
    answered, inside the bounds, by the tag rule against `tag0` — whoever presented it in between. -/
theorem no_miss_owner (c : Cache) (hc : c.cap = cap) (hi : c.iv = iv) (hfresh : Fresh c e) (tag0 : Tag)
    (mid : List Call) (tag1 : Tag) (t1 : Nat)
    (hmid : ∀ p ∈ mid, t0 ≤ p.time ∧ p.time ≤ t0 + iv) (ht0 : t0 ≤ t1) (ht : t1 ≤ t0 + iv)
    (hfew : ∀ l : List Sig, l.Nodup → (∀ x ∈ l, x ∈ mid.map (·.sig) ∧ x ≠ e) → l.length < cap) :
    (step (run (step c e tag0 t0).1 mid) e tag1 t1).2 = tagConflict tag0 tag1 := by
  obtain ⟨t, hmem, hres⟩ := no_miss_stored cap iv e t0 c hc hi tag0 mid tag1 t1 hmid ht0 ht hfew
  have hown := inv_own_run cap iv e t0 tag0 mid [] _ (inv_after_record cap iv e t0 c tag0 hc hi)
    (own_after_record e t0 c tag0 hfresh) hmid (by
      intro l hl hx; apply hfew l hl; intro x hxl; have := hx x hxl; simp_all)
  rw [hres, hown t hmem]

/-- one link: answer by the owner's tag, and the invariant is re-established at the new instant -/
theorem owner_link (tag0 : Tag) (c : Cache) (hinv : Inv cap iv e t0 [] c) (hown : Own e tag0 c)
    (mid : List Call) (tag1 : Tag) (t1 : Nat)
    (hmid : ∀ p ∈ mid, t0 ≤ p.time ∧ p.time ≤ t0 + iv) (ht0 : t0 ≤ t1) (ht : t1 ≤ t0 + iv)
    (hfew : ∀ l : List Sig, l.Nodup → (∀ x ∈ l, x ∈ mid.map (·.sig) ∧ x ≠ e) → l.length < cap) :
    (step (run c mid) e tag1 t1).2 = tagConflict tag0 tag1 ∧
    Inv cap iv e t1 [] (step (run c mid) e tag1 t1).1 ∧ Own e tag0 (step (run c mid) e tag1 t1).1 := by
  have hf' : ∀ l : List Sig, l.Nodup → (∀ x ∈ l, (x ∈ ([] : List Sig) ∨ x ∈ mid.map (·.sig)) ∧ x ≠ e) → l.length < cap := by
    intro l hl hx; apply hfew l hl; intro x hxl; have := hx x hxl; simp_all
  obtain ⟨seen', hinv', hsub⟩ := inv_run cap iv e t0 mid [] c hinv hmid hf'
  have hown' := inv_own_run cap iv e t0 tag0 mid [] c hinv hown hmid hf'
  have hrot := rot_inv cap iv e t0 seen' (run c mid) t1 hinv' ht0 ht (by
    intro l hl hx; apply hfew l hl; intro x hxl
    have := hx x hxl
    refine ⟨?_, this.2⟩
    rcases hsub x this.1 with h1 | h1
    · simp at h1
    · exact h1)
  have hpres := inv_present cap iv e t0 seen' _ hrot
  obtain ⟨t, hmem, hres⟩ := lookup_found (rot (run c mid) t1) e tag1 hpres
  have hownrot := own_rot e tag0 (run c mid) t1 hown'
  refine ⟨?_, ?_, ?_⟩
  · unfold step; rw [hres, hownrot t hmem]
  · exact inv_after_record cap iv e t1 (run c mid) tag1 hinv'.1 hinv'.2.1
  · unfold step; exact own_lookup e tag0 _ e tag1 hownrot (Or.inr hpres)

/-- the whole chain -/
theorem owner_chain (tag0 : Tag) (rounds : List Round) (c : Cache) (t : Nat)
    (hinv : Inv cap iv e t [] c) (hown : Own e tag0 c) (hok : ChainOK cap iv e t rounds) :
    chainAnswers c e rounds = rounds.map (fun r => tagConflict tag0 r.tag) := by
  induction rounds generalizing c t with
  | nil => simp [chainAnswers]
  | cons r rest ih =>
    simp only [ChainOK] at hok
    obtain ⟨h1, h2, h3, h4, h5⟩ := hok
    obtain ⟨a, b, d⟩ := owner_link cap iv e t tag0 c hinv hown r.mid r.tag r.time h1 h2 h3 h4
    simp only [chainAnswers, List.map_cons]
    rw [a, ih _ r.time b d h5]

end NoMiss

/-! ## run -/

theorem run_append (c : Cache) (a b : List Call) : run c (a ++ b) = run (run c a) b := by
  induction a generalizing c with
  | nil => simp [run]
  | cons x rest ih => simp only [List.cons_append, run]; exact ih _

theorem step_cap (c : Cache) (s : Sig) (tag : Tag) (now : Nat) :
    (step c s tag now).1.cap = c.cap ∧ (step c s tag now).1.iv = c.iv := by
  obtain ⟨k1, k2, _⟩ := lookup_keys (rot c now) s tag
  have r := rot_cap c now
  unfold step
  rw [k1, k2, r.1, r.2]; exact ⟨rfl, rfl⟩

theorem run_cap (c : Cache) (calls : List Call) : (run c calls).cap = c.cap ∧ (run c calls).iv = c.iv := by
  induction calls generalizing c with
  | nil => simp [run]
  | cons a rest ih =>
    simp only [run]
    have := ih (step c a.sig a.tag a.time).1
    have s := step_cap c a.sig a.tag a.time
    rw [this.1, this.2, s.1, s.2]; exact ⟨rfl, rfl⟩

/-! ## counting distinct signatures -/

theorem mem_distinct (l : List Sig) (x : Sig) : x ∈ distinct l ↔ x ∈ l := by
  induction l with
  | nil => simp [distinct]
  | cons a l ih =>
    unfold distinct
    split
    · rename_i h
      constructor
      · intro hx; exact List.mem_cons_of_mem _ (ih.mp hx)
      · intro hx
        rcases List.mem_cons.mp hx with rfl | hx
        · exact h
        · exact ih.mpr hx
    · simp [ih]

theorem nodup_distinct (l : List Sig) : (distinct l).Nodup := by
  induction l with
  | nil => simp [distinct]
  | cons a l ih =>
    unfold distinct
    split
    · exact ih
    · rename_i h; exact List.nodup_cons.mpr ⟨h, ih⟩

/-- pigeonhole: a duplicate-free list inside `m` is no longer than `m` -/
theorem nodup_length_le (l m : List Sig) (hl : l.Nodup) (hsub : ∀ x ∈ l, x ∈ m) : l.length ≤ m.length := by
  induction l generalizing m with
  | nil => simp
  | cons a l ih =>
    have ha : a ∈ m := hsub a (by simp)
    obtain ⟨hnot, hl'⟩ := List.nodup_cons.mp hl
    have := ih (m.erase a) hl' (by
      intro x hx
      have hne : x ≠ a := by intro h; subst h; exact hnot hx
      exact (List.mem_erase_of_ne hne).mpr (hsub x (List.mem_cons_of_mem _ hx)))
    have hlen := List.length_erase_of_mem ha
    have hpos : 0 < m.length := List.length_pos_of_mem ha
    simp only [List.length_cons]
    omega

/-- `FewOthers` is the count of distinct other signatures being below the capacity -/
theorem fewOthers_iff (cap : Nat) (e : Sig) (mid : List Call) :
    FewOthers cap e mid ↔ distinctOthers e mid < cap := by
  unfold FewOthers distinctOthers
  constructor
  · intro h
    apply h _ (nodup_distinct _)
    intro x hx
    have := (mem_distinct _ x).mp hx
    simpa using this
  · intro h l hl hx
    have := nodup_length_le l (distinct ((mid.map (·.sig)).filter (· ≠ e))) hl (by
      intro x hxl
      apply (mem_distinct _ x).mpr
      have := hx x hxl
      simpa using this)
    omega

theorem nonDecreasing_bounds (t0 : Nat) (ts : List Nat) (t1 : Nat) (h : NonDecreasing (t0 :: (ts ++ [t1]))) :
    (∀ t ∈ ts, t0 ≤ t ∧ t ≤ t1) ∧ t0 ≤ t1 := by
  induction ts generalizing t0 with
  | nil => simp [NonDecreasing] at h; simp [h]
  | cons a rest ih =>
    simp only [List.cons_append, NonDecreasing] at h
    obtain ⟨h1, h2⟩ := h
    obtain ⟨i1, i2⟩ := ih a h2
    refine ⟨?_, by omega⟩
    intro t ht
    rcases List.mem_cons.mp ht with rfl | ht
    · exact ⟨h1, i2⟩
    · have := i1 t ht; omega

/-! ## map well-formedness -/

theorem rot_nodup (c : Cache) (now : Nat) (h : (keys c.cur).Nodup ∧ (keys c.prev).Nodup) :
    (keys (rot c now).cur).Nodup ∧ (keys (rot c now).prev).Nodup := by
  unfold rot; simp only; split <;> split <;> simp_all [keys]

theorem step_nodup (c : Cache) (s : Sig) (tag : Tag) (now : Nat) (h : (keys c.cur).Nodup ∧ (keys c.prev).Nodup) :
    (keys (step c s tag now).1.cur).Nodup ∧ (keys (step c s tag now).1.prev).Nodup := by
  have hr := rot_nodup c now h
  obtain ⟨_, _, _, k4, k5⟩ := lookup_keys (rot c now) s tag
  unfold step
  rw [k4]
  refine ⟨?_, hr.2⟩
  rcases k5 with ⟨_, hcur⟩ | ⟨hnot, τ, hcur, _⟩
  · rw [hcur]; exact hr.1
  · rw [hcur]; simp only [keys, List.map_cons]; exact List.nodup_cons.mpr ⟨hnot, hr.1⟩

/-- keys stay distinct, so `cur.length` / `prev.length` are the sizes of the Go maps -/
theorem run_keys_nodup (cap iv start : Nat) (calls : List Call) :
    (keys (run (init cap iv start) calls).cur).Nodup ∧ (keys (run (init cap iv start) calls).prev).Nodup := by
  suffices H : ∀ c : Cache, ((keys c.cur).Nodup ∧ (keys c.prev).Nodup) →
      (keys (run c calls).cur).Nodup ∧ (keys (run c calls).prev).Nodup by
    exact H _ (by simp [init, keys])
  induction calls with
  | nil => intro c h; simpa [run] using h
  | cons q rest ih => intro c h; simp only [run]; exact ih _ (step_nodup c q.sig q.tag q.time h)

/-- the current generation never holds more than `cap` entries (for `cap > 0`) -/
theorem step_size (c : Cache) (s : Sig) (tag : Tag) (now : Nat) (hcap : 0 < c.cap) :
    (step c s tag now).1.cur.length ≤ c.cap := by
  obtain ⟨_, _, _, _, k5⟩ := lookup_keys (rot c now) s tag
  have hr : (rot c now).cur.length < c.cap ∨ (rot c now).cur = [] := by
    unfold rot; simp only; split <;> split <;> simp_all <;> omega
  unfold step
  rcases k5 with ⟨_, hcur⟩ | ⟨_, τ, hcur, _⟩ <;> rw [hcur] <;> rcases hr with hr | hr <;> simp_all <;> omega

end Mieru.Proofs.Replay
