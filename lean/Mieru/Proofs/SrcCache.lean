import Mieru.Model.SrcCache
/-!
# Helper lemmas about the source-user cache bucket (used by Props/C07.lean)
-/
set_option linter.unusedSimpArgs false
set_option linter.unusedVariables false
namespace Mieru.SrcCache

/-! ### generic list helpers -/

theorem firstIdx_some {α} (p : α → Bool) (l : List α) (i : Nat) (h : firstIdx p l = some i) :
    ∃ x, l[i]? = some x ∧ p x = true := by
  induction l generalizing i with
  | nil => simp [firstIdx] at h
  | cons y ys ih =>
    unfold firstIdx at h
    split at h
    · rename_i hp
      simp only [Option.some.injEq] at h
      subst h
      exact ⟨y, rfl, hp⟩
    · cases hf : firstIdx p ys with
      | none => rw [hf] at h; simp at h
      | some j =>
        rw [hf] at h
        simp only [Option.map_some, Option.some.injEq] at h
        subst h
        obtain ⟨x, hx, hpx⟩ := ih j hf
        exact ⟨x, by simpa using hx, hpx⟩

theorem mem_set {α} (l : List α) (i : Nat) (x y : α) (h : y ∈ l.set i x) : y ∈ l ∨ y = x := by
  induction l generalizing i with
  | nil => simp at h
  | cons a as ih =>
    cases i with
    | zero =>
      simp only [List.set_cons_zero, List.mem_cons] at h
      rcases h with h | h
      · exact Or.inr h
      · exact Or.inl (List.mem_cons_of_mem _ h)
    | succ j =>
      simp only [List.set_cons_succ, List.mem_cons] at h
      rcases h with h | h
      · exact Or.inl (h ▸ List.mem_cons_self)
      · rcases ih j h with h' | h'
        · exact Or.inl (List.mem_cons_of_mem _ h')
        · exact Or.inr h'

/-! ### the insertion sort is a permutation -/

theorem insertByAge_perm (x : Nat × Nat) (l : List (Nat × Nat)) : (insertByAge x l).Perm (x :: l) := by
  induction l with
  | nil => exact List.Perm.refl _
  | cons y ys ih =>
    unfold insertByAge
    split
    · exact List.Perm.refl _
    · exact (List.Perm.cons y ih).trans (List.Perm.swap x y ys)

theorem foldl_insert_perm (l acc : List (Nat × Nat)) :
    (l.foldl (fun acc x => insertByAge x acc) acc).Perm (acc ++ l) := by
  induction l generalizing acc with
  | nil => simp
  | cons x xs ih =>
    simp only [List.foldl_cons]
    refine (ih (insertByAge x acc)).trans ?_
    have h1 : (insertByAge x acc ++ xs).Perm ((x :: acc) ++ xs) := List.Perm.append_right xs (insertByAge_perm x acc)
    refine h1.trans ?_
    have : (x :: acc) ++ xs = x :: (acc ++ xs) := rfl
    rw [this]
    exact (List.perm_middle).symm

theorem sortByAge_perm (l : List (Nat × Nat)) : (sortByAge l).Perm l := by
  have := foldl_insert_perm l []
  simpa [sortByAge] using this

/-! ### the candidate scan -/

/-- a user id some live (non-empty, unexpired) slot of `U` holds -/
def Live (now : Nat) (U : List (Nat × Nat)) (i : Nat) : Prop :=
  i ≠ 0 ∧ ∃ seen, (i, seen) ∈ U ∧ expired now seen = false

theorem map_fst_update (acc : List (Nat × Nat)) (id a : Nat) :
    (acc.map fun c => if c.1 = id ∧ a < c.2 then (id, a) else c).map (·.1) = acc.map (·.1) := by
  rw [List.map_map]
  apply List.map_congr_left
  intro c _
  simp only [Function.comp]
  split
  · rename_i h; exact h.1.symm
  · rfl

theorem candidates_spec (now : Nat) (U : List (Nat × Nat)) :
    ∀ (rest acc : List (Nat × Nat)), (∀ s ∈ rest, s ∈ U) →
      (∀ i ∈ acc.map (·.1), Live now U i) → (acc.map (·.1)).Nodup →
      (∀ i ∈ (candidates now rest acc).map (·.1), Live now U i) ∧
      ((candidates now rest acc).map (·.1)).Nodup ∧
      (candidates now rest acc).length ≤ acc.length + rest.length := by
  intro rest
  induction rest with
  | nil => intro acc _ h2 h3; exact ⟨h2, h3, by simp [candidates]⟩
  | cons s rest ih =>
    intro acc h1 h2 h3
    obtain ⟨id, seen⟩ := s
    have hrest : ∀ s ∈ rest, s ∈ U := fun s hs => h1 s (List.mem_cons_of_mem _ hs)
    unfold candidates
    split
    · obtain ⟨a, b, c⟩ := ih acc hrest h2 h3
      exact ⟨a, b, by simp only [List.length_cons]; omega⟩
    · rename_i hskip
      simp only [not_or, Bool.not_eq_true] at hskip
      have hlive : Live now U id := ⟨hskip.1, seen, h1 _ List.mem_cons_self, hskip.2⟩
      split
      · have hm := map_fst_update acc id (age now seen)
        obtain ⟨a, b, c⟩ := ih _ hrest (by rw [hm]; exact h2) (by rw [hm]; exact h3)
        exact ⟨a, b, by simp only [List.length_cons, List.length_map] at c ⊢; omega⟩
      · rename_i hany
        have hnin : id ∉ acc.map (·.1) := by
          intro hin
          apply hany
          obtain ⟨c, hc, hce⟩ := List.mem_map.mp hin
          exact List.any_eq_true.mpr ⟨c, hc, by simp [hce]⟩
        obtain ⟨a, b, c⟩ := ih (acc ++ [(id, age now seen)]) hrest
          (by
            intro i hi
            simp only [List.map_append, List.map_cons, List.map_nil, List.mem_append, List.mem_singleton] at hi
            rcases hi with hi | hi
            · exact h2 i hi
            · exact hi ▸ hlive)
          (by
            simp only [List.map_append, List.map_cons, List.map_nil]
            rw [List.nodup_append]
            refine ⟨h3, by simp, ?_⟩
            intro x hx y hy hxy
            simp only [List.mem_singleton] at hy
            exact hnin (hy ▸ hxy ▸ hx))
        exact ⟨a, b, by simp only [List.length_append, List.length_cons, List.length_nil] at c ⊢; omega⟩

/-! ### MRU order: the insertion sort sorts, stably -/

theorem insertByAge_sorted (x : Nat × Nat) (l : List (Nat × Nat))
    (h : l.Pairwise (fun a c => a.2 ≤ c.2)) : (insertByAge x l).Pairwise (fun a c => a.2 ≤ c.2) := by
  induction l with
  | nil => simp [insertByAge]
  | cons y ys ih =>
    unfold insertByAge
    have hy := List.pairwise_cons.mp h
    split
    · rename_i hlt
      refine List.pairwise_cons.mpr ⟨?_, h⟩
      intro z hz
      rcases List.mem_cons.mp hz with rfl | hz'
      · omega
      · have := hy.1 z hz'; omega
    · rename_i hge
      refine List.pairwise_cons.mpr ⟨?_, ih hy.2⟩
      intro z hz
      rcases List.mem_cons.mp ((insertByAge_perm x ys).mem_iff.mp hz) with rfl | hz'
      · omega
      · exact hy.1 z hz'

theorem foldl_insert_sorted (l acc : List (Nat × Nat)) (h : acc.Pairwise (fun a c => a.2 ≤ c.2)) :
    (l.foldl (fun acc x => insertByAge x acc) acc).Pairwise (fun a c => a.2 ≤ c.2) := by
  induction l generalizing acc with
  | nil => exact h
  | cons x xs ih => exact ih _ (insertByAge_sorted x acc h)

/-- most recently seen first -/
theorem sortByAge_sorted (l : List (Nat × Nat)) : (sortByAge l).Pairwise (fun a c => a.2 ≤ c.2) :=
  foldl_insert_sorted l [] List.Pairwise.nil

theorem insertByAge_filter (x : Nat × Nat) (l : List (Nat × Nat)) (k : Nat)
    (h : l.Pairwise (fun a c => a.2 ≤ c.2)) :
    (insertByAge x l).filter (fun c => c.2 == k)
      = l.filter (fun c => c.2 == k) ++ (if x.2 = k then [x] else []) := by
  induction l with
  | nil => by_cases hk : x.2 = k <;> simp [insertByAge, hk]
  | cons y ys ih =>
    have hy := List.pairwise_cons.mp h
    unfold insertByAge
    split
    · rename_i hlt
      by_cases hk : x.2 = k
      · -- nothing in y :: ys has age k: they are all strictly older than x
        have hnone : (y :: ys).filter (fun c => c.2 == k) = [] := by
          apply List.filter_eq_nil_iff.mpr
          intro z hz
          have hz2 : y.2 ≤ z.2 := by
            rcases List.mem_cons.mp hz with rfl | hz'
            · exact Nat.le_refl _
            · exact hy.1 z hz'
          simp only [beq_iff_eq]; omega
        rw [List.filter_cons, hnone]
        simp [hk]
      · rw [List.filter_cons]
        simp [hk]
    · rw [List.filter_cons, ih hy.2, List.filter_cons]
      by_cases hyk : y.2 = k <;> simp [hyk]

theorem foldl_insert_filter (l acc : List (Nat × Nat)) (k : Nat)
    (h : acc.Pairwise (fun a c => a.2 ≤ c.2)) :
    (l.foldl (fun acc x => insertByAge x acc) acc).filter (fun c => c.2 == k)
      = acc.filter (fun c => c.2 == k) ++ l.filter (fun c => c.2 == k) := by
  induction l generalizing acc with
  | nil => simp
  | cons x xs ih =>
    simp only [List.foldl_cons]
    rw [ih _ (insertByAge_sorted x acc h), insertByAge_filter x acc k h, List.filter_cons]
    by_cases hk : x.2 = k <;> simp [hk]

/-- stable: candidates of equal age keep their relative order -/
theorem sortByAge_stable (l : List (Nat × Nat)) (k : Nat) :
    (sortByAge l).filter (fun c => c.2 == k) = l.filter (fun c => c.2 == k) := by
  have := foldl_insert_filter l [] k List.Pairwise.nil
  simpa [sortByAge] using this

/-! ### the candidate scan is complete and keeps the freshest slot of every user -/

/-- processed so far: every candidate's age is the age of a live slot of that user, and no live slot
    of that user seen so far is fresher -/
def CandOK (now : Nat) (done : List (Nat × Nat)) (acc : List (Nat × Nat)) : Prop :=
  (acc.map (·.1)).Nodup ∧
  (∀ c ∈ acc, c.1 ≠ 0 ∧ ∃ seen, (c.1, seen) ∈ done ∧ expired now seen = false ∧ c.2 = age now seen) ∧
  (∀ c ∈ acc, ∀ seen, (c.1, seen) ∈ done → expired now seen = false → c.2 ≤ age now seen) ∧
  (∀ id seen, (id, seen) ∈ done → id ≠ 0 → expired now seen = false → id ∈ acc.map (·.1))

theorem candOK_step_skip (now : Nat) (done acc : List (Nat × Nat)) (id seen : Nat)
    (hskip : id = 0 ∨ expired now seen = true) (h : CandOK now done acc) :
    CandOK now (done ++ [(id, seen)]) acc := by
  obtain ⟨h1, h2, h3, h4⟩ := h
  refine ⟨h1, ?_, ?_, ?_⟩
  · intro c hc
    obtain ⟨hne, s, hs, he, ha⟩ := h2 c hc
    exact ⟨hne, s, List.mem_append.mpr (Or.inl hs), he, ha⟩
  · intro c hc s hs he
    rcases List.mem_append.mp hs with hs | hs
    · exact h3 c hc s hs he
    · simp only [List.mem_singleton, Prod.mk.injEq] at hs
      obtain ⟨e1, e2⟩ := hs
      rcases hskip with h0 | hexp
      · exact absurd (e1.trans h0) (h2 c hc).1
      · rw [e2, hexp] at he; cases he
  · intro i s hs hne he
    rcases List.mem_append.mp hs with hs | hs
    · exact h4 i s hs hne he
    · simp only [List.mem_singleton, Prod.mk.injEq] at hs
      obtain ⟨e1, e2⟩ := hs
      rcases hskip with h0 | hexp
      · exact absurd (e1.trans h0) hne
      · rw [e2, hexp] at he; cases he

theorem candOK_step_new (now : Nat) (done acc : List (Nat × Nat)) (id seen : Nat)
    (hne : id ≠ 0) (hlive : expired now seen = false) (hnew : id ∉ acc.map (·.1))
    (h : CandOK now done acc) :
    CandOK now (done ++ [(id, seen)]) (acc ++ [(id, age now seen)]) := by
  obtain ⟨h1, h2, h3, h4⟩ := h
  refine ⟨?_, ?_, ?_, ?_⟩
  · simp only [List.map_append, List.map_cons, List.map_nil]
    rw [List.nodup_append]
    refine ⟨h1, by simp, ?_⟩
    intro x hx y hy hxy
    simp only [List.mem_singleton] at hy
    exact hnew (hy ▸ hxy ▸ hx)
  · intro c hc
    rcases List.mem_append.mp hc with hc | hc
    · obtain ⟨hn, s, hs, he, ha⟩ := h2 c hc
      exact ⟨hn, s, List.mem_append.mpr (Or.inl hs), he, ha⟩
    · simp only [List.mem_singleton] at hc
      subst hc
      exact ⟨hne, seen, List.mem_append.mpr (Or.inr (List.mem_singleton.mpr rfl)), hlive, rfl⟩
  · intro c hc s hs he
    rcases List.mem_append.mp hc with hc | hc
    · rcases List.mem_append.mp hs with hs | hs
      · exact h3 c hc s hs he
      · simp only [List.mem_singleton, Prod.mk.injEq] at hs
        exact absurd (List.mem_map.mpr ⟨c, hc, hs.1⟩) hnew
    · simp only [List.mem_singleton] at hc
      subst hc
      rcases List.mem_append.mp hs with hs | hs
      · exact absurd (h4 id s hs hne he) hnew
      · simp only [List.mem_singleton, Prod.mk.injEq] at hs
        rw [hs.2]; exact Nat.le_refl _
  · intro i s hs hn he
    simp only [List.map_append, List.map_cons, List.map_nil, List.mem_append, List.mem_singleton]
    rcases List.mem_append.mp hs with hs | hs
    · exact Or.inl (h4 i s hs hn he)
    · simp only [List.mem_singleton, Prod.mk.injEq] at hs
      exact Or.inr hs.1

theorem candOK_step_dup (now : Nat) (done acc : List (Nat × Nat)) (id seen : Nat)
    (hne : id ≠ 0) (hlive : expired now seen = false) (hold : id ∈ acc.map (·.1))
    (h : CandOK now done acc) :
    CandOK now (done ++ [(id, seen)])
      (acc.map fun c => if c.1 = id ∧ age now seen < c.2 then (id, age now seen) else c) := by
  obtain ⟨h1, h2, h3, h4⟩ := h
  have hm := map_fst_update acc id (age now seen)
  refine ⟨by rw [hm]; exact h1, ?_, ?_, ?_⟩
  · intro c hc
    obtain ⟨c0, hc0, hce⟩ := List.mem_map.mp hc
    split at hce
    · subst hce
      exact ⟨hne, seen, List.mem_append.mpr (Or.inr (List.mem_singleton.mpr rfl)), hlive, rfl⟩
    · subst hce
      obtain ⟨hn, s, hs, he, ha⟩ := h2 c0 hc0
      exact ⟨hn, s, List.mem_append.mpr (Or.inl hs), he, ha⟩
  · intro c hc s hs he
    obtain ⟨c0, hc0, hce⟩ := List.mem_map.mp hc
    split at hce
    · rename_i hcond
      subst hce
      simp only at hs ⊢
      rcases List.mem_append.mp hs with hs | hs
      · have := h3 c0 hc0 s (hcond.1 ▸ hs) he
        omega
      · simp only [List.mem_singleton, Prod.mk.injEq] at hs
        rw [hs.2]; exact Nat.le_refl _
    · rename_i hcond
      subst hce
      rcases List.mem_append.mp hs with hs | hs
      · exact h3 c0 hc0 s hs he
      · simp only [List.mem_singleton, Prod.mk.injEq] at hs
        obtain ⟨e1, e2⟩ := hs
        rw [e2]
        have : ¬ (age now seen < c0.2) := fun hlt => hcond ⟨e1, hlt⟩
        omega
  · intro i s hs hn he
    rw [hm]
    rcases List.mem_append.mp hs with hs | hs
    · exact h4 i s hs hn he
    · simp only [List.mem_singleton, Prod.mk.injEq] at hs
      rw [hs.1]; exact hold

theorem candidates_ok (now : Nat) (rest done acc : List (Nat × Nat)) (h : CandOK now done acc) :
    CandOK now (done ++ rest) (candidates now rest acc) := by
  induction rest generalizing done acc with
  | nil => simpa [candidates] using h
  | cons s rest ih =>
    obtain ⟨id, seen⟩ := s
    have e : done ++ (id, seen) :: rest = (done ++ [(id, seen)]) ++ rest := by simp
    rw [e]
    unfold candidates
    split
    · rename_i hskip
      exact ih _ _ (candOK_step_skip now done acc id seen hskip h)
    · rename_i hskip
      simp only [not_or, Bool.not_eq_true] at hskip
      split
      · rename_i hany
        have hold : id ∈ acc.map (·.1) := by
          obtain ⟨c, hc, hce⟩ := List.any_eq_true.mp hany
          exact List.mem_map.mpr ⟨c, hc, by simpa using hce⟩
        exact ih _ _ (candOK_step_dup now done acc id seen hskip.1 hskip.2 hold h)
      · rename_i hany
        have hnew : id ∉ acc.map (·.1) := by
          intro hin
          apply hany
          obtain ⟨c, hc, hce⟩ := List.mem_map.mp hin
          exact List.any_eq_true.mpr ⟨c, hc, by simp [hce]⟩
        exact ih _ _ (candOK_step_new now done acc id seen hskip.1 hskip.2 hnew h)

theorem candidates_ok_nil (now : Nat) (users : List (Nat × Nat)) : CandOK now users (candidates now users []) := by
  have := candidates_ok now users [] [] ⟨List.nodup_nil, by simp, by simp, by simp⟩
  simpa using this

/-! ### the invariant that ties slots to the recorded history -/

/-- every non-empty slot of every entry was recorded for exactly that entry's key -/
def Inv (ops : List (Nat × Nat × Nat)) (b : Bucket) : Prop :=
  ∀ e, some e ∈ b → e.users.length = nSlots ∧ ∀ s ∈ e.users, s.1 ≠ 0 → (e.key, s.1, s.2) ∈ ops

theorem inv_empty : Inv [] empty := by
  intro e he
  simp [empty, List.mem_replicate] at he

theorem inv_mono (ops : List (Nat × Nat × Nat)) (op : Nat × Nat × Nat) (b : Bucket) (h : Inv ops b) :
    Inv (ops ++ [op]) b := by
  intro e he
  obtain ⟨h1, h2⟩ := h e he
  exact ⟨h1, fun s hs hne => List.mem_append.mpr (Or.inl (h2 s hs hne))⟩

theorem inv_record (ops : List (Nat × Nat × Nat)) (b : Bucket) (key id now : Nat) (h : Inv ops b) :
    Inv (ops ++ [(key, id, now)]) (record b key id now) := by
  have hm := inv_mono ops (key, id, now) b h
  unfold record
  split
  · exact hm
  · rename_i hid
    split
    · rename_i i hfi
      obtain ⟨w, hw, hkey⟩ := firstIdx_some _ _ _ hfi
      split
      · rename_i e hbe
        rw [hw] at hbe
        simp only [Option.some.injEq] at hbe
        subst hbe
        have hmem : some e ∈ b := List.mem_of_getElem? hw
        have hek : e.key = key := by simpa [isKey] using hkey
        obtain ⟨hl, hs⟩ := hm e hmem
        intro e' he'
        rcases mem_set _ _ _ _ he' with hin | heq
        · exact hm e' hin
        · simp only [Option.some.injEq] at heq
          subst heq
          refine ⟨by simp [recordUser, hl], ?_⟩
          intro s hs' hne
          rcases mem_set _ _ _ _ hs' with h1 | h2
          · exact hs s h1 hne
          · subst h2
            simp only [hek]
            exact List.mem_append.mpr (Or.inr (List.mem_singleton.mpr rfl))
      · exact hm
    · intro e' he'
      rcases mem_set _ _ _ _ he' with hin | heq
      · exact hm e' hin
      · simp only [Option.some.injEq] at heq
        subst heq
        refine ⟨by simp [freshEntry, nSlots], ?_⟩
        intro s hs' hne
        simp only [freshEntry, List.mem_cons, List.mem_replicate] at hs'
        rcases hs' with h1 | ⟨_, h2⟩
        · subst h1
          exact List.mem_append.mpr (Or.inr (List.mem_singleton.mpr rfl))
        · subst h2; simp at hne

theorem inv_foldl (ops pre : List (Nat × Nat × Nat)) (b : Bucket) (h : Inv pre b) :
    Inv (pre ++ ops) (ops.foldl (fun b op => record b op.1 op.2.1 op.2.2) b) := by
  induction ops generalizing pre b with
  | nil => simpa using h
  | cons op rest ih =>
    simp only [List.foldl_cons]
    have := ih (pre ++ [op]) _ (inv_record pre b op.1 op.2.1 op.2.2 h)
    simpa [List.append_assoc] using this

theorem inv_run (ops : List (Nat × Nat × Nat)) : Inv ops (run ops) := by
  have := inv_foldl ops [] empty inv_empty
  simpa [run] using this

end Mieru.SrcCache
