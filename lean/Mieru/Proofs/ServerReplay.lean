import Mieru.Model.ServerReplay
import Mieru.Proofs.Server
import Mieru.Proofs.Replay
/-!
# Lemmas about the composition of the replay cache with the first-contact model (Props/C06)
-/
namespace Mieru.Proofs.ServerReplay
open Mieru.Server Mieru.Replay Mieru.ServerReplay Mieru.Proofs.Server Mieru.Proofs.Replay

/-- A fresh underlay whose first read is complete but is not a valid open request: the loop ends at
    once, nothing written, nothing created. -/
theorem tcpStep_fresh_invalid (u : TcpUnit) (hav : firstReadLen ≤ u.avail) (hv : u.validOpen = false) :
    Quiet (tcpStep {} u) ∧ (tcpStep {} u).closed = true := by
  refine ⟨tcpStep_quiet {} u quiet_init hv, ?_⟩
  have hnl : ¬ u.avail < firstReadLen := Nat.not_lt.mpr hav
  unfold tcpStep
  simp only [Bool.false_eq_true, if_false, headerLen, Option.isNone_none, if_true, hnl]
  cases hop : u.opens with
  | none => rfl
  | some usr =>
    simp only
    cases hd : u.dup with
    | true => rfl
    | false =>
      simp only [Bool.false_eq_true, if_false]
      unfold tcpAfterOpen
      by_cases c1 : unmarshalOk u.md = true
      · by_cases c2 : u.bodyAvail < tcpBodyNeed u.md
        · simp [c1, c2]
        · by_cases c3 : (decide (u.md.payloadLen > 0) && !u.payloadOpens) = true
          · simp [c1, c2, c3]
          · by_cases c4 : validNewSession u.md.proto u.md.sid = true
            · exfalso
              have hb : tcpBodyNeed u.md ≤ u.bodyAvail := Nat.le_of_not_lt c2
              have hp : (u.md.payloadLen == 0 || u.payloadOpens) = true := by
                cases hpo : u.payloadOpens
                · simp [hpo] at c3 ⊢; omega
                · simp
              simp [TcpUnit.validOpen, hav, hop, hd, c1, hb, hp, c4] at hv
            · simp [c1, c2, c3, c4]
      · simp [c1]

/-- whatever follows on that connection is never looked at -/
theorem tcp_fresh_invalid_run (u : TcpUnit) (rest : List TcpUnit) (hav : firstReadLen ≤ u.avail)
    (hv : u.validOpen = false) :
    (tcpRun (tcpStep {} u) rest).out = [] ∧ (tcpRun (tcpStep {} u) rest).sessions = [] ∧
    (tcpRun (tcpStep {} u) rest).accepted = [] ∧ (tcpRun (tcpStep {} u) rest).closed = true := by
  obtain ⟨⟨h1, h2, h3, _⟩, hc⟩ := tcpStep_fresh_invalid u hav hv
  rw [tcpRun_closed _ rest hc]
  exact ⟨h1, h2, h3, hc⟩

theorem validOpen_dup (u : TcpUnit) : ({ u with dup := true } : TcpUnit).validOpen = false := by
  simp [TcpUnit.validOpen]

theorem validOpen_tsBad (u : TcpUnit) (d : Bool) (h : u.md.tsOk = false) :
    ({ u with dup := d } : TcpUnit).validOpen = false := by
  have : unmarshalOk u.md = false := by
    unfold unmarshalOk; split
    · simp [h]
    · split
      · simp [h]
      · rfl
  simp [TcpUnit.validOpen, this]

theorem consult_eq_step (c : Cache) (h : 0 < c.cap) (e : Sig) (tag : Tag) (now : Nat) :
    consult c e tag now = step c e tag now := by
  unfold consult; simp [Nat.ne_of_gt h]

/-- the composed connection is silent as soon as the cache reports its first 16 bytes -/
theorem tcpConnection_dup (c : Cache) (e : Sig) (now : Nat) (u : TcpUnit) (rest : List TcpUnit)
    (hav : firstReadLen ≤ u.avail) (hd : (consult c e emptyTag now).2 = true) :
    (tcpConnection c e now u rest).2.out = [] ∧ (tcpConnection c e now u rest).2.sessions = [] ∧
    (tcpConnection c e now u rest).2.accepted = [] ∧ (tcpConnection c e now u rest).2.closed = true := by
  have hnl : ¬ u.avail < firstReadLen := Nat.not_lt.mpr hav
  simp only [tcpConnection, tcpFirstContact, hnl, if_false, hd]
  exact tcp_fresh_invalid_run _ rest hav (validOpen_dup u)

/-- … and whatever the cache says when the copy's timestamp is no longer acceptable -/
theorem tcpConnection_tsBad (c : Cache) (e : Sig) (now : Nat) (u : TcpUnit) (rest : List TcpUnit)
    (hav : firstReadLen ≤ u.avail) (hts : u.md.tsOk = false) :
    (tcpConnection c e now u rest).2.out = [] ∧ (tcpConnection c e now u rest).2.sessions = [] ∧
    (tcpConnection c e now u rest).2.accepted = [] ∧ (tcpConnection c e now u rest).2.closed = true := by
  have hnl : ¬ u.avail < firstReadLen := Nat.not_lt.mpr hav
  simp only [tcpConnection, tcpFirstContact, hnl, if_false]
  exact tcp_fresh_invalid_run _ rest hav (validOpen_tsBad u _ hts)

theorem udpContact_dup (c : Cache) (e : Sig) (src : Tag) (now : Nat) (s : UdpSt) (u : UdpUnit)
    (hd : (consult c e src now).2 = true) : (udpContact c e src now s u).2 = s := by
  unfold udpContact
  split
  · rfl
  · simp only [hd]
    apply udpStep_not_effective
    simp [UdpUnit.effective]

theorem udpContact_tsBad (c : Cache) (e : Sig) (src : Tag) (now : Nat) (s : UdpSt) (u : UdpUnit)
    (hts : u.md.tsOk = false) : (udpContact c e src now s u).2 = s := by
  unfold udpContact
  split
  · rfl
  · apply udpStep_not_effective
    have : unmarshalOk u.md = false := by
      unfold unmarshalOk; split
      · simp [hts]
      · split
        · simp [hts]
        · rfl
    simp [UdpUnit.effective, this]

theorem unmarshalOk_tsOk (m : Md) (h : unmarshalOk m = true) : m.tsOk = true := by
  unfold unmarshalOk at h
  split at h
  · simp at h; exact h.1
  · split at h
    · simp at h; exact h.1
    · exact absurd h (by decide)

/-- a first segment that was accepted carried its whole header, had an acceptable timestamp, and was
    recorded in the cache by the very consultation that let it pass -/
theorem tcpFirstContact_accepted (c : Cache) (e : Sig) (now : Nat) (u : TcpUnit)
    (h : (tcpFirstContact c e now u).2.accepted ≠ []) :
    firstReadLen ≤ u.avail ∧ u.md.tsOk = true ∧
    (tcpFirstContact c e now u).1 = (consult c e emptyTag now).1 ∧ (consult c e emptyTag now).2 = false := by
  unfold tcpFirstContact at h ⊢
  by_cases ha : u.avail < firstReadLen
  · exfalso
    simp only [ha, if_true] at h
    have hv : u.validOpen = false := by simp [TcpUnit.validOpen, Nat.not_le.mpr ha]
    exact h (tcpStep_quiet {} u quiet_init hv).2.2.1
  · simp only [ha, if_false] at h ⊢
    cases hv : ({ u with dup := (consult c e emptyTag now).2 } : TcpUnit).validOpen with
    | false => exact absurd (tcpStep_quiet {} _ quiet_init hv).2.2.1 h
    | true =>
      simp only [TcpUnit.validOpen, Bool.and_eq_true, decide_eq_true_eq, Bool.not_eq_true'] at hv
      obtain ⟨⟨⟨⟨⟨⟨_, _⟩, hdup⟩, hum⟩, _⟩, _⟩, _⟩ := hv
      exact ⟨Nat.le_of_not_lt ha, unmarshalOk_tsOk _ hum, trivial, hdup⟩

/-- a datagram that changed the state of the shared socket was long enough, had an acceptable
    timestamp, and was recorded by the consultation that let it pass -/
theorem udpContact_effective (c : Cache) (e : Sig) (src : Tag) (now : Nat) (s : UdpSt) (u : UdpUnit)
    (h : (udpContact c e src now s u).2 ≠ s) :
    packetHeaderLen ≤ u.len ∧ u.md.tsOk = true ∧
    (udpContact c e src now s u).1 = (consult c e src now).1 ∧ (consult c e src now).2 = false := by
  unfold udpContact at h ⊢
  by_cases ha : u.len < packetHeaderLen
  · simp [ha] at h
  · simp only [ha, if_false] at h ⊢
    cases hv : ({ u with dupOther := (consult c e src now).2 } : UdpUnit).effective with
    | false => exact absurd (udpStep_not_effective s _ hv) h
    | true =>
      simp only [UdpUnit.effective, Bool.and_eq_true, decide_eq_true_eq, Bool.not_eq_true'] at hv
      obtain ⟨⟨⟨⟨⟨_, _⟩, hdup⟩, hum⟩, _⟩, _⟩ := hv
      exact ⟨Nat.le_of_not_lt ha, unmarshalOk_tsOk _ hum, trivial, hdup⟩

end Mieru.Proofs.ServerReplay
