import Mieru.Model.Session
/-!
# Structural lemmas about the server branch of `readOneSegment` (used by Props/C07.lean)

Nothing here looks inside `discover`: the lemmas say where the fields of a newly created session come
from (an existing carrier — a live session on UDP, the established connection on TCP — or the
result of `discover` on the published generation).  Props/C07.lean composes them with the
`tryState` theorems.
-/
set_option linter.unusedSimpArgs false
set_option linter.unusedVariables false
namespace Mieru.Session
open Mieru.Discovery

/-! ### generations -/

theorem current_eq_getElem (gens : List Gen) (h : gens ≠ []) :
    gens[gens.length - 1]? = some (current gens) := by
  unfold current
  rw [List.getLast?_eq_getElem?]
  cases hg : gens[gens.length - 1]? with
  | none =>
    have := List.getElem?_eq_none_iff.mp hg
    have hl : 0 < gens.length := List.length_pos_iff.mpr h
    omega
  | some g => rfl

theorem gens_ne_nil_of_mem_current (gens : List Gen) (u : User) (h : u ∈ current gens) : gens ≠ [] := by
  intro hn
  subst hn
  simp [current] at h

theorem getElem?_append_some {α} (l m : List α) (i : Nat) (x : α) (h : l[i]? = some x) :
    (l ++ m)[i]? = some x := by
  have hi : i < l.length := by
    rcases Nat.lt_or_ge i l.length with hc | hc
    · exact hc
    · have := List.getElem?_eq_none_iff.mpr hc
      rw [this] at h; cases h
  rw [List.getElem?_append_left hi]; exact h

/-! ### users of a generation -/

theorem userAt_some (g : Gen) (id : Nat) (u : User) (h : userAt g id = some u) :
    1 ≤ id ∧ id ≤ g.length ∧ g[id - 1]? = some u ∧ u ∈ g := by
  unfold userAt at h
  split at h
  · cases h
  · rename_i h0
    have hlt : id - 1 < g.length := by
      rcases Nat.lt_or_ge (id - 1) g.length with hc | hc
      · exact hc
      · rw [List.getElem?_eq_none_iff.mpr hc] at h; cases h
    exact ⟨by omega, by omega, h, List.mem_of_getElem? h⟩

theorem userAt_of_mem (g : Gen) (u : User) (h : u ∈ g) :
    ∃ id, 1 ≤ id ∧ id ≤ g.length ∧ userAt g id = some u := by
  obtain ⟨i, hi, he⟩ := List.getElem_of_mem h
  refine ⟨i + 1, by omega, by omega, ?_⟩
  unfold userAt
  simp only [Nat.add_one_ne_zero, if_false, Nat.add_sub_cancel]
  rw [List.getElem?_eq_getElem hi, he]

theorem userAt_valid (g : Gen) (id : Nat) (h1 : 1 ≤ id) (h2 : id ≤ g.length) :
    ∃ u, userAt g id = some u := by
  unfold userAt
  have h0 : id ≠ 0 := by omega
  simp only [h0, if_false]
  have hlt : id - 1 < g.length := by omega
  exact ⟨g[id - 1], List.getElem?_eq_getElem hlt⟩

theorem authOf_true (g : Gen) (s : Seg) (id : Nat) :
    authOf g s id = true ↔ ∃ u, userAt g id = some u ∧ s.key = some u.cred := by
  unfold authOf
  cases h : userAt g id with
  | none => simp
  | some u => simp

theorem hintOf_true (g : Gen) (s : Seg) (id : Nat) :
    hintOf g s id = true ↔ ∃ u, userAt g id = some u ∧ u.name ∈ s.hinted := by
  unfold hintOf
  cases h : userAt g id with
  | none => simp
  | some u => simp

/-- `discover` looks at the generation, the mode and — of the segment — only at the seal key, the
    hint and the cached ids -/
theorem discover_congr (g : Gen) (m : Bool) (s s' : Seg) (hk : s'.key = s.key) (hh : s'.hinted = s.hinted)
    (hc : s'.cached = s.cached) : discover g m s' = discover g m s := by
  have h1 : hintOf g s' = hintOf g s := by funext id; simp [hintOf, hh]
  have h2 : authOf g s' = authOf g s := by funext id; simp [authOf, hk]
  unfold discover
  rw [h1, h2, hc]

theorem discover_eq_bind (g : Gen) (m : Bool) (s : Seg) :
    discover g m s =
      ((tryState g.length (hintOf g s) (authOf g s) s.cached m).user.map (·.1)).bind (userAt g) := by
  unfold discover
  cases h : (tryState g.length (hintOf g s) (authOf g s) s.cached m).user with
  | none => rfl
  | some p => rfl

theorem lookup_mem {β} (l : List (Nat × β)) (a : Nat) (v : β) (h : l.lookup a = some v) : (a, v) ∈ l := by
  induction l with
  | nil => simp [List.lookup] at h
  | cons p t ih =>
    obtain ⟨a', v'⟩ := p
    unfold List.lookup at h
    by_cases he : a = a'
    · subst he
      simp only [beq_self_eq_true] at h
      cases h
      exact List.mem_cons_self
    · have : (a == a') = false := by simpa using he
      simp only [this] at h
      exact List.mem_cons_of_mem _ (ih h)

/-! ### the attribution invariant -/

/-- (cipher key, user name) is a user of generation number `gen` -/
def Attributed (gens : List Gen) (key user gen : Nat) : Prop :=
  ∃ g, gens[gen]? = some g ∧ ∃ u ∈ g, u.name = user ∧ u.cred = key

theorem Attributed.mono {gens : List Gen} {k u g : Nat} (h : Attributed gens k u g) (m : List Gen) :
    Attributed (gens ++ m) k u g := by
  obtain ⟨gg, h1, h2⟩ := h
  exact ⟨gg, getElem?_append_some _ _ _ _ h1, h2⟩

/-- every live UDP session is attributed to a user of a generation that was published, with the
    credential whose key its cipher holds -/
def UInv (st : UServer) : Prop := ∀ x ∈ st.sessions, Attributed st.gens x.key x.user x.gen

/-- the same for TCP sessions and for established connections -/
def TInv (st : TServer) : Prop :=
  (∀ x ∈ st.sessions, Attributed st.gens x.key x.user x.gen) ∧
  (∀ a k u g, (a, CState.est k u g) ∈ st.conns → Attributed st.gens k u g)

/-! ### the existing-session match -/

theorem mem_matching (ss : List Sess) (s : Seg) (x : Sess) :
    x ∈ matching ss s ↔ x ∈ ss ∧ x.addr = s.addr ∧ s.key = some x.key := by
  simp [matching]

theorem pickOne_mem (l : List Sess) (p : Nat) (x : Sess) (h : pickOne l p = some x) : x ∈ l := by
  unfold pickOne at h
  split at h
  · cases h
  · exact List.mem_of_getElem? h

theorem pickOne_none (l : List Sess) (p : Nat) (h : pickOne l p = none) : l = [] := by
  unfold pickOne at h
  split at h
  · rename_i he; simpa using he
  · rename_i he
    have hl : 0 < l.length := by
      cases l with
      | nil => simp at he
      | cons a t => simp
    have : p % l.length < l.length := Nat.mod_lt _ hl
    rw [List.getElem?_eq_none_iff] at h
    omega

theorem pickOne_nil (p : Nat) : pickOne [] p = none := by simp [pickOne]

/-! ### UDP: what an accepted session is made of -/

/-- where the new session's cipher key, user and generation come from -/
inductive UOrigin (st : UServer) (s : Seg) (k name gi : Nat) : Bool → Prop
  | existing (x : Sess) (hx : x ∈ st.sessions) (ha : x.addr = s.addr) (hk : s.key = some x.key)
      (e1 : x.key = k) (e2 : x.user = name) (e3 : x.gen = gi) : UOrigin st s k name gi false
  | discovered (hno : matching st.sessions s = []) (u : User)
      (hd : discover (current st.gens) st.mandatory s = some u)
      (e1 : u.cred = k) (e2 : u.name = name) (e3 : gi = st.gens.length - 1) : UOrigin st s k name gi true

theorem uOpen_accepted (st st' : UServer) (s : Seg) (k u g : Nat) (v : Bool) (name gi : Nat) (via : Bool)
    (h : uOpen st s k u g v = (st', .accepted name gi via)) :
    st' = { st with sessions := st.sessions ++ [⟨s.sid, s.addr, k, u, g, v⟩] } ∧ s.sid ≠ 0 ∧
      (∀ x ∈ st.sessions, x.sid ≠ s.sid) ∧ u = name ∧ g = gi ∧ v = via := by
  unfold uOpen at h
  split at h
  · simp at h
  · rename_i h0
    split at h
    · simp at h
    · rename_i hany
      simp only [Prod.mk.injEq, Out.accepted.injEq] at h
      obtain ⟨h1, h2, h3, h4⟩ := h
      refine ⟨h1.symm, h0, ?_, h2, h3, h4⟩
      intro x hx hs
      apply hany
      exact List.any_eq_true.mpr ⟨x, hx, by simp [hs]⟩

theorem uOpen_other (st st' : UServer) (s : Seg) (k u g : Nat) (v : Bool) (o : Out)
    (h : uOpen st s k u g v = (st', o)) (hno : ∀ n gi via, o ≠ .accepted n gi via) : st' = st := by
  unfold uOpen at h
  split at h
  · simp only [Prod.mk.injEq] at h; exact h.1.symm
  · split at h
    · simp only [Prod.mk.injEq] at h; exact h.1.symm
    · simp only [Prod.mk.injEq] at h
      exact absurd h.2.symm (hno _ _ _)

/-- an accepted UDP session: appended to the table, and its cipher key / user / generation are those
    of a live session from the same ip:port whose cipher opens the segment, or — only if no such
    session exists — of the user `Registry.Discover` returns on the published generation -/
theorem udpSeg_accepted (st st' : UServer) (s : Seg) (name gi : Nat) (via : Bool)
    (h : udpSeg st s = (st', .accepted name gi via)) :
    ∃ k, st' = { st with sessions := st.sessions ++ [⟨s.sid, s.addr, k, name, gi, via⟩] } ∧
      s.openReq = true ∧ s.sid ≠ 0 ∧ (∀ x ∈ st.sessions, x.sid ≠ s.sid) ∧ UOrigin st s k name gi via := by
  unfold udpSeg at h
  split at h
  · rename_i x hp
    have hx := (mem_matching _ _ _).mp (pickOne_mem _ _ _ hp)
    split at h
    · rename_i ho
      obtain ⟨e, h0, hfresh, e2, e3, e4⟩ := uOpen_accepted _ _ _ _ _ _ _ _ _ _ h
      subst e2 e3 e4
      exact ⟨x.key, e, ho, h0, hfresh, .existing x hx.1 hx.2.1 hx.2.2 rfl rfl rfl⟩
    · simp at h
  · rename_i hp
    have hno := pickOne_none _ _ hp
    split at h
    · rename_i u hd
      split at h
      · rename_i ho
        obtain ⟨e, h0, hfresh, e2, e3, e4⟩ := uOpen_accepted _ _ _ _ _ _ _ _ _ _ h
        subst e2 e3 e4
        exact ⟨u.cred, e, ho, h0, hfresh, .discovered hno u hd rfl rfl rfl⟩
      · simp at h
    · simp at h

theorem udpSeg_other (st st' : UServer) (s : Seg) (o : Out)
    (h : udpSeg st s = (st', o)) (hno : ∀ n gi via, o ≠ .accepted n gi via) : st' = st := by
  unfold udpSeg at h
  split at h
  · split at h
    · exact uOpen_other _ _ _ _ _ _ _ _ h hno
    · simp only [Prod.mk.injEq] at h; exact h.1.symm
  · split at h
    · split at h
      · exact uOpen_other _ _ _ _ _ _ _ _ h hno
      · simp only [Prod.mk.injEq] at h; exact h.1.symm
    · simp only [Prod.mk.injEq] at h; exact h.1.symm

/-- the registry is consulted only when no live session from that ip:port opens the segment -/
theorem udpSeg_no_match (st : UServer) (s : Seg) (h : matching st.sessions s = []) :
    udpSeg st s =
      match discover (current st.gens) st.mandatory s with
      | some u =>
        if s.openReq then uOpen st s u.cred u.name (st.gens.length - 1) true else (st, .passed u.name)
      | none => (st, .dropped) := by
  unfold udpSeg
  rw [h, pickOne_nil]
  rfl

/-- `gens` only grows and never changes under a step -/
theorem udpStep_gens (st : UServer) (e : Ev) :
    ∃ m, (udpStep st e).1.gens = st.gens ++ m ∧ (udpStep st e).1.mandatory = st.mandatory := by
  cases e with
  | reload g => exact ⟨[g], rfl, rfl⟩
  | gone a sid => exact ⟨[], by simp [udpStep], rfl⟩
  | connClosed a => exact ⟨[], by simp [udpStep], rfl⟩
  | seg s =>
    refine ⟨[], ?_, ?_⟩
    · simp only [udpStep, List.append_nil]
      cases ho : udpSeg st s with
      | mk st' o =>
        by_cases hacc : ∃ n gi via, o = .accepted n gi via
        · obtain ⟨n, gi, via, rfl⟩ := hacc
          obtain ⟨k, e, _⟩ := udpSeg_accepted _ _ _ _ _ _ ho
          rw [e]
        · have := udpSeg_other _ _ _ _ ho (fun n gi via hc => hacc ⟨n, gi, via, hc⟩)
          rw [this]
    · simp only [udpStep]
      cases ho : udpSeg st s with
      | mk st' o =>
        by_cases hacc : ∃ n gi via, o = .accepted n gi via
        · obtain ⟨n, gi, via, rfl⟩ := hacc
          obtain ⟨k, e, _⟩ := udpSeg_accepted _ _ _ _ _ _ ho
          rw [e]
        · have := udpSeg_other _ _ _ _ ho (fun n gi via hc => hacc ⟨n, gi, via, hc⟩)
          rw [this]

/-- every session after a step was there before, or is the one the step accepted -/
theorem udpStep_sessions (st : UServer) (e : Ev) (y : Sess) (hy : y ∈ (udpStep st e).1.sessions) :
    y ∈ st.sessions ∨
      ∃ s name gi via k, e = .seg s ∧ (udpSeg st s).2 = .accepted name gi via ∧
        y = ⟨s.sid, s.addr, k, name, gi, via⟩ ∧ UOrigin st s k name gi via := by
  cases e with
  | reload g => exact Or.inl hy
  | gone a sid =>
    simp only [udpStep, List.mem_filter] at hy
    exact Or.inl hy.1
  | connClosed a => exact Or.inl hy
  | seg s =>
    simp only [udpStep] at hy ⊢
    cases ho : udpSeg st s with
    | mk st' o =>
      rw [ho] at hy
      by_cases hacc : ∃ n gi via, o = .accepted n gi via
      · obtain ⟨n, gi, via, rfl⟩ := hacc
        obtain ⟨k, e, _, _, _, horg⟩ := udpSeg_accepted _ _ _ _ _ _ ho
        simp only [e, List.mem_append, List.mem_singleton] at hy
        rcases hy with hy | hy
        · exact Or.inl hy
        · exact Or.inr ⟨s, n, gi, via, k, rfl, by rw [ho], hy, horg⟩
      · have := udpSeg_other _ _ _ _ ho (fun n gi via hc => hacc ⟨n, gi, via, hc⟩)
        simp only [this] at hy
        exact Or.inl hy

/-! ### TCP -/

/-- where the new session's cipher key, user and generation come from -/
inductive TOrigin (st : TServer) (s : Seg) (k name gi : Nat) : Bool → Prop
  | established (hc : st.conns.lookup s.addr = some (.est k name gi)) (hk : s.key = some k) :
      TOrigin st s k name gi false
  | discovered (hno : st.conns.lookup s.addr = none) (u : User)
      (hd : discover (current st.gens) st.mandatory s = some u)
      (e1 : u.cred = k) (e2 : u.name = name) (e3 : gi = st.gens.length - 1) : TOrigin st s k name gi true

/-- what a step may do to the state: `gens`/`mandatory` untouched; every session was there before or
    is the accepted one; every established connection was there before or is the one the accepted
    first segment established -/
structure TFrame (st : TServer) (s : Seg) (r : TServer × Out) : Prop where
  gens : r.1.gens = st.gens
  mandatory : r.1.mandatory = st.mandatory
  sessions : ∀ y ∈ r.1.sessions, y ∈ st.sessions ∨
    ∃ name gi via k, r.2 = .accepted name gi via ∧ y = ⟨s.sid, s.addr, k, name, gi, via⟩ ∧
      s.openReq = true ∧ s.sid ≠ 0 ∧ TOrigin st s k name gi via
  conns : ∀ a k u g, (a, CState.est k u g) ∈ r.1.conns → (a, CState.est k u g) ∈ st.conns ∨
    (a = s.addr ∧ r.2 = .accepted u g true ∧ TOrigin st s k u g true)
  accepted : ∀ name gi via, r.2 = .accepted name gi via →
    ∃ k, (⟨s.sid, s.addr, k, name, gi, via⟩ : Sess) ∈ r.1.sessions ∧ s.openReq = true ∧ s.sid ≠ 0 ∧
      TOrigin st s k name gi via

theorem tFrame_same (st : TServer) (s : Seg) (o : Out) (ho : ∀ n g v, o ≠ .accepted n g v) :
    TFrame st s (st, o) :=
  ⟨rfl, rfl, fun _ h => Or.inl h, fun _ _ _ _ h => Or.inl h, fun n g v h => absurd h (ho n g v)⟩

theorem tFrame_kill (st : TServer) (s : Seg) (a : Nat) : TFrame st s (tKill st a) := by
  refine ⟨rfl, rfl, ?_, ?_, ?_⟩
  · intro y hy; simp only [tKill, List.mem_filter] at hy; exact Or.inl hy.1
  · intro a' k u g hin
    simp only [tKill, List.mem_cons, Prod.mk.injEq, reduceCtorEq, and_false, false_or] at hin
    exact Or.inl hin
  · intro n g v h; simp [tKill] at h

theorem tcpSeg_frame (st : TServer) (s : Seg) : TFrame st s (tcpSeg st s) := by
  unfold tcpSeg
  split
  · exact tFrame_same _ _ _ (by simp)
  · rename_i k u g hc
    split
    · rename_i hk
      split
      · rename_i ho
        split
        · exact tFrame_kill _ _ _
        · rename_i h0
          unfold tOpen
          split
          · exact tFrame_same _ _ _ (by simp)
          · refine ⟨rfl, rfl, ?_, fun _ _ _ _ h => Or.inl h, ?_⟩
            · intro y hy
              simp only [List.mem_append, List.mem_singleton] at hy
              rcases hy with hy | hy
              · exact Or.inl hy
              · exact Or.inr ⟨u, g, false, k, rfl, hy, ho, h0, .established hc hk⟩
            · intro n gi v h
              simp only [Out.accepted.injEq] at h
              obtain ⟨rfl, rfl, rfl⟩ := h
              exact ⟨k, by simp, ho, h0, .established hc hk⟩
      · exact tFrame_same _ _ _ (by simp)
    · exact tFrame_kill _ _ _
  · rename_i hc
    split
    · rename_i u hd
      split
      · rename_i ho
        have ho1 : s.openReq = true := ho.1
        refine ⟨rfl, rfl, ?_, ?_, ?_⟩
        · intro y hy
          simp only [List.mem_append, List.mem_singleton] at hy
          rcases hy with hy | hy
          · exact Or.inl hy
          · exact Or.inr ⟨u.name, st.gens.length - 1, true, u.cred, rfl, hy, ho1, ho.2, .discovered hc u hd rfl rfl rfl⟩
        · intro a k u' g hin
          simp only [List.mem_cons, Prod.mk.injEq, CState.est.injEq] at hin
          rcases hin with ⟨rfl, rfl, rfl, rfl⟩ | hin
          · exact Or.inr ⟨rfl, rfl, .discovered hc u hd rfl rfl rfl⟩
          · exact Or.inl hin
        · intro n gi v h
          simp only [Out.accepted.injEq] at h
          obtain ⟨rfl, rfl, rfl⟩ := h
          exact ⟨u.cred, by simp, ho1, ho.2, .discovered hc u hd rfl rfl rfl⟩
      · exact tFrame_kill _ _ _
    · exact tFrame_kill _ _ _

end Mieru.Session
