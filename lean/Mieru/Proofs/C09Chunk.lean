import Mieru.Proofs.C09
/-!
# Chunking independence of the reference stream receiver (`Mieru.Spec.feed`)

`feed` appends the new bytes to the buffer and drains every complete segment.  However the
network cuts the byte stream, the receiver ends in the same state: `feed (feed r a) b = feed r (a ++ b)`
for EVERY receiver state `r` and every `a`, `b` — no hypothesis about the AEAD, the bytes or the keys.

The proof rests on two facts about `parseOne`: a verdict (`ok` / `bad`) depends only on the bytes
it has looked at, so it is unchanged when more bytes are appended; and an `ok` consumes at least
48 bytes, so the fuel `buf.length / 48 + 1` that `feed` gives `drain` is always enough.
-/
namespace Mieru.Spec
open Mieru

/-- the receiver with `x` appended to its buffer -/
def Rx.push (r : Rx) (x : Bytes) : Rx := ⟨r.cands, r.key, r.nonce, r.buf ++ x, r.out, r.dead⟩

theorem feed_eq (A : AeadFns) (r : Rx) (bs : Bytes) :
    feed A r bs = drain A ((r.buf ++ bs).length / 48 + 1) (r.push bs) := rfl

/-- `parseOne` with the three things it derives from the receiver state made parameters: the length
    of the clear-text header (24 before the first segment, else 0), the nonce of the metadata, and
    the key selection applied to the encrypted metadata. -/
def parseCore (A : AeadFns) (hdr : Nat) (nonce : Bytes) (selF : Bytes → Option (Bytes × Bytes)) (buf : Bytes) : Parse :=
  if buf.length < hdr + 48 then .need else
  match selF ((buf.drop hdr).take 48) with
  | none => .bad .auth
  | some (k, mb) =>
    match parseMeta mb with
    | .error e => .bad e
    | .ok md =>
      if md.payloadLen = 0 then
        if buf.length < hdr + 48 + md.prefixLen + md.suffixLen then .need
        else .ok k md [] (hdr + 48 + md.prefixLen + md.suffixLen) (incr nonce)
      else
        if buf.length < hdr + 48 + md.prefixLen + (md.payloadLen + 16) + md.suffixLen then .need else
        match openBody A k (incr nonce) md ((buf.drop (hdr + 48 + md.prefixLen)).take (md.payloadLen + 16)) with
        | .error e => .bad e
        | .ok p => .ok k md p (hdr + 48 + md.prefixLen + (md.payloadLen + 16) + md.suffixLen) (incr (incr nonce))

def selOf (A : AeadFns) (r : Rx) (nonce : Bytes) (mct : Bytes) : Option (Bytes × Bytes) :=
  match r.key with
  | some k => (A.openF k nonce mct).map fun mb => (k, mb)
  | none => selectKey A nonce mct r.cands

theorem parseOne_core (A : AeadFns) (r : Rx) :
    parseOne A r = parseCore A (if r.key.isNone then 24 else 0) (if r.key.isNone then r.buf.take 24 else r.nonce)
      (selOf A r (if r.key.isNone then r.buf.take 24 else r.nonce)) r.buf := rfl

theorem parseCore_ok_bounds (A : AeadFns) (hdr : Nat) (nonce : Bytes) (selF : Bytes → Option (Bytes × Bytes))
    (buf k : Bytes) (md : Meta) (p : Bytes) (n : Nat) (nn : Bytes)
    (h : parseCore A hdr nonce selF buf = .ok k md p n nn) : 48 ≤ n ∧ n ≤ buf.length := by
  unfold parseCore at h
  split at h
  · cases h
  · split at h
    · cases h
    · split at h
      · cases h
      · split at h
        · split at h
          · cases h
          · cases h; constructor <;> omega
        · split at h
          · cases h
          · split at h
            · cases h
            · cases h; constructor <;> omega

/-- An `ok` verdict consumed between 48 bytes and the whole buffer. -/
theorem parseOne_ok_bounds (A : AeadFns) (r : Rx) (k : Bytes) (md : Meta) (p : Bytes) (n : Nat) (nn : Bytes)
    (h : parseOne A r = .ok k md p n nn) : 48 ≤ n ∧ n ≤ r.buf.length := by
  rw [parseOne_core] at h
  exact parseCore_ok_bounds A _ _ _ _ k md p n nn h

theorem parseCore_push (A : AeadFns) (hdr : Nat) (nonce : Bytes) (selF : Bytes → Option (Bytes × Bytes))
    (buf x : Bytes) :
    (∀ k md p n nn, parseCore A hdr nonce selF buf = .ok k md p n nn →
      parseCore A hdr nonce selF (buf ++ x) = .ok k md p n nn) ∧
    (∀ e, parseCore A hdr nonce selF buf = .bad e → parseCore A hdr nonce selF (buf ++ x) = .bad e) := by
  unfold parseCore
  by_cases h0 : buf.length < hdr + 48
  · simp [h0]
  · have h0' : ¬ (buf ++ x).length < hdr + 48 := by simp only [List.length_append]; omega
    have e2 : ((buf ++ x).drop hdr).take 48 = (buf.drop hdr).take 48 := by
      rw [List.drop_append_of_le_length (by omega), List.take_append_of_le_length (by simp only [List.length_drop]; omega)]
    simp only [h0, h0', if_false, e2]
    cases selF ((buf.drop hdr).take 48) with
    | none => simp
    | some km =>
      obtain ⟨k, mb⟩ := km
      simp only
      cases hpm : parseMeta mb with
      | error e => simp
      | ok md =>
        simp only
        by_cases hz : md.payloadLen = 0
        · simp only [hz, if_true]
          by_cases hl : buf.length < hdr + 48 + md.prefixLen + md.suffixLen
          · simp [hl]
          · have hl' : ¬ (buf ++ x).length < hdr + 48 + md.prefixLen + md.suffixLen := by
              simp only [List.length_append]; omega
            simp only [hl, hl', if_false]
            exact ⟨fun _ _ _ _ _ h => h, fun _ h => h⟩
        · simp only [hz, if_false]
          by_cases hl : buf.length < hdr + 48 + md.prefixLen + (md.payloadLen + 16) + md.suffixLen
          · simp [hl]
          · have hl' : ¬ (buf ++ x).length < hdr + 48 + md.prefixLen + (md.payloadLen + 16) + md.suffixLen := by
              simp only [List.length_append]; omega
            have e3 : ((buf ++ x).drop (hdr + 48 + md.prefixLen)).take (md.payloadLen + 16)
                = (buf.drop (hdr + 48 + md.prefixLen)).take (md.payloadLen + 16) := by
              rw [List.drop_append_of_le_length (by omega),
                List.take_append_of_le_length (by simp only [List.length_drop]; omega)]
            simp only [hl, hl', if_false, e3]
            cases openBody A k (incr nonce) md ((buf.drop (hdr + 48 + md.prefixLen)).take (md.payloadLen + 16)) <;> simp

/-- A verdict does not change when more bytes arrive behind the ones it looked at. -/
theorem parseOne_push (A : AeadFns) (r : Rx) (x : Bytes) :
    (∀ k md p n nn, parseOne A r = .ok k md p n nn → parseOne A (r.push x) = .ok k md p n nn) ∧
    (∀ e, parseOne A r = .bad e → parseOne A (r.push x) = .bad e) := by
  rw [parseOne_core, parseOne_core]
  obtain ⟨cands, key, nonce0, buf, out, dead⟩ := r
  cases key with
  | some k0 =>
    simp only [Rx.push, Option.isNone_some, Bool.false_eq_true, if_false]
    exact parseCore_push A 0 nonce0 _ buf x
  | none =>
    simp only [Rx.push, Option.isNone_none, if_true]
    by_cases h72 : buf.length < 24 + 48
    · constructor
      · intro k md p n nn h; simp [parseCore, h72] at h
      · intro e h; simp [parseCore, h72] at h
    · have e1 : (buf ++ x).take 24 = buf.take 24 := List.take_append_of_le_length (by omega)
      rw [e1]
      exact parseCore_push A 24 (buf.take 24) _ buf x

theorem drain_dead (A : AeadFns) (fuel : Nat) (r : Rx) (h : r.dead.isSome = true) : drain A fuel r = r := by
  cases fuel <;> simp [drain, h]

/-- Fuel beyond `buf.length / 48` is never used. -/
theorem drain_fuel (A : AeadFns) (f : Nat) : ∀ (f' : Nat) (r : Rx), r.buf.length / 48 < f → r.buf.length / 48 < f' →
    drain A f r = drain A f' r := by
  induction f with
  | zero => intro f' r h; omega
  | succ f ih =>
    intro f' r h h'
    cases f' with
    | zero => omega
    | succ f' =>
      simp only [drain]
      split
      · rfl
      · cases hp : parseOne A r with
        | need => rfl
        | bad e => rfl
        | ok k md p n nn =>
          simp only
          obtain ⟨h48, hle⟩ := parseOne_ok_bounds A r k md p n nn hp
          have hlt : (r.buf.drop n).length / 48 + 1 ≤ r.buf.length / 48 := by
            simp only [List.length_drop]
            have : r.buf.length - n + 48 ≤ r.buf.length := by omega
            calc (r.buf.length - n) / 48 + 1 = (r.buf.length - n + 48) / 48 := by omega
              _ ≤ r.buf.length / 48 := Nat.div_le_div_right this
          exact ih f' _ (by simp only; omega) (by simp only; omega)

/-- Draining, then appending `x` and draining again, is draining with `x` appended from the start. -/
theorem drain_push (A : AeadFns) (x : Bytes) (f1 : Nat) : ∀ (f2 f3 : Nat) (r : Rx), r.buf.length / 48 < f1 →
    ((drain A f1 r).buf ++ x).length / 48 < f2 → (r.buf ++ x).length / 48 < f3 →
    drain A f2 ((drain A f1 r).push x) = drain A f3 (r.push x) := by
  induction f1 with
  | zero => intro f2 f3 r h; omega
  | succ f1 ih =>
    intro f2 f3 r h1 h2 h3
    by_cases hd : r.dead.isSome = true
    · rw [drain_dead A _ r hd] at h2 ⊢
      rw [drain_dead A f2 (r.push x) (by simpa [Rx.push] using hd), drain_dead A f3 (r.push x) (by simpa [Rx.push] using hd)]
    · have hdp : ¬ (r.push x).dead.isSome = true := by simpa [Rx.push] using hd
      cases hp : parseOne A r with
      | need =>
        have e : drain A (f1 + 1) r = r := by simp [drain, hd, hp]
        rw [e] at h2 ⊢
        exact drain_fuel A f2 f3 (r.push x) (by simpa [Rx.push] using h2) (by simpa [Rx.push] using h3)
      | bad e =>
        have e1 : drain A (f1 + 1) r = { r with dead := some e } := by simp [drain, hd, hp]
        rw [e1]
        rw [drain_dead A f2 _ (by simp [Rx.push])]
        cases f3 with
        | zero => omega
        | succ f3 =>
          have := (parseOne_push A r x).2 e hp
          have e3 : drain A (f3 + 1) (r.push x) = { r.push x with dead := some e } := by
            simp only [drain, hdp, this, Bool.false_eq_true, if_false]
          rw [e3]; rfl
      | ok k md p n nn =>
        obtain ⟨h48, hle⟩ := parseOne_ok_bounds A r k md p n nn hp
        have e1 : drain A (f1 + 1) r
            = drain A f1 { r with key := some k, nonce := nn, buf := r.buf.drop n, out := r.out ++ [(md, p)] } := by
          simp [drain, hd, hp]
        rw [e1] at h2 ⊢
        cases f3 with
        | zero => omega
        | succ f3 =>
          have hpp := (parseOne_push A r x).1 k md p n nn hp
          have e3 : drain A (f3 + 1) (r.push x)
              = drain A f3 ((⟨r.cands, some k, nn, r.buf.drop n, r.out ++ [(md, p)], r.dead⟩ : Rx).push x) := by
            simp only [drain, hdp, hpp, Bool.false_eq_true, if_false]
            simp only [Rx.push, List.drop_append_of_le_length hle]
          rw [e3]
          have hlt : (r.buf.drop n).length / 48 + 1 ≤ r.buf.length / 48 := by
            simp only [List.length_drop]
            have : r.buf.length - n + 48 ≤ r.buf.length := by omega
            calc (r.buf.length - n) / 48 + 1 = (r.buf.length - n + 48) / 48 := by omega
              _ ≤ r.buf.length / 48 := Nat.div_le_div_right this
          have hlt3 : (r.buf.drop n ++ x).length / 48 + 1 ≤ (r.buf ++ x).length / 48 := by
            simp only [List.length_append, List.length_drop]
            have : r.buf.length - n + x.length + 48 ≤ r.buf.length + x.length := by omega
            calc (r.buf.length - n + x.length) / 48 + 1 = (r.buf.length - n + x.length + 48) / 48 := by omega
              _ ≤ (r.buf.length + x.length) / 48 := Nat.div_le_div_right this
          exact ih f2 f3 _ (by simp only; omega) h2 (by simp only; omega)

/-- **Chunking independence**, two pieces: for every receiver state and every two byte strings. -/
theorem feed_feed (A : AeadFns) (r : Rx) (a b : Bytes) : feed A (feed A r a) b = feed A r (a ++ b) := by
  rw [feed_eq A (feed A r a) b, feed_eq A r (a ++ b), feed_eq A r a]
  have e : r.push (a ++ b) = (r.push a).push b := by simp [Rx.push, List.append_assoc]
  rw [e]
  exact drain_push A b _ _ _ (r.push a) (by simp [Rx.push]) (by omega)
    (by simp only [Rx.push, List.append_assoc]; omega)

/-- a fresh receiver fed nothing is unchanged -/
theorem feed_new_nil (A : AeadFns) (cands : List Bytes) : feed A (Rx.new cands) [] = Rx.new cands := by
  simp [feed, Rx.new, drain, parseOne]

/-- **Chunking independence**, any number of pieces, starting from any state reached by `feed`. -/
theorem foldl_feed (A : AeadFns) (r : Rx) (a : Bytes) (chunks : List Bytes) :
    chunks.foldl (feed A) (feed A r a) = feed A r (a ++ chunks.flatten) := by
  induction chunks generalizing a with
  | nil => simp
  | cons c cs ih => simp only [List.foldl_cons, List.flatten_cons, feed_feed, ih, List.append_assoc]

/-- **Chunking independence** for a fresh receiver: feeding the chunks one after the other is
    feeding their concatenation in one piece. -/
theorem foldl_feed_new (A : AeadFns) (cands : List Bytes) (chunks : List Bytes) :
    chunks.foldl (feed A) (Rx.new cands) = feed A (Rx.new cands) chunks.flatten := by
  have := foldl_feed A (Rx.new cands) [] chunks
  rwa [feed_new_nil, List.nil_append] at this

end Mieru.Spec
