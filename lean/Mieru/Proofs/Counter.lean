import Mieru.Model.Counter
/-!
# Lemmas about the counter model (C19)

* `roll`/`doRollUp`/`rollUp` preserve the sum of the deltas for ARBITRARY histories and instants;
* sub-range sums of non-negative deltas are bounded by the total;
* well-formedness (`WF`: ordered by time, coarser buckets first, aligned) is preserved by every pass
  of `rollUp` and by appending at a time that is not earlier than the last entry.
-/
namespace Mieru.Proofs.Counter
open Mieru.Counter

/-! ## sums -/

theorem sumD_append (a b : List Entry) : sumD (a ++ b) = sumD a + sumD b := by
  induction a with
  | nil => simp [sumD]
  | cons e r ih => simp only [List.cons_append, sumD, ih]; omega

def lastDelta : Option Entry → Int
  | none => 0
  | some l => l.delta

theorem sumD_toList (l : Option Entry) : sumD l.toList = lastDelta l := by
  cases l <;> simp [sumD, lastDelta]

/-- the loop of `doRollUp` moves deltas around but never changes their sum -/
theorem roll_sum (p : Pass) (now : Int) (last : Option Entry) (h : List Entry) :
    sumD (roll p now last h) = lastDelta last + sumD h := by
  induction h generalizing last with
  | nil => simp [roll, sumD_toList, sumD]
  | cons e rest ih =>
    unfold roll
    split
    · rw [sumD_append, sumD_toList]; simp only [sumD]; rw [ih]; simp [lastDelta]
    · cases last with
      | none => simp only [ih, lastDelta, sumD]; omega
      | some l =>
        simp only
        split
        · rw [ih]; simp only [lastDelta, sumD] <;> omega
        · simp only [sumD, ih, lastDelta] <;> omega

theorem doRollUp_sum (p : Pass) (now : Int) (h : List Entry) : sumD (doRollUp p now h) = sumD h := by
  unfold doRollUp; rw [roll_sum]; simp [lastDelta]

theorem rollUpWith_sum (ps : List Pass) (now : Int) (h : List Entry) : sumD (rollUpWith ps now h) = sumD h := by
  unfold rollUpWith
  induction ps generalizing h with
  | nil => rfl
  | cons p rest ih => simp only [List.foldl_cons]; rw [ih, doRollUp_sum]

/-! ## non-negative deltas -/

def NonNeg (h : List Entry) : Prop := ∀ e ∈ h, 0 ≤ e.delta

theorem sumD_nonneg (h : List Entry) (hn : NonNeg h) : 0 ≤ sumD h := by
  induction h with
  | nil => simp [sumD]
  | cons e r ih =>
    have := hn e (by simp)
    have := ih (fun x hx => hn x (by simp [hx]))
    simp only [sumD]; omega

theorem sumD_take_le (h : List Entry) (n : Nat) (hn : NonNeg h) : sumD (h.take n) ≤ sumD h := by
  induction h generalizing n with
  | nil => simp [sumD]
  | cons e r ih =>
    cases n with
    | zero =>
      simp only [List.take_zero, sumD]
      have := sumD_nonneg (e :: r) hn
      simpa [sumD] using this
    | succ k =>
      simp only [List.take_succ_cons, sumD]
      have := ih k (fun x hx => hn x (by simp [hx]))
      omega

theorem sumD_drop_le (h : List Entry) (n : Nat) (hn : NonNeg h) : sumD (h.drop n) ≤ sumD h := by
  induction h generalizing n with
  | nil => simp [sumD]
  | cons e r ih =>
    cases n with
    | zero => simp
    | succ k =>
      simp only [List.drop_succ_cons, sumD]
      have := ih k (fun x hx => hn x (by simp [hx]))
      have := hn e (by simp)
      omega

theorem nonNeg_drop (h : List Entry) (n : Nat) (hn : NonNeg h) : NonNeg (h.drop n) :=
  fun e he => hn e (List.mem_of_mem_drop he)

/-- any contiguous sub-range of a history with non-negative deltas sums to at most the total -/
theorem range_le_total (h : List Entry) (a b : Nat) (hn : NonNeg h) : sumD ((h.drop a).take b) ≤ sumD h :=
  Int.le_trans (sumD_take_le _ b (nonNeg_drop h a hn)) (sumD_drop_le h a hn)

theorem range_nonneg (h : List Entry) (a b : Nat) (hn : NonNeg h) : 0 ≤ sumD ((h.drop a).take b) :=
  sumD_nonneg _ (fun e he => hn e (List.mem_of_mem_drop (List.mem_of_mem_take he)))

/-- the roll-up loop keeps deltas non-negative -/
theorem roll_nonNeg (p : Pass) (now : Int) (last : Option Entry) (h : List Entry)
    (hl : ∀ l, last = some l → 0 ≤ l.delta) (hn : NonNeg h) : NonNeg (roll p now last h) := by
  induction h generalizing last with
  | nil =>
    intro e he
    cases last with
    | none => simp [roll] at he
    | some l => simp [roll] at he; rw [he]; exact hl l rfl
  | cons x rest ih =>
    have hx := hn x (by simp)
    have hrest : NonNeg rest := fun e he => hn e (by simp [he])
    unfold roll
    split
    · intro e he
      rcases List.mem_append.mp he with h1 | h1
      · cases last with
        | none => simp at h1
        | some l => simp at h1; rw [h1]; exact hl l rfl
      · rcases List.mem_cons.mp h1 with rfl | h2
        · exact hx
        · exact ih none (by simp) hrest e h2
    · cases last with
      | none => exact ih _ (by intro l hl'; cases hl'; exact hx) hrest
      | some l =>
        have h0 := hl l rfl
        simp only
        split
        · exact ih _ (by intro l' hl'; cases hl'; simp; omega) hrest
        · intro e he
          rcases List.mem_cons.mp he with rfl | h2
          · exact h0
          · exact ih _ (by intro l' hl'; cases hl'; exact hx) hrest e h2

theorem rollUpWith_nonNeg (ps : List Pass) (now : Int) (h : List Entry) (hn : NonNeg h) :
    NonNeg (rollUpWith ps now h) := by
  unfold rollUpWith
  induction ps generalizing h with
  | nil => exact hn
  | cons p rest ih =>
    simp only [List.foldl_cons]
    exact ih _ (roll_nonNeg p now none h (by simp) hn)

/-! ## truncation -/

theorem truncMs_le (t g : Int) (hg : 0 < g) : truncMs t g ≤ t := by
  unfold truncMs
  have := Int.emod_nonneg t (Int.ne_of_gt hg)
  omega

theorem truncMs_dvd (t g : Int) : g ∣ truncMs t g := by
  unfold truncMs
  have : t - t % g = g * (t / g) := by have := Int.mul_ediv_add_emod t g; omega
  rw [this]; exact Int.dvd_mul_right g (t / g)

/-- a multiple of `g` that is `≤ t` is `≤` the truncation of `t` -/
theorem le_truncMs (a t g : Int) (hg : 0 < g) (hd : g ∣ a) (hle : a ≤ t) : a ≤ truncMs t g := by
  unfold truncMs
  obtain ⟨k, rfl⟩ := hd
  have h1 : t - t % g = g * (t / g) := by have := Int.mul_ediv_add_emod t g; omega
  rw [h1]
  have h2 : k ≤ t / g := by
    have := Int.ediv_le_ediv hg hle
    rwa [Int.mul_ediv_cancel_left k (Int.ne_of_gt hg)] at this
  exact Int.mul_le_mul_of_nonneg_left h2 (Int.le_of_lt hg)

theorem gran_pos (l : Nat) : 0 < gran l := by
  unfold gran; split <;> omega

/-- coarser granularities are multiples of finer ones -/
theorem gran_dvd (a b : Nat) (h : a ≤ b) : gran a ∣ gran b := by
  match a, b with
  | 0, _ => simp [gran]
  | 1, 1 => simp [gran]
  | 1, 2 => exact ⟨60, by simp [gran]⟩
  | 1, 3 => exact ⟨3600, by simp [gran]⟩
  | 1, (_ + 4) => exact ⟨86400, by simp [gran]⟩
  | 2, 2 => simp [gran]
  | 2, 3 => exact ⟨60, by simp [gran]⟩
  | 2, (_ + 4) => exact ⟨1440, by simp [gran]⟩
  | 3, 3 => simp [gran]
  | 3, (_ + 4) => exact ⟨24, by simp [gran]⟩
  | (_ + 4), (_ + 4) => simp [gran]
  | 1, 0 | 2, 0 | 2, 1 | 3, 0 | 3, 1 | 3, 2 | (_ + 4), 0 | (_ + 4), 1 | (_ + 4), 2 | (_ + 4), 3 => omega

/-! ## well-formedness is preserved by a pass -/

/-- a pass `from → to` as `rollUp` issues them: `to` is `from` or the next label, truncation to the
    granularity of `to` -/
def PassOK (p : Pass) : Prop :=
  (p.toL = p.fromL ∨ p.toL = p.fromL + 1) ∧ p.trunc = gran p.toL

def R (a b : Entry) : Prop := a.t ≤ b.t ∧ b.label ≤ a.label

/-- the pending bucket `l` may be emitted before everything that `h` will still produce -/
def Fits (p : Pass) (l : Entry) (h : List Entry) : Prop :=
  l.label = p.toL ∧ gran p.toL ∣ l.t ∧ ∀ e ∈ h, l.t ≤ e.t ∧ e.label ≤ p.toL

/-- where the elements of the output come from -/
theorem mem_roll (p : Pass) (now : Int) (last : Option Entry) (h : List Entry) (x : Entry)
    (hx : x ∈ roll p now last h) :
    (x ∈ h ∧ keep p now x) ∨
    (x.label = p.toL ∧ ∃ e ∈ h, ¬ keep p now e ∧ x.t = truncMs e.t p.trunc) ∨
    (∃ l, last = some l ∧ x.t = l.t ∧ x.label = l.label) := by
  induction h generalizing last with
  | nil =>
    cases last with
    | none => simp [roll] at hx
    | some l => simp [roll] at hx; subst hx; exact Or.inr (Or.inr ⟨x, rfl, rfl, rfl⟩)
  | cons e rest ih =>
    unfold roll at hx
    split at hx
    · rename_i hk
      rcases List.mem_append.mp hx with h1 | h1
      · cases last with
        | none => simp at h1
        | some l => simp at h1; subst h1; exact Or.inr (Or.inr ⟨x, rfl, rfl, rfl⟩)
      · rcases List.mem_cons.mp h1 with rfl | h2
        · exact Or.inl ⟨by simp, hk⟩
        · rcases ih none h2 with ⟨a, b⟩ | ⟨a, e', he', b⟩ | ⟨l, hl, _⟩
          · exact Or.inl ⟨by simp [a], b⟩
          · exact Or.inr (Or.inl ⟨a, e', by simp [he'], b⟩)
          · simp at hl
    · rename_i hk
      have fromNew : ∀ d, (∃ l, some (Entry.mk (truncMs e.t p.trunc) d p.toL) = some l ∧ x.t = l.t ∧ x.label = l.label) →
          (x.label = p.toL ∧ ∃ e' ∈ e :: rest, ¬ keep p now e' ∧ x.t = truncMs e'.t p.trunc) := by
        intro d ⟨l, hl, h1, h2⟩
        cases hl
        exact ⟨h2, e, by simp, hk, h1⟩
      cases last with
      | none =>
        simp only at hx
        rcases ih _ hx with ⟨a, b⟩ | ⟨a, e', he', b⟩ | hl
        · exact Or.inl ⟨by simp [a], b⟩
        · exact Or.inr (Or.inl ⟨a, e', by simp [he'], b⟩)
        · exact Or.inr (Or.inl (fromNew _ hl))
      | some l =>
        simp only at hx
        split at hx
        · rename_i heq
          rcases ih _ hx with ⟨a, b⟩ | ⟨a, e', he', b⟩ | ⟨l', hl', h1, h2⟩
          · exact Or.inl ⟨by simp [a], b⟩
          · exact Or.inr (Or.inl ⟨a, e', by simp [he'], b⟩)
          · cases hl'
            exact Or.inr (Or.inr ⟨l, rfl, h1, h2⟩)
        · rcases List.mem_cons.mp hx with rfl | h2
          · exact Or.inr (Or.inr ⟨x, rfl, rfl, rfl⟩)
          · rcases ih _ h2 with ⟨a, b⟩ | ⟨a, e', he', b⟩ | hl
            · exact Or.inl ⟨by simp [a], b⟩
            · exact Or.inr (Or.inl ⟨a, e', by simp [he'], b⟩)
            · exact Or.inr (Or.inl (fromNew _ hl))

/-- a pending bucket that fits precedes everything the rest of the loop emits -/
theorem fits_R (p : Pass) (hp : PassOK p) (now : Int) (l : Entry) (last : Option Entry) (h : List Entry)
    (hf : Fits p l h) (hlast : ∀ l', last = some l' → l.t ≤ l'.t ∧ l'.label = p.toL)
    (x : Entry) (hx : x ∈ roll p now last h) : R l x := by
  obtain ⟨hl1, hl2, hl3⟩ := hf
  rcases mem_roll p now last h x hx with ⟨a, _⟩ | ⟨a, e, he, _, b⟩ | ⟨l', hl', h1, h2⟩
  · have := hl3 x a
    exact ⟨this.1, by rw [hl1]; exact this.2⟩
  · refine ⟨?_, by rw [a, hl1]; exact Nat.le_refl _⟩
    rw [b, hp.2]
    exact le_truncMs _ _ _ (gran_pos _) hl2 (hl3 e he).1
  · have := hlast l' hl'
    exact ⟨by rw [h1]; exact this.1, by rw [h2, this.2, hl1]; exact Nat.le_refl _⟩

theorem roll_pairwise (p : Pass) (hp : PassOK p) (now : Int) (last : Option Entry) (h : List Entry)
    (hw : WF h) (hl : ∀ l, last = some l → Fits p l h) : (roll p now last h).Pairwise R := by
  induction h generalizing last with
  | nil => cases last <;> simp [roll]
  | cons e rest ih =>
    obtain ⟨hpw, hgr⟩ := hw
    have hpw' := List.pairwise_cons.mp hpw
    have hwrest : WF rest := ⟨hpw'.2, fun x hx => hgr x (by simp [hx])⟩
    unfold roll
    split
    · rename_i hk
      -- e is kept: pending bucket (if any), then e, then the rest from scratch
      have hrest := ih none hwrest (by simp)
      have he_rest : ∀ x ∈ roll p now none rest, R e x := by
        intro x hx
        rcases mem_roll p now none rest x hx with ⟨a, _⟩ | ⟨a, e', he', hnk, b⟩ | ⟨l, hl', _⟩
        · exact hpw'.1 x a
        · -- a later entry is rolled up: e is not of the `from` label, hence coarser and aligned
          have hrel := hpw'.1 e' he'
          have hnk' : e'.label = p.fromL ∧ ¬ now - e'.t * nsPerMs ≤ p.dur := by
            unfold keep at hnk; omega
          have hlab : e.label ≠ p.fromL := by
            intro hcontra
            unfold keep at hk
            rcases hk with h1 | h1
            · exact h1 hcontra
            · have : e.t * nsPerMs ≤ e'.t * nsPerMs := Int.mul_le_mul_of_nonneg_right hrel.1 (by unfold nsPerMs; omega)
              omega
          have hto : p.toL ≤ e.label := by
            have := hrel.2
            rcases hp.1 with h1 | h1 <;> omega
          refine ⟨?_, by rw [a]; exact hto⟩
          rw [b, hp.2]
          exact le_truncMs _ _ _ (gran_pos _) (Int.dvd_trans (gran_dvd _ _ hto) (hgr e (by simp))) hrel.1
        · simp at hl'
      cases last with
      | none => simpa using List.pairwise_cons.mpr ⟨he_rest, hrest⟩
      | some l =>
        have hf := hl l rfl
        simp only [Option.toList, List.cons_append, List.nil_append]
        refine List.pairwise_cons.mpr ⟨?_, List.pairwise_cons.mpr ⟨he_rest, hrest⟩⟩
        intro x hx
        rcases List.mem_cons.mp hx with rfl | h2
        · have := hf.2.2 x (by simp)
          exact ⟨this.1, by rw [hf.1]; exact this.2⟩
        · exact fits_R p hp now l none rest ⟨hf.1, hf.2.1, fun y hy => hf.2.2 y (by simp [hy])⟩ (by simp) x h2
    · rename_i hk
      have hnk : e.label = p.fromL ∧ ¬ now - e.t * nsPerMs ≤ p.dur := by unfold keep at hk; omega
      have hfromto : p.fromL ≤ p.toL := by rcases hp.1 with h1 | h1 <;> omega
      -- the new pending bucket fits in front of the rest
      have hnew : ∀ d, Fits p ⟨truncMs e.t p.trunc, d, p.toL⟩ rest := by
        intro d
        refine ⟨rfl, by rw [hp.2]; exact truncMs_dvd _ _, ?_⟩
        intro y hy
        have := hpw'.1 y hy
        refine ⟨Int.le_trans (truncMs_le _ _ (by rw [hp.2]; exact gran_pos _)) this.1, ?_⟩
        have := this.2; omega
      cases last with
      | none => exact ih _ hwrest (by intro l hl'; cases hl'; exact hnew _)
      | some l =>
        have hf := hl l rfl
        simp only
        split
        · rename_i heq
          apply ih _ hwrest
          intro l' hl'; cases hl'
          exact ⟨hf.1, hf.2.1, fun y hy => hf.2.2 y (by simp [hy])⟩
        · refine List.pairwise_cons.mpr ⟨?_, ih _ hwrest (by intro l' hl'; cases hl'; exact hnew _)⟩
          intro x hx
          apply fits_R p hp now l _ rest ⟨hf.1, hf.2.1, fun y hy => hf.2.2 y (by simp [hy])⟩ _ x hx
          intro l' hl'; cases hl'
          refine ⟨?_, rfl⟩
          simp only
          rw [hp.2]
          exact le_truncMs _ _ _ (gran_pos _) hf.2.1 (hf.2.2 e (by simp)).1

theorem roll_aligned (p : Pass) (hp : PassOK p) (now : Int) (last : Option Entry) (h : List Entry)
    (hgr : ∀ e ∈ h, gran e.label ∣ e.t) (hl : ∀ l, last = some l → gran l.label ∣ l.t) :
    ∀ x ∈ roll p now last h, gran x.label ∣ x.t := by
  intro x hx
  rcases mem_roll p now last h x hx with ⟨a, _⟩ | ⟨a, e, _, _, b⟩ | ⟨l, hl', h1, h2⟩
  · exact hgr x a
  · rw [a, b, hp.2]; exact truncMs_dvd _ _
  · rw [h1, h2]; exact hl l hl'

theorem doRollUp_WF (p : Pass) (hp : PassOK p) (now : Int) (h : List Entry) (hw : WF h) : WF (doRollUp p now h) :=
  ⟨roll_pairwise p hp now none h hw (by simp), roll_aligned p hp now none h hw.2 (by simp)⟩

theorem rollUpWith_WF (ps : List Pass) (hps : ∀ p ∈ ps, PassOK p) (now : Int) (h : List Entry) (hw : WF h) :
    WF (rollUpWith ps now h) := by
  unfold rollUpWith
  induction ps generalizing h with
  | nil => exact hw
  | cons p rest ih =>
    simp only [List.foldl_cons]
    exact ih (fun q hq => hps q (by simp [hq])) _ (doRollUp_WF p (hps p (by simp)) now h hw)

theorem passes_ok : ∀ p ∈ passes, PassOK p := by
  intro p hp
  simp only [passes, List.mem_cons, List.mem_nil_iff, or_false] at hp
  rcases hp with rfl | rfl | rfl | rfl | rfl | rfl | rfl | rfl <;> simp [PassOK, gran]

theorem rollUp_WF (now : Int) (h : List Entry) (hw : WF h) : WF (rollUp now h) :=
  rollUpWith_WF passes passes_ok now h hw

/-- appending a fresh entry that is not earlier than the existing ones keeps the shape -/
theorem WF_append (h : List Entry) (t d : Int) (hw : WF h) (ht : ∀ e ∈ h, e.t ≤ t) : WF (h ++ [⟨t, d, 0⟩]) := by
  obtain ⟨hpw, hgr⟩ := hw
  refine ⟨List.pairwise_append.mpr ⟨hpw, by simp, ?_⟩, ?_⟩
  · intro a ha b hb
    simp at hb; subst hb
    exact ⟨ht a ha, Nat.zero_le _⟩
  · intro e he
    rcases List.mem_append.mp he with h1 | h1
    · exact hgr e h1
    · simp at h1; subst h1; simp [gran]

theorem WF_sorted (h : List Entry) (hw : WF h) : Sorted h :=
  hw.1.imp (fun hab => hab.1)

theorem doRollUp_le (p : Pass) (hp : PassOK p) (now hi : Int) (h : List Entry) (hh : ∀ e ∈ h, e.t ≤ hi) :
    ∀ x ∈ doRollUp p now h, x.t ≤ hi := by
  intro x hx
  rcases mem_roll p now none h x hx with ⟨a, _⟩ | ⟨_, e, he, _, b⟩ | ⟨l, hl', _⟩
  · exact hh x a
  · rw [b]; exact Int.le_trans (truncMs_le _ _ (by rw [hp.2]; exact gran_pos _)) (hh e he)
  · simp at hl'

theorem rollUp_le (now hi : Int) (h : List Entry) (hh : ∀ e ∈ h, e.t ≤ hi) : ∀ x ∈ rollUp now h, x.t ≤ hi := by
  unfold rollUp rollUpWith
  have hps := passes_ok
  generalize passes = ps at hps
  induction ps generalizing h with
  | nil => exact hh
  | cons p rest ih =>
    simp only [List.foldl_cons]
    exact ih _ (doRollUp_le p (hps p (by simp)) now hi h hh) (fun q hq => hps q (by simp [hq]))

/-! ## operations -/

theorem addWithTime_value (c : Counter) (d t now : Int) : (addWithTime c d t now).value = c.value + d := by
  unfold addWithTime
  simp only
  split
  · rename_i h; simp [h]
  · split
    · split <;> rfl
    · rfl

theorem addWithTime_ts (c : Counter) (d t now : Int) : (addWithTime c d t now).ts = c.ts := by
  unfold addWithTime
  simp only
  split
  · rfl
  · split
    · split <;> rfl
    · rfl

theorem addWithTime_sum (c : Counter) (d t now : Int) (hts : c.ts = true) :
    sumD (addWithTime c d t now).hist = sumD c.hist + d := by
  unfold addWithTime
  simp only [hts]
  split
  · rename_i h; simp [h]
  · simp only [if_true]
    split
    · simp only [rollUp, rollUpWith_sum, sumD_append, sumD]; omega
    · simp only [sumD_append, sumD]; omega

theorem addWithTime_hist_plain (c : Counter) (d t now : Int) (hts : c.ts = false) :
    (addWithTime c d t now).hist = c.hist := by
  unfold addWithTime
  simp only [hts]
  split <;> simp

theorem addWithTime_WF (c : Counter) (d t now : Int) (hw : WF c.hist) (hle : ∀ e ∈ c.hist, e.t ≤ t) :
    WF (addWithTime c d t now).hist ∧ ∀ e ∈ (addWithTime c d t now).hist, e.t ≤ t := by
  have happ := WF_append c.hist t d hw hle
  have hle' : ∀ e ∈ c.hist ++ [⟨t, d, 0⟩], e.t ≤ t := by
    intro e he
    rcases List.mem_append.mp he with h1 | h1
    · exact hle e h1
    · simp at h1; subst h1; exact Int.le_refl _
  unfold addWithTime
  simp only
  split
  · exact ⟨hw, hle⟩
  · split
    · split
      · exact ⟨rollUp_WF now _ happ, rollUp_le now t _ hle'⟩
      · exact ⟨happ, hle'⟩
    · exact ⟨hw, hle⟩

theorem addWithTime_nonNeg (c : Counter) (d t now : Int) (hd : 0 ≤ d) (hn : NonNeg c.hist) :
    NonNeg (addWithTime c d t now).hist := by
  have happ : NonNeg (c.hist ++ [⟨t, d, 0⟩]) := by
    intro e he
    rcases List.mem_append.mp he with h1 | h1
    · exact hn e h1
    · simp at h1; subst h1; exact hd
  unfold addWithTime
  simp only
  split
  · exact hn
  · split
    · split
      · exact rollUpWith_nonNeg passes now _ happ
      · exact happ
    · exact hn

theorem runOps_nonNeg (ops : List Op) (hnn : NonNegOps ops) : NonNeg (runOps (new true) ops).hist := by
  suffices H : ∀ c : Counter, NonNeg c.hist → NonNeg (runOps c ops).hist by
    exact H (new true) (by intro e he; simp [new] at he)
  induction ops with
  | nil => intro c hc; simpa [runOps] using hc
  | cons o rest ih =>
    intro c hc
    simp only [runOps, List.foldl_cons]
    cases o with
    | add d t now =>
      simp only [NonNegOps] at hnn
      exact ih hnn.2 _ (addWithTime_nonNeg c d t now hnn.1 hc)
    | tick n => exact ih (by simpa [NonNegOps] using hnn) _ (by simpa [apply, tick] using hc)
    | query t1 t2 => exact ih (by simpa [NonNegOps] using hnn) _ (by simpa [apply, deltaBetween] using hc)
    | load v h now =>
      simp only [NonNegOps] at hnn
      exact ih hnn.2 _ (by simpa [apply, loadFrom, NonNeg] using hnn.1)

end Mieru.Proofs.Counter
