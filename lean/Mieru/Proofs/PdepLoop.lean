import Mieru.Proofs.LowEntropy
/-!
# The portable Go PDEP / PEXT loops compute the bit-list specification

`pdepLoop` / `pextLoop` (Model/LowEntropy.lean) transcribe the loops of `pkg/mathext/bit.go` on
naturals below 2^64.  Here they are related to `deposit` / `split` on LSB-first bit lists.

Invariant used for both loops: after the positions `< p` of the mask have been consumed, the
remaining mask is `2^p * toNat mb` (`mb` = the not yet consumed mask bits), `j ≤ p` set bits were
seen so far, and the counter bit is `2^j` (reduced modulo 2^64: it only wraps once `p = 64`, when
`mb = []` and the loop has ended).  Core Lean only.
-/
namespace Mieru.LowEntropy
open Mieru

/-! ## Facts about one loop iteration on naturals -/

/-- `x & (1 << j) != 0` tests bit `j` -/
theorem and_two_pow_ne_zero (x j : Nat) : (x &&& 2 ^ j ≠ 0) ↔ x / 2 ^ j % 2 = 1 := by
  have ht : x.testBit j = decide (x / 2 ^ j % 2 = 1) := Nat.testBit_eq_decide_div_mod_eq
  constructor
  · intro h
    apply Decidable.byContradiction
    intro hn
    apply h
    apply Nat.eq_of_testBit_eq
    intro i
    rw [Nat.testBit_and, Nat.testBit_two_pow, Nat.zero_testBit]
    by_cases hji : j = i
    · subst hji; rw [ht]; simp [hn]
    · simp [hji]
  · intro h h0
    have : (x &&& 2 ^ j).testBit j = true := by
      rw [Nat.testBit_and, Nat.testBit_two_pow_self, ht]; simp [h]
    rw [h0, Nat.zero_testBit] at this
    cases this

/-- `mask & (mask - 1)` clears the lowest set bit (at position `p`) -/
theorem clear_lowest (p t : Nat) :
    (2 ^ p * (1 + 2 * t)) &&& (2 ^ p * (1 + 2 * t) - 1) = 2 ^ (p + 1) * t := by
  have hp : 0 < 2 ^ p := Nat.two_pow_pos p
  have e1 : 2 ^ p * (1 + 2 * t) = 2 ^ (p + 1) * t + 2 ^ p := by
    rw [Nat.mul_add, Nat.mul_one, Nat.pow_succ, Nat.mul_assoc, Nat.add_comm]
  have e2 : 2 ^ p * (1 + 2 * t) - 1 = 2 ^ (p + 1) * t + (2 ^ p - 1) := by
    rw [e1]; omega
  have l1 : 2 ^ p < 2 ^ (p + 1) := by rw [Nat.pow_succ]; omega
  have l2 : 2 ^ p - 1 < 2 ^ (p + 1) := by omega
  have l0 : 0 < 2 ^ (p + 1) := Nat.two_pow_pos _
  rw [e2, e1]
  apply Nat.eq_of_testBit_eq
  intro i
  rw [Nat.testBit_and, Nat.testBit_two_pow_mul_add t l1, Nat.testBit_two_pow_mul_add t l2]
  have := Nat.testBit_two_pow_mul_add t l0 i
  rw [Nat.add_zero] at this
  rw [this]
  by_cases hi : i < p + 1
  · simp only [hi, if_true, Nat.testBit_two_pow, Nat.testBit_two_pow_sub_one, Nat.zero_testBit]
    by_cases h : p = i <;> simp [h]
  · simp [hi]

/-- `mask & -mask` (negation modulo 2^64) is the lowest set bit (at position `p`) -/
theorem lowestBit_eq (p t : Nat) (hp : p < 64) (ht : t < 2 ^ (63 - p)) :
    lowestBit (2 ^ p * (1 + 2 * t)) = 2 ^ p := by
  have hP : 0 < 2 ^ p := Nat.two_pow_pos p
  have e1 : 2 ^ p * (1 + 2 * t) = 2 ^ (p + 1) * t + 2 ^ p := by
    rw [Nat.mul_add, Nat.mul_one, Nat.pow_succ, Nat.mul_assoc, Nat.add_comm]
  have e64 : 2 ^ 64 = 2 ^ (p + 1) * 2 ^ (63 - p) := by
    rw [← Nat.pow_add]; congr 1; omega
  have e2 : 2 ^ 64 - (2 ^ (p + 1) * t + 2 ^ p) = 2 ^ (p + 1) * (2 ^ (63 - p) - (t + 1)) + 2 ^ p := by
    rw [e64, Nat.mul_sub, Nat.mul_add, Nat.mul_one]
    have : 2 ^ (p + 1) * (t + 1) ≤ 2 ^ (p + 1) * 2 ^ (63 - p) := Nat.mul_le_mul_left _ ht
    rw [Nat.mul_add, Nat.mul_one] at this
    have l : 2 ^ (p + 1) = 2 * 2 ^ p := by rw [Nat.pow_succ, Nat.mul_comm]
    omega
  have l1 : 2 ^ p < 2 ^ (p + 1) := by rw [Nat.pow_succ]; omega
  unfold lowestBit
  rw [e1, e2]
  have hlt : 2 ^ (p + 1) * (2 ^ (63 - p) - (t + 1)) + 2 ^ p < 2 ^ 64 := by
    rw [← e2]; omega
  rw [Nat.mod_eq_of_lt hlt]
  apply Nat.eq_of_testBit_eq
  intro i
  rw [Nat.testBit_and, Nat.testBit_two_pow_mul_add _ l1, Nat.testBit_two_pow_mul_add _ l1]
  by_cases hi : i < p + 1
  · simp [hi]
  · have hne : ¬ p = i := by omega
    simp only [hi, if_false, Nat.testBit_two_pow_sub_succ ht, Nat.testBit_two_pow, hne]
    cases t.testBit (i - (p + 1)) <;> simp

theorem shl_one_mod (j : Nat) : ((2 ^ j % 2 ^ 64) <<< 1) % 2 ^ 64 = 2 ^ (j + 1) % 2 ^ 64 := by
  rw [Nat.mod_two_pow_shiftLeft_mod_two_pow, Nat.shiftLeft_eq, Nat.pow_one, ← Nat.pow_succ]

/-! ## The loops against the bit-list specification -/

theorem deposit_false_cons (m ss : List Bool) (pad : Bool) :
    deposit (false :: m) ss pad = pad :: deposit m ss pad := by
  cases ss <;> simp [deposit]

theorem popcount_cons_true (m : List Bool) : Bits.popcount (true :: m) = Bits.popcount m + 1 := by
  simp [Bits.popcount]

theorem popcount_cons_false (m : List Bool) : Bits.popcount (false :: m) = Bits.popcount m := by
  simp [Bits.popcount]

theorem two_pow_mul_cons_true (p t : Nat) : 2 ^ p * (1 + 2 * t) = 2 ^ p + 2 ^ (p + 1) * t := by
  rw [Nat.mul_add, Nat.mul_one, Nat.pow_succ, Nat.mul_assoc]

theorem two_pow_mul_cons_false (p t : Nat) : 2 ^ p * (2 * t) = 2 ^ (p + 1) * t := by
  rw [Nat.pow_succ, Nat.mul_assoc]

/-- PDEP loop invariant: with the mask positions below `p` consumed (`j` of them set), the loop
    adds the deposit of the remaining source bits into the remaining mask bits. -/
theorem pdepLoop_inv (mb : List Bool) : ∀ (fuel x p j result : Nat),
    mb.length + p = 64 → j ≤ p → result < 2 ^ p → Bits.popcount mb < fuel →
    pdepLoop fuel x (2 ^ p * Bits.toNat mb) (2 ^ j % 2 ^ 64) result
      = some (result + 2 ^ p * Bits.toNat (deposit mb (Bits.ofNat (64 - j) (x / 2 ^ j)) false)) := by
  induction mb with
  | nil =>
    intro fuel x p j result _ _ _ hf
    cases fuel with
    | zero => simp [Bits.popcount] at hf
    | succ f => simp [pdepLoop, deposit, Bits.toNat]
  | cons b mb ih =>
    intro fuel x p j result hl hj hr hf
    cases b with
    | false =>
      rw [popcount_cons_false] at hf
      have hr' : result < 2 ^ (p + 1) := by rw [Nat.pow_succ]; omega
      have := ih fuel x (p + 1) j result (by simp at hl; omega) (by omega) hr' hf
      rw [deposit_false_cons]
      simp only [Bits.toNat, Bool.false_eq_true, if_false, Nat.zero_add, two_pow_mul_cons_false]
      exact this
    | true =>
      rw [popcount_cons_true] at hf
      have hp : p < 64 := by simp at hl; omega
      have hj64 : 2 ^ j % 2 ^ 64 = 2 ^ j :=
        Nat.mod_eq_of_lt (Nat.pow_lt_pow_right (by decide) (by omega))
      have ht : Bits.toNat mb < 2 ^ (63 - p) := by
        have := Bits.toNat_lt mb
        have e : mb.length = 63 - p := by simp at hl; omega
        rwa [e] at this
      cases fuel with
      | zero => omega
      | succ f =>
        have hsrc : Bits.ofNat (64 - j) (x / 2 ^ j)
            = (x / 2 ^ j % 2 == 1) :: Bits.ofNat (64 - (j + 1)) (x / 2 ^ (j + 1)) := by
          have e : 64 - j = (64 - (j + 1)) + 1 := by omega
          rw [e, Bits.ofNat, Nat.div_div_eq_div_mul, ← Nat.pow_succ]
        have hP : 0 < 2 ^ p := Nat.two_pow_pos p
        have hmask : 2 ^ p * Bits.toNat (true :: mb) ≠ 0 := by
          simp only [Bits.toNat, if_true]
          rw [two_pow_mul_cons_true]; omega
        rw [pdepLoop, if_neg hmask]
        simp only [Bits.toNat, if_true]
        rw [lowestBit_eq p _ hp ht, clear_lowest, hj64]
        have hs := shl_one_mod j
        rw [hj64] at hs
        rw [hs, hsrc]
        simp only [deposit, Bits.toNat]
        by_cases hbit : x / 2 ^ j % 2 = 1
        · have hne : x &&& 2 ^ j ≠ 0 := (and_two_pow_ne_zero x j).2 hbit
          rw [if_pos hne, Nat.or_two_pow_eq_add_of_lt hr]
          have hr' : result + 2 ^ p < 2 ^ (p + 1) := by rw [Nat.pow_succ]; omega
          rw [ih f x (p + 1) (j + 1) (result + 2 ^ p) (by simp at hl; omega) (by omega) hr'
            (by omega)]
          simp only [hbit, beq_self_eq_true, if_true]
          rw [two_pow_mul_cons_true, Option.some.injEq]; omega
        · have hne : ¬ (x &&& 2 ^ j ≠ 0) := fun h => hbit ((and_two_pow_ne_zero x j).1 h)
          rw [if_neg hne]
          have hr' : result < 2 ^ (p + 1) := by rw [Nat.pow_succ]; omega
          rw [ih f x (p + 1) (j + 1) result (by simp at hl; omega) (by omega) hr' (by omega)]
          have hb : (x / 2 ^ j % 2 == 1) = false := by simp [hbit]
          simp only [hb, Bool.false_eq_true, if_false, Nat.zero_add, two_pow_mul_cons_false]

theorem pdepGo_eq_pdep (x mask : Nat) (hm : mask < 2 ^ 64) : pdepGo x mask = some (pdep x mask) := by
  have h := pdepLoop_inv (Bits.ofNat 64 mask) 65 x 0 0 0 (by simp) (Nat.le_refl 0) (by decide)
    (by have := popcount_le_length (Bits.ofNat 64 mask); simp at this; omega)
  rw [Bits.toNat_ofNat, Nat.mod_eq_of_lt hm] at h
  simpa [pdepGo, pdep] using h

/-- PEXT loop invariant: with the mask positions below `p` consumed (`j` of them set, their bits
    of `x` already packed into `result < 2^j`), the loop appends the selected bits of the rest. -/
theorem pextLoop_inv (mb : List Bool) : ∀ (fuel x p j result n : Nat),
    mb.length + p = 64 → j ≤ p → result < 2 ^ j → Bits.popcount mb < fuel → Bits.popcount mb ≤ n →
    pextLoop fuel x (2 ^ p * Bits.toNat mb) (2 ^ j % 2 ^ 64) result
      = some (result + 2 ^ j * Bits.toNat (split mb (Bits.ofNat mb.length (x / 2 ^ p)) n).1) := by
  induction mb with
  | nil =>
    intro fuel x p j result n _ _ _ hf _
    cases fuel with
    | zero => simp [Bits.popcount] at hf
    | succ f => simp [pextLoop, split, Bits.toNat]
  | cons b mb ih =>
    intro fuel x p j result n hl hj hr hf hn
    have hsrc : Bits.ofNat (b :: mb).length (x / 2 ^ p)
        = (x / 2 ^ p % 2 == 1) :: Bits.ofNat mb.length (x / 2 ^ (p + 1)) := by
      rw [List.length_cons, Bits.ofNat, Nat.div_div_eq_div_mul, ← Nat.pow_succ]
    rw [hsrc]
    cases b with
    | false =>
      rw [popcount_cons_false] at hf hn
      have := ih fuel x (p + 1) j result n (by simp at hl; omega) (by omega) hr hf hn
      simp only [Bits.toNat, Bool.false_eq_true, if_false, Nat.zero_add, two_pow_mul_cons_false,
        split]
      exact this
    | true =>
      rw [popcount_cons_true] at hf hn
      have hp : p < 64 := by simp at hl; omega
      have hj64 : 2 ^ j % 2 ^ 64 = 2 ^ j :=
        Nat.mod_eq_of_lt (Nat.pow_lt_pow_right (by decide) (by omega))
      have ht : Bits.toNat mb < 2 ^ (63 - p) := by
        have := Bits.toNat_lt mb
        have e : mb.length = 63 - p := by simp at hl; omega
        rwa [e] at this
      cases fuel with
      | zero => omega
      | succ f =>
      cases n with
      | zero => omega
      | succ n =>
        have hP : 0 < 2 ^ p := Nat.two_pow_pos p
        have hmask : 2 ^ p * Bits.toNat (true :: mb) ≠ 0 := by
          simp only [Bits.toNat, if_true]
          rw [two_pow_mul_cons_true]; omega
        rw [pextLoop, if_neg hmask]
        simp only [Bits.toNat, if_true]
        rw [lowestBit_eq p _ hp ht, clear_lowest, hj64]
        have hs := shl_one_mod j
        rw [hj64] at hs
        rw [hs]
        simp only [split, Bits.toNat]
        by_cases hbit : x / 2 ^ p % 2 = 1
        · have hne : x &&& 2 ^ p ≠ 0 := (and_two_pow_ne_zero x p).2 hbit
          rw [if_pos hne, Nat.or_two_pow_eq_add_of_lt hr]
          have hr' : result + 2 ^ j < 2 ^ (j + 1) := by rw [Nat.pow_succ]; omega
          rw [ih f x (p + 1) (j + 1) (result + 2 ^ j) n (by simp at hl; omega) (by omega) hr'
            (by omega) (by omega)]
          simp only [hbit, beq_self_eq_true, if_true]
          rw [two_pow_mul_cons_true, Option.some.injEq]; omega
        · have hne : ¬ (x &&& 2 ^ p ≠ 0) := fun h => hbit ((and_two_pow_ne_zero x p).1 h)
          rw [if_neg hne]
          have hr' : result < 2 ^ (j + 1) := by rw [Nat.pow_succ]; omega
          rw [ih f x (p + 1) (j + 1) result n (by simp at hl; omega) (by omega) hr' (by omega)
            (by omega)]
          have hb : (x / 2 ^ p % 2 == 1) = false := by simp [hbit]
          simp only [hb, Bool.false_eq_true, if_false, Nat.zero_add, two_pow_mul_cons_false]

theorem pextGo_eq_pext (x mask : Nat) (hm : mask < 2 ^ 64) : pextGo x mask = some (pext x mask) := by
  have hpc : Bits.popcount (Bits.ofNat 64 mask) ≤ 64 := by
    have := popcount_le_length (Bits.ofNat 64 mask); simpa using this
  have h := pextLoop_inv (Bits.ofNat 64 mask) 65 x 0 0 0 64 (by simp) (Nat.le_refl 0) (by decide)
    (by omega) hpc
  rw [Bits.toNat_ofNat, Nat.mod_eq_of_lt hm] at h
  simpa [pextGo, pext] using h

end Mieru.LowEntropy
