import Mieru.Model.TcpSession
import Mieru.Proofs.Fragment
/-!
# Lemmas about the session layer of the stream transport (helper file for Props/C01)
-/
namespace Mieru.TcpSession
open Mieru Mieru.Fragment

/-! ## Sender -/

theorem fragSize_pos (le : Option LE) : 0 < fragSize le := by
  unfold fragSize
  cases le with
  | none => decide
  | some l =>
    simp only
    cases h : LowEntropy.sourceBytes l.mode with
    | none => decide
    | some c =>
      unfold LowEntropy.sourceBytes at h
      split at h <;> simp only [Option.some.injEq, reduceCtorEq] at h <;> subst h <;> decide

theorem fragSize_le (le : Option LE) : fragSize le ≤ maxPDU := by
  unfold fragSize
  cases le with
  | none => exact Nat.le_refl _
  | some l =>
    simp only
    cases LowEntropy.sourceBytes l.mode with
    | none => exact Nat.le_refl _
    | some c => exact Nat.min_le_left _ _

theorem numberFrags_payloads (seq : Nat) (le : Option LE) (ps : List Bytes) :
    (numberFrags seq le ps).map (·.payload) = ps := by
  induction ps generalizing seq with
  | nil => rfl
  | cons p ps ih => simp [numberFrags, ih]

theorem numberFrags_length (seq : Nat) (le : Option LE) (ps : List Bytes) :
    (numberFrags seq le ps).length = ps.length := by
  induction ps generalizing seq with
  | nil => rfl
  | cons p ps ih => simp [numberFrags, ih]

theorem numberFrags_seqs (seq : Nat) (le : Option LE) (ps : List Bytes) :
    (numberFrags seq le ps).map (·.seq) = List.range' seq ps.length := by
  induction ps generalizing seq with
  | nil => rfl
  | cons p ps ih => simp [numberFrags, ih, List.range'_succ]

/-- fragment numbers count down to 0: the `j`-th fragment of `n` carries `n - 1 - j` -/
theorem numberFrags_fragments (seq : Nat) (le : Option LE) (ps : List Bytes) :
    (numberFrags seq le ps).map (·.fragment) = (List.range ps.length).reverse := by
  induction ps generalizing seq with
  | nil => rfl
  | cons p ps ih => simp [numberFrags, ih, List.range_succ]

theorem numberFrags_mem (seq : Nat) (le : Option LE) (ps : List Bytes) (g : Seg) (h : g ∈ numberFrags seq le ps) :
    g.kind = .data ∧ g.le = le ∧ g.payload ∈ ps ∧ g.fragment < ps.length := by
  induction ps generalizing seq with
  | nil => simp [numberFrags] at h
  | cons p ps ih =>
    simp only [numberFrags, List.mem_cons] at h
    rcases h with rfl | h
    · simp
    · obtain ⟨a, b, c, d⟩ := ih (seq + 1) h
      exact ⟨a, b, by simp [c], by simp; omega⟩

theorem writeChunk_payloads (seq : Nat) (le : Option LE) (b : Bytes) :
    ((writeChunk seq le b).map (·.payload)).flatten = b := by
  rw [writeChunk, numberFrags_payloads]
  exact pieces_flatten _ (fragSize_pos le) _ _ (Nat.le_refl _)

theorem writeChunk_seqs (seq : Nat) (le : Option LE) (b : Bytes) :
    (writeChunk seq le b).map (·.seq) = List.range' seq (writeChunk seq le b).length := by
  rw [writeChunk, numberFrags_seqs, numberFrags_length]

/-- every fragment `writeChunk` queues is a data segment with between 1 and `fragSize` bytes -/
theorem writeChunk_mem (seq : Nat) (le : Option LE) (b : Bytes) (g : Seg) (h : g ∈ writeChunk seq le b) :
    g.kind = .data ∧ g.le = le ∧ 1 ≤ g.payload.length ∧ g.payload.length ≤ fragSize le ∧
    g.fragment < (pieces (fragSize le) b.length b).length := by
  obtain ⟨a, c, d, e⟩ := numberFrags_mem _ _ _ _ h
  obtain ⟨h1, h2⟩ := pieces_bound _ (fragSize_pos le) _ _ _ d
  exact ⟨a, c, h1, h2, e⟩

theorem chunkSegs_payloads (les : Nat → Option LE) (i seq : Nat) (cs : List Bytes) :
    ((chunkSegs les i seq cs).map (·.payload)).flatten = cs.flatten := by
  induction cs generalizing i seq with
  | nil => rfl
  | cons c cs ih => simp [chunkSegs, writeChunk_payloads, ih]

theorem chunkSegs_seqs (les : Nat → Option LE) (i seq : Nat) (cs : List Bytes) :
    (chunkSegs les i seq cs).map (·.seq) = List.range' seq (chunkSegs les i seq cs).length := by
  induction cs generalizing i seq with
  | nil => rfl
  | cons c cs ih =>
    simp only [chunkSegs, List.map_append, List.length_append, writeChunk_seqs, ih]
    rw [List.range'_append_1]

theorem chunkSegs_mem (les : Nat → Option LE) (i seq : Nat) (cs : List Bytes) (hc : ∀ c ∈ cs, c.length ≤ maxPDU)
    (g : Seg) (h : g ∈ chunkSegs les i seq cs) :
    g.kind = .data ∧ 1 ≤ g.payload.length ∧ g.payload.length ≤ fragSize g.le ∧
    ∃ c ∈ cs, g.fragment < (pieces (fragSize g.le) c.length c).length := by
  induction cs generalizing i seq with
  | nil => simp [chunkSegs] at h
  | cons c cs ih =>
    simp only [chunkSegs, List.mem_append] at h
    rcases h with h | h
    · obtain ⟨a, b, d, e, f⟩ := writeChunk_mem _ _ _ _ h
      rw [b]
      exact ⟨a, d, e, c, by simp, f⟩
    · obtain ⟨a, d, e, c', hc', f⟩ := ih (i + 1) _ (fun x hx => hc x (by simp [hx])) h
      exact ⟨a, d, e, c', by simp [hc'], f⟩

theorem piggy_cases (lo : Option LE) (b : Bytes) :
    (piggy lo b = b ∧ b.length ≤ maxOpenPayload) ∨ piggy lo b = [] := by
  unfold piggy
  split
  · rename_i h; exact Or.inl ⟨rfl, h.2⟩
  · exact Or.inr rfl

theorem dataSegs_payloads (les : Nat → Option LE) (seq : Nat) (b : Bytes) :
    ((dataSegs les seq b).map (·.payload)).flatten = b := by
  rw [dataSegs, chunkSegs_payloads]
  exact pieces_flatten _ (by decide) _ _ (Nat.le_refl _)

theorem dataSegs_seqs (les : Nat → Option LE) (seq : Nat) (b : Bytes) :
    (dataSegs les seq b).map (·.seq) = List.range' seq (dataSegs les seq b).length := by
  rw [dataSegs, chunkSegs_seqs]

theorem dataSegs_mem (les : Nat → Option LE) (seq : Nat) (b : Bytes) (g : Seg) (h : g ∈ dataSegs les seq b) :
    g.kind = .data ∧ 1 ≤ g.payload.length ∧ g.payload.length ≤ fragSize g.le ∧
    ∃ c : Bytes, c.length ≤ maxPDU ∧ g.fragment < (pieces (fragSize g.le) c.length c).length := by
  have hb : ∀ c ∈ pieces maxPDU b.length b, c.length ≤ maxPDU := fun c hc => (pieces_bound _ (by decide) _ _ c hc).2
  obtain ⟨a, d, e, c, hc, f⟩ := chunkSegs_mem les 0 seq _ hb g h
  exact ⟨a, d, e, c, hb c hc, f⟩

theorem write_payloads (s : Sess) (lo : Option LE) (les : Nat → Option LE) (b : Bytes) (h : s.open) :
    ((write s lo les b).1.map (·.payload)).flatten = b := by
  unfold write
  rw [if_neg (fun hn => hn h)]
  by_cases h1 : s.isClient = true ∧ s.st = .attached ∧ s.openSent = false
  · rw [if_pos h1]
    by_cases h2 : piggy lo b ≠ []
    · rw [if_pos h2]
      rcases piggy_cases lo b with ⟨e, _⟩ | e
      · simp [e]
      · exact absurd e h2
    · rw [if_neg h2]
      simp [dataSegs_payloads]
  · rw [if_neg h1]
    exact dataSegs_payloads les _ b

theorem write_seqs (s : Sess) (lo : Option LE) (les : Nat → Option LE) (b : Bytes) :
    (write s lo les b).1.map (·.seq) = List.range' s.nextSend (write s lo les b).1.length ∧
    (write s lo les b).2.nextSend = s.nextSend + (write s lo les b).1.length := by
  unfold write
  by_cases h : ¬ s.open
  · rw [if_pos h]; simp
  · rw [if_neg h]
    by_cases h1 : s.isClient = true ∧ s.st = .attached ∧ s.openSent = false
    · rw [if_pos h1]
      by_cases h2 : piggy lo b ≠ []
      · rw [if_pos h2]; simp
      · rw [if_neg h2]
        simp only [List.map_cons, List.length_cons, dataSegs_seqs]
        refine ⟨?_, by omega⟩
        rw [List.range'_succ]
    · rw [if_neg h1]
      exact ⟨dataSegs_seqs les _ b, rfl⟩

theorem write_open (s : Sess) (lo : Option LE) (les : Nat → Option LE) (b : Bytes) (h : s.open) :
    (write s lo les b).2.open ∧ (write s lo les b).2.isClient = s.isClient := by
  unfold write
  rw [if_neg (fun hn => hn h)]
  unfold Sess.open at h ⊢
  by_cases h1 : s.isClient = true ∧ s.st = .attached ∧ s.openSent = false
  · rw [if_pos h1]
    by_cases h2 : piggy lo b ≠ []
    · rw [if_pos h2]; exact ⟨h, rfl⟩
    · rw [if_neg h2]; exact ⟨h, rfl⟩
  · rw [if_neg h1]; exact ⟨h, rfl⟩

/-- the segments of a `Write`: an open request with at most `maxOpenPayload` bytes, or data
    fragments of 1..`fragSize` bytes -/
theorem write_mem (s : Sess) (lo : Option LE) (les : Nat → Option LE) (b : Bytes) (g : Seg)
    (hg : g ∈ (write s lo les b).1) :
    (g.kind = .openReq ∧ g.fragment = 0 ∧ g.le = none ∧ g.payload.length ≤ maxOpenPayload) ∨
    (g.kind = .data ∧ 1 ≤ g.payload.length ∧ g.payload.length ≤ fragSize g.le ∧
      ∃ c : Bytes, c.length ≤ maxPDU ∧ g.fragment < (pieces (fragSize g.le) c.length c).length) := by
  unfold write at hg
  by_cases h : ¬ s.open
  · rw [if_pos h] at hg; simp at hg
  · rw [if_neg h] at hg
    by_cases h1 : s.isClient = true ∧ s.st = .attached ∧ s.openSent = false
    · rw [if_pos h1] at hg
      by_cases h2 : piggy lo b ≠ []
      · rw [if_pos h2] at hg
        simp only [List.mem_singleton] at hg
        subst hg
        rcases piggy_cases lo b with ⟨e, hl⟩ | e
        · exact Or.inl ⟨rfl, rfl, rfl, by simp only [e]; exact hl⟩
        · exact absurd e h2
      · rw [if_neg h2] at hg
        simp only [List.mem_cons] at hg
        rcases hg with rfl | hg
        · exact Or.inl ⟨rfl, rfl, rfl, by simp⟩
        · exact Or.inr (dataSegs_mem les _ b g hg)
    · rw [if_neg h1] at hg
      exact Or.inr (dataSegs_mem les _ b g hg)

theorem write_closed (s : Sess) (lo : Option LE) (les : Nat → Option LE) (b : Bytes) (h : ¬ s.open) :
    write s lo les b = ([], s) := by
  unfold write; simp [h]

theorem close_spec (s : Sess) :
    ¬ (close s).2.open ∧ (close s).2.nextSend = s.nextSend + (close s).1.length ∧
    (close s).1.map (·.seq) = List.range' s.nextSend (close s).1.length ∧
    ((close s).1.map (·.payload)).flatten = [] ∧ (∀ g ∈ (close s).1, g.kind = .closeReq) := by
  unfold close Sess.open
  split
  · rename_i h; simp [h]
  · split <;> simp

/-- what the server's processing of the open request queues: the open-session response (or
    nothing), with the next sequence number, no payload -/
theorem acceptOpen_spec (s : Sess) (p : Bytes) :
    (acceptOpen s p).1.map (·.seq) = List.range' s.nextSend (acceptOpen s p).1.length ∧
    (acceptOpen s p).2.nextSend = s.nextSend + (acceptOpen s p).1.length ∧
    (∀ g ∈ (acceptOpen s p).1, g = ⟨.openResp, s.nextSend, 0, none, []⟩) ∧
    (s.open → (acceptOpen s p).2.open) ∧
    (s.st = .closed → acceptOpen s p = ([], s)) := by
  unfold acceptOpen
  by_cases h0 : s.nextRecv = 0
  · rw [if_pos h0]
    unfold input
    by_cases hc : s.st = .closed
    · rw [if_pos hc]
      refine ⟨by simp, by simp, by simp, fun h => h, fun _ => rfl⟩
    · rw [if_neg hc]
      have hne : ¬ (0 : Nat) ≠ s.nextRecv := fun h => h h0.symm
      simp only [hne, if_false]
      by_cases hsrv : s.isClient = false ∧ True ∧ s.st = .attached
      · rw [if_pos hsrv]
        refine ⟨by simp, by simp, by simp, ?_, fun h => absurd h hc⟩
        intro ho
        exact ⟨ho.1, Or.inr rfl⟩
      · rw [if_neg hsrv]
        refine ⟨by simp, by simp, by simp, fun h => h, fun h => absurd h hc⟩
  · rw [if_neg h0]
    refine ⟨by simp, by simp, by simp, fun h => h, fun _ => rfl⟩

/-- **What a program of Write / Close calls queues**: the payloads concatenate to exactly the bytes
    of the calls that returned success, the sequence numbers are consecutive, and the session's
    counter ends where the list ends. -/
theorem run_spec (s : Sess) (ops : List Op) :
    ((run s ops).1.map (·.payload)).flatten = accepted s ops ∧
    (run s ops).1.map (·.seq) = List.range' s.nextSend (run s ops).1.length ∧
    (run s ops).2.nextSend = s.nextSend + (run s ops).1.length := by
  induction ops generalizing s with
  | nil => simp [run, accepted]
  | cons op ops ih =>
    cases op with
    | write lo les b =>
      obtain ⟨i1, i2, i3⟩ := ih (write s lo les b).2
      obtain ⟨w1, w2⟩ := write_seqs s lo les b
      simp only [run, accepted, List.map_append, List.flatten_append, List.length_append]
      refine ⟨?_, ?_, ?_⟩
      · rw [i1]
        by_cases h : s.open
        · simp [h, write_payloads s lo les b h]
        · simp [h, write_closed s lo les b h]
      · rw [w1, i2, w2, List.range'_append_1]
      · rw [i3, w2]; omega
    | close =>
      obtain ⟨i1, i2, i3⟩ := ih (close s).2
      obtain ⟨_, c2, c3, c4, _⟩ := close_spec s
      simp only [run, accepted, List.map_append, List.flatten_append, List.length_append]
      refine ⟨by rw [i1, c4]; rfl, ?_, ?_⟩
      · rw [c3, i2, c2, List.range'_append_1]
      · rw [i3, c2]; omega
    | accept p =>
      obtain ⟨i1, i2, i3⟩ := ih (acceptOpen s p).2
      obtain ⟨a1, a2, a3, _, _⟩ := acceptOpen_spec s p
      have a4 : ((acceptOpen s p).1.map (·.payload)).flatten = [] := by
        rw [List.flatten_eq_nil_iff]
        intro x hx
        rw [List.mem_map] at hx
        obtain ⟨g, hg, rfl⟩ := hx
        rw [a3 g hg]
      simp only [run, accepted, List.map_append, List.flatten_append, List.length_append]
      refine ⟨by rw [i1, a4]; rfl, ?_, ?_⟩
      · rw [a1, i2, a2, List.range'_append_1]
      · rw [i3, a2]; omega

/-- once a session is closed nothing more is queued -/
theorem run_closed (s : Sess) (ops : List Op) (h : s.st = .closed) (hc : s.closeRequested = true) : (run s ops).1 = [] := by
  have hno : ¬ s.open := by
    intro ho
    rcases ho.2 with h' | h' <;> rw [h] at h' <;> cases h'
  induction ops generalizing s with
  | nil => rfl
  | cons op ops ih =>
    cases op with
    | write lo les b => simp [run, write_closed s lo les b hno, ih s h hc hno]
    | close =>
      have : close s = ([], s) := by simp [close, hc]
      simp [run, this, ih s h hc hno]
    | accept p =>
      have := (acceptOpen_spec s p).2.2.2.2 h
      simp [run, this, ih s h hc hno]

/-- the close-session request is the LAST thing a program queues: everything written before
    `Close` is in front of it, nothing behind it -/
theorem run_close_last (s : Sess) (ops : List Op) (pre post : List Seg) (g : Seg)
    (h : (run s ops).1 = pre ++ g :: post) (hg : g.kind = .closeReq) (hs : s.open) : post = [] := by
  induction ops generalizing s pre with
  | nil => simp [run] at h
  | cons op ops ih =>
    cases op with
    | write lo les b =>
      simp only [run] at h
      -- the segments of a write are never close requests
      have hw : ∀ x ∈ (write s lo les b).1, x.kind ≠ .closeReq := by
        intro x hx
        rcases write_mem s lo les b x hx with ⟨e, _⟩ | ⟨e, _⟩ <;> rw [e] <;> simp
      -- so `g` lies in the rest
      have key : ∃ pre', pre = (write s lo les b).1 ++ pre' ∧ (run (write s lo les b).2 ops).1 = pre' ++ g :: post := by
        generalize (write s lo les b).1 = ws at h hw
        generalize (run (write s lo les b).2 ops).1 = rs at h
        induction ws generalizing pre with
        | nil => exact ⟨pre, by simp, by simpa using h⟩
        | cons w ws ihw =>
          cases pre with
          | nil =>
            simp only [List.cons_append, List.nil_append, List.cons.injEq] at h
            exact absurd (h.1 ▸ hg) (hw w (by simp))
          | cons p pre =>
            simp only [List.cons_append, List.cons.injEq] at h
            obtain ⟨pre', e1, e2⟩ := ihw pre (fun x hx => hw x (by simp [hx])) h.2
            exact ⟨pre', by simp [h.1, e1], e2⟩
      obtain ⟨pre', _, e2⟩ := key
      exact ih _ pre' e2 (write_open s lo les b hs).1
    | close =>
      simp only [run] at h
      have hc : s.closeRequested = false := hs.1
      have hf : closeFlushes s.st = true := by
        rcases hs.2 with h' | h' <;> simp [closeFlushes, h']
      have e : close s = ([⟨.closeReq, s.nextSend, 0, none, []⟩],
          { s with nextSend := s.nextSend + 1, closeRequested := true, st := .closed }) := by
        simp [close, hc, hf]
      rw [e] at h
      simp only at h
      rw [run_closed _ ops rfl rfl] at h
      cases pre with
      | nil => simp at h; exact h.2
      | cons p pre => simp at h
    | accept p =>
      simp only [run] at h
      obtain ⟨_, _, a3, a4, _⟩ := acceptOpen_spec s p
      have hw : ∀ x ∈ (acceptOpen s p).1, x.kind ≠ .closeReq := by
        intro x hx; rw [a3 x hx]; simp
      have key : ∃ pre', pre = (acceptOpen s p).1 ++ pre' ∧ (run (acceptOpen s p).2 ops).1 = pre' ++ g :: post := by
        generalize (acceptOpen s p).1 = ws at h hw
        generalize (run (acceptOpen s p).2 ops).1 = rs at h
        induction ws generalizing pre with
        | nil => exact ⟨pre, by simp, by simpa using h⟩
        | cons w ws ihw =>
          cases pre with
          | nil =>
            simp only [List.cons_append, List.nil_append, List.cons.injEq] at h
            exact absurd (h.1 ▸ hg) (hw w (by simp))
          | cons q pre =>
            simp only [List.cons_append, List.cons.injEq] at h
            obtain ⟨pre', e1, e2⟩ := ihw pre (fun x hx => hw x (by simp [hx])) h.2
            exact ⟨pre', by simp [h.1, e1], e2⟩
      obtain ⟨pre', _, e2⟩ := key
      exact ih _ pre' e2 (a4 hs)

/-! ## Receiver -/

def dataish (k : Kind) : Prop := k = .openReq ∨ k = .openResp ∨ k = .data
instance (k : Kind) : Decidable (dataish k) := by unfold dataish; infer_instance

/-- an in-order data-bearing segment is appended to the queue, nothing else changes for the reader -/
theorem input_data (s : Sess) (g : Seg) (hs : s.st ≠ .closed) (hk : dataish g.kind) (hseq : g.seq = s.nextRecv) :
    (input s g).2.pending = s.pending ++ g.payload ∧ (input s g).2.nextRecv = s.nextRecv + 1 ∧
    (input s g).2.st ≠ .closed ∧ (input s g).2.inErr = s.inErr ∧ (input s g).2.isClient = s.isClient ∧
    (input s g).2.closeRequested = s.closeRequested := by
  unfold input
  rw [if_neg hs]
  have hne : ¬ g.seq ≠ s.nextRecv := fun h => h hseq
  rcases hk with hk | hk | hk <;> rw [hk] <;> simp only [hne, if_false] <;>
    (split <;> simp [Sess.pending, List.append_assoc, hs])

theorem inputAll_data (s : Sess) (gs : List Seg) (hs : s.st ≠ .closed) (hk : ∀ g ∈ gs, dataish g.kind)
    (hseq : gs.map (·.seq) = List.range' s.nextRecv gs.length) :
    (inputAll s gs).pending = s.pending ++ (gs.map (·.payload)).flatten ∧
    (inputAll s gs).nextRecv = s.nextRecv + gs.length ∧ (inputAll s gs).st ≠ .closed ∧
    (inputAll s gs).inErr = s.inErr ∧ (inputAll s gs).isClient = s.isClient := by
  induction gs generalizing s with
  | nil => simp [inputAll, hs]
  | cons g gs ih =>
    simp only [List.map_cons, List.length_cons, List.range'_succ, List.cons.injEq] at hseq
    obtain ⟨a, b, c, d, e, _⟩ := input_data s g hs (hk g (by simp)) hseq.1
    have := ih (input s g).2 c (fun x hx => hk x (by simp [hx])) (by rw [b]; exact hseq.2)
    simp only [inputAll, List.foldl_cons] at this ⊢
    obtain ⟨i1, i2, i3, i4, i5⟩ := this
    refine ⟨by rw [i1, a]; simp [List.append_assoc], by rw [i2, b]; simp; omega, i3, by rw [i4, d], by rw [i5, e]⟩

/-- the peer's close request closes the session and leaves what is queued for the reader
    (`hinv`: `closeWithError` sets `closeRequested` and the state together) -/
theorem input_closeReq (s : Sess) (g : Seg) (hk : g.kind = .closeReq)
    (hinv : s.closeRequested = true → s.st = .closed) :
    (input s g).2.st = .closed ∧ (input s g).2.pending = s.pending ∧ (input s g).2.inErr = s.inErr := by
  unfold input
  by_cases hs : s.st = .closed
  · rw [if_pos hs]; exact ⟨hs, rfl, rfl⟩
  · rw [if_neg hs, hk]
    have hc : s.closeRequested = false := by
      cases h : s.closeRequested with
      | false => rfl
      | true => exact absurd (hinv h) hs
    simp only [close, hc, Bool.false_eq_true, if_false]
    split <;> simp [Sess.pending]

/-! ### `Read` -/

theorem readLoop_spec (f n : Nat) (s : Sess) (acc : Bytes) (hacc : acc.length ≤ n) :
    (readLoop f n s acc).1 ++ (readLoop f n s acc).2.pending = acc ++ s.pending ∧
    (readLoop f n s acc).1.length ≤ n ∧
    (s.queue.length < f → (readLoop f n s acc).1.length < n → (readLoop f n s acc).2.pending = []) ∧
    (readLoop f n s acc).2.inErr = s.inErr ∧ (readLoop f n s acc).2.nextRecv = s.nextRecv ∧
    ((readLoop f n s acc).2.st = .closed ↔ s.st = .closed) ∧
    (readLoop f n s acc).2.closeRequested = s.closeRequested ∧ (readLoop f n s acc).2.nextSend = s.nextSend ∧
    (readLoop f n s acc).2.isClient = s.isClient := by
  induction f generalizing s acc with
  | zero => simp [readLoop, hacc]
  | succ f ih =>
    unfold readLoop
    generalize hcdef : min (n - acc.length) s.unread.length = c
    have hc1 : c ≤ n - acc.length := by rw [← hcdef]; exact Nat.min_le_left _ _
    have hc2 : c ≤ s.unread.length := by rw [← hcdef]; exact Nat.min_le_right _ _
    have hcm : c = n - acc.length ∨ c = s.unread.length := by rw [← hcdef]; omega
    have hl1 : (acc ++ s.unread.take c).length = acc.length + c := by
      simp only [List.length_append, List.length_take]; omega
    have hp1 : (acc ++ s.unread.take c) ++ (s.unread.drop c ++ (s.queue.map (·.2)).flatten) = acc ++ s.pending := by
      simp only [Sess.pending, List.append_assoc]
      rw [← List.append_assoc (s.unread.take _), List.take_append_drop]
    dsimp only
    by_cases hstop : (acc ++ s.unread.take c).length = n ∨ s.unread.drop c ≠ []
    · rw [if_pos hstop]
      dsimp only
      refine ⟨by simpa [Sess.pending] using hp1, by omega, ?_, rfl, rfl, Iff.rfl, rfl, rfl, rfl⟩
      intro _ hlt
      rcases hstop with h | h
      · omega
      · exfalso
        have hlen : (s.unread.drop c).length ≠ 0 := fun h0 => h (List.eq_nil_of_length_eq_zero h0)
        simp only [List.length_drop] at hlen
        omega
    · rw [if_neg hstop]
      have hnf : (acc ++ s.unread.take c).length ≠ n := fun h => hstop (Or.inl h)
      have hu : s.unread.drop c = [] := by
        cases hd : s.unread.drop c with
        | nil => rfl
        | cons x xs => exact absurd (Or.inr (by rw [hd]; simp)) hstop
      cases hq : s.queue with
      | nil =>
        dsimp only
        refine ⟨by simpa [Sess.pending, hq] using hp1, by omega, ?_, rfl, rfl, Iff.rfl, rfl, rfl, rfl⟩
        intro _ _
        simp [Sess.pending, hu, hq]
      | cons kp q =>
        obtain ⟨k, p⟩ := kp
        dsimp only
        generalize hacc1 : acc ++ s.unread.take c = acc1 at *
        generalize hc2def : min (n - acc1.length) p.length = c2
        have hd1 : c2 ≤ n - acc1.length := by rw [← hc2def]; exact Nat.min_le_left _ _
        have hd2 : c2 ≤ p.length := by rw [← hc2def]; exact Nat.min_le_right _ _
        have hdm : c2 = n - acc1.length ∨ c2 = p.length := by rw [← hc2def]; omega
        have hl2 : (acc1 ++ p.take c2).length = acc1.length + c2 := by
          simp only [List.length_append, List.length_take]; omega
        have hp2 : (acc1 ++ p.take c2) ++ (p.drop c2 ++ (q.map (·.2)).flatten) = acc ++ s.pending := by
          rw [← hp1, hu, hq]
          simp only [List.map_cons, List.flatten_cons, List.append_assoc, List.nil_append]
          rw [← List.append_assoc (p.take _), List.take_append_drop]
        have hst : ∀ (st' : St), (st' = if s.isClient = true ∧ k = Kind.openResp ∧ s.st = St.attached
            then St.established else s.st) → (st' = .closed ↔ s.st = .closed) := by
          intro st' h
          rw [h]
          split
          · rename_i hh; simp [hh.2.2]
          · exact Iff.rfl
        by_cases hfull : (acc1 ++ p.take c2).length = n
        · rw [if_pos hfull]
          dsimp only
          refine ⟨by simpa [Sess.pending] using hp2, by omega, ?_, rfl, rfl, hst _ rfl, rfl, rfl, rfl⟩
          intro _ hlt; omega
        · rw [if_neg hfull]
          have := ih (⟨s.isClient, (if s.isClient = true ∧ k = Kind.openResp ∧ s.st = St.attached then St.established else s.st),
            s.nextSend, s.openSent, s.closeRequested, s.nextRecv, q, p.drop c2, s.inErr⟩ : Sess)
            (acc1 ++ p.take c2) (by omega)
          obtain ⟨i1, i2, i3, i4, i5, i6, i7, i8, i9⟩ := this
          refine ⟨?_, i2, ?_, i4, i5, ?_, i7, i8, i9⟩
          · rw [i1]; simpa [Sess.pending] using hp2
          · intro hf hlt
            exact i3 (by simp only [hq, List.length_cons] at hf; dsimp only; omega) hlt
          · rw [i6]; exact hst _ rfl

/-- **`Read`** returns bytes from the front of what is pending, at most the buffer size; a short
    read has taken everything there was (so it ends on a segment boundary); a call that returns no
    bytes found nothing pending.  The receive counter, the error flag and closedness are untouched. -/
theorem read_spec (s : Sess) (n : Nat) :
    (∀ b s', read s n = (.data b, s') → b ++ s'.pending = s.pending ∧ b.length ≤ n ∧
      (b.length < n → s'.pending = [])) ∧
    (∀ r s', read s n = (r, s') → (∀ b, r ≠ .data b) → 0 < n ∧ s.pending = [] ∧ s'.pending = []) ∧
    (read s n).2.inErr = s.inErr ∧ (read s n).2.nextRecv = s.nextRecv ∧
    ((read s n).2.st = .closed ↔ s.st = .closed) := by
  unfold read
  by_cases hn : n = 0
  · subst hn
    rw [if_pos rfl]
    refine ⟨?_, ?_, rfl, rfl, Iff.rfl⟩
    · intro b s' h
      simp only [Prod.mk.injEq, ReadRes.data.injEq] at h
      obtain ⟨rfl, rfl⟩ := h
      simp
    · intro r s' h hr
      simp only [Prod.mk.injEq] at h
      exact absurd h.1.symm (hr [])
  · rw [if_neg hn]
    dsimp only
    obtain ⟨l1, l2, l3, l4, l5, l6, _, _, _⟩ := readLoop_spec (s.queue.length + 1) n s [] (by simp)
    simp only [List.nil_append] at l1
    by_cases he : (readLoop (s.queue.length + 1) n s []).1 ≠ []
    · rw [if_pos he]
      refine ⟨?_, ?_, l4, l5, l6⟩
      · intro b s' h
        simp only [Prod.mk.injEq, ReadRes.data.injEq] at h
        obtain ⟨rfl, rfl⟩ := h
        exact ⟨l1, l2, fun hlt => l3 (by omega) hlt⟩
      · intro r s' h hr
        simp only [Prod.mk.injEq] at h
        exact absurd h.1.symm (hr _)
    · rw [if_neg he]
      have he' : (readLoop (s.queue.length + 1) n s []).1 = [] := by
        cases hh : (readLoop (s.queue.length + 1) n s []).1 with
        | nil => rfl
        | cons x xs => exact absurd (by rw [hh]; simp) he
      have hp := l3 (by omega) (by rw [he']; simp; omega)
      have hsp : s.pending = [] := by rw [← l1, he', hp]; rfl
      refine ⟨?_, ?_, ?_, ?_, ?_⟩
      · intro b s' h
        split at h <;> (try split at h) <;> simp at h
      · intro r s' h _
        have : s' = (readLoop (s.queue.length + 1) n s []).2 := by
          split at h <;> (try split at h) <;> simp only [Prod.mk.injEq] at h <;> exact h.2.symm
        subst this
        exact ⟨by omega, hsp, hp⟩
      · split <;> (try split) <;> exact l4
      · split <;> (try split) <;> exact l5
      · split <;> (try split) <;> exact l6

/-- a `Read` that reports end-of-stream found nothing left to read -/
theorem read_eof (s s' : Sess) (n : Nat) (h : read s n = (.eof, s')) : s.pending = [] :=
  ((read_spec s n).2.1 .eof s' h (by simp)).2.1

/-- with anything pending, `Read` (buffer not empty) returns at least one byte -/
theorem read_progress (s : Sess) (n : Nat) (hn : 0 < n) (hp : s.pending ≠ []) :
    ∃ b s', read s n = (.data b, s') ∧ b ≠ [] := by
  cases hr : read s n with
  | mk r s' =>
    cases r with
    | data b =>
      refine ⟨b, s', rfl, ?_⟩
      obtain ⟨h1, _, h3⟩ := (read_spec s n).1 b s' hr
      intro hb
      subst hb
      have := h3 (by simpa using hn)
      rw [this] at h1
      exact hp (by simpa using h1.symm)
    | block => exact absurd ((read_spec s n).2.1 _ s' hr (by simp)).2.1 hp
    | eof => exact absurd ((read_spec s n).2.1 _ s' hr (by simp)).2.1 hp
    | err => exact absurd ((read_spec s n).2.1 _ s' hr (by simp)).2.1 hp

/-- one `Read` with a buffer at least as large as what is pending takes all of it -/
theorem read_all (s : Sess) (n : Nat) (hp : s.pending ≠ []) (hn : s.pending.length ≤ n) :
    ∃ s', read s n = (.data s.pending, s') ∧ s'.pending = [] := by
  have hn0 : 0 < n := by
    have : 0 < s.pending.length := List.length_pos_iff.mpr hp
    omega
  obtain ⟨b, s', hr, hb⟩ := read_progress s n hn0 hp
  obtain ⟨h1, h2, h3⟩ := (read_spec s n).1 b s' hr
  by_cases hlt : b.length < n
  · have := h3 hlt
    rw [this, List.append_nil] at h1
    exact ⟨s', by rw [← h1]; exact hr, this⟩
  · have hl : b.length = s.pending.length := by
      have := congrArg List.length h1
      simp only [List.length_append] at this
      omega
    have hs' : s'.pending = [] := by
      have := congrArg List.length h1
      simp only [List.length_append] at this
      exact List.eq_nil_of_length_eq_zero (by omega)
    rw [hs', List.append_nil] at h1
    exact ⟨s', by rw [← h1]; exact hr, hs'⟩

/-! ### Arrivals and reads in any interleaving -/

/-- **Every interleaving of arrivals and reads**: whatever the order in which in-order
    data-bearing segments arrive and `Read` is called with whatever buffer sizes, the bytes read so
    far followed by what is still pending are exactly the payloads that arrived, in order — nothing
    lost, duplicated or reordered. -/
theorem runEv_spec (s : Sess) (es : List Ev) (hs : s.st ≠ .closed) (hk : ∀ g ∈ arrivals es, dataish g.kind)
    (hseq : (arrivals es).map (·.seq) = List.range' s.nextRecv (arrivals es).length) :
    (runEv s es).1.flatten ++ (runEv s es).2.pending = s.pending ++ ((arrivals es).map (·.payload)).flatten := by
  induction es generalizing s with
  | nil => simp [runEv, arrivals]
  | cons e es ih =>
    cases e with
    | input g =>
      simp only [arrivals, List.map_cons, List.length_cons, List.range'_succ, List.cons.injEq] at hseq hk ⊢
      obtain ⟨a, b, c, _, _, _⟩ := input_data s g hs (hk g (by simp [arrivals])) hseq.1
      have := ih (input s g).2 c (fun x hx => hk x (by simp [arrivals, hx])) (by rw [b]; exact hseq.2)
      simp only [runEv, List.flatten_cons]
      rw [this, a, List.append_assoc]
    | read n =>
      simp only [arrivals] at hseq hk ⊢
      obtain ⟨r1, r2, _, r4, r5⟩ := read_spec s n
      have hs' : (read s n).2.st ≠ .closed := fun h => hs (r5.mp h)
      cases hr : read s n with
      | mk r s' =>
        rw [hr] at r4 hs'
        simp only at r4 hs'
        have := ih s' hs' hk (by rw [r4]; exact hseq)
        cases r with
        | data b =>
          simp only [runEv, hr, List.flatten_cons, List.append_assoc]
          rw [this, ← List.append_assoc, ((read_spec s n).1 b s' hr).1]
        | block =>
          simp only [runEv, hr]
          rw [this, ((read_spec s n).2.1 _ s' hr (by simp)).2.1, ((read_spec s n).2.1 _ s' hr (by simp)).2.2]
        | eof =>
          simp only [runEv, hr]
          rw [this, ((read_spec s n).2.1 _ s' hr (by simp)).2.1, ((read_spec s n).2.1 _ s' hr (by simp)).2.2]
        | err =>
          simp only [runEv, hr]
          rw [this, ((read_spec s n).2.1 _ s' hr (by simp)).2.1, ((read_spec s n).2.1 _ s' hr (by simp)).2.2]

/-- reads alone never lose or invent a byte, whatever the state -/
theorem runEv_reads (s : Sess) (es : List Ev) (h : arrivals es = []) :
    (runEv s es).1.flatten ++ (runEv s es).2.pending = s.pending ∧
    ((runEv s es).2.st = .closed ↔ s.st = .closed) ∧ (runEv s es).2.inErr = s.inErr := by
  induction es generalizing s with
  | nil => simp [runEv]
  | cons e es ih =>
    cases e with
    | input g => simp [arrivals] at h
    | read n =>
      simp only [arrivals] at h
      obtain ⟨r1, r2, r3, _, r5⟩ := read_spec s n
      cases hr : read s n with
      | mk r s' =>
        rw [hr] at r3 r5
        simp only at r3 r5
        obtain ⟨i1, i2, i3⟩ := ih s' h
        cases r with
        | data b =>
          simp only [runEv, hr, List.flatten_cons, List.append_assoc]
          exact ⟨by rw [i1]; exact (r1 b s' hr).1, i2.trans r5, i3.trans r3⟩
        | block =>
          simp only [runEv, hr]
          exact ⟨by rw [i1, (r2 _ s' hr (by simp)).2.1, (r2 _ s' hr (by simp)).2.2], i2.trans r5, i3.trans r3⟩
        | eof =>
          simp only [runEv, hr]
          exact ⟨by rw [i1, (r2 _ s' hr (by simp)).2.1, (r2 _ s' hr (by simp)).2.2], i2.trans r5, i3.trans r3⟩
        | err =>
          simp only [runEv, hr]
          exact ⟨by rw [i1, (r2 _ s' hr (by simp)).2.1, (r2 _ s' hr (by simp)).2.2], i2.trans r5, i3.trans r3⟩

/-- **Every interleaving, with the close request**: the arrivals are in-order data-bearing segments
    optionally followed by the peer's close request.  Bytes read so far followed by what is pending
    are exactly the payloads that arrived; after the close request the session is closed, without
    an input error. -/
theorem runEv_spec_close (s : Sess) (es : List Ev) (ds tail : List Seg) (harr : arrivals es = ds ++ tail)
    (htail : tail = [] ∨ ∃ c, tail = [c] ∧ c.kind = .closeReq)
    (hs : s.st ≠ .closed) (hinv : s.closeRequested = true → s.st = .closed)
    (hk : ∀ g ∈ ds, dataish g.kind) (hseq : ds.map (·.seq) = List.range' s.nextRecv ds.length) :
    (runEv s es).1.flatten ++ (runEv s es).2.pending = s.pending ++ (ds.map (·.payload)).flatten ∧
    (tail ≠ [] → (runEv s es).2.st = .closed) ∧ (runEv s es).2.inErr = s.inErr := by
  induction es generalizing s ds with
  | nil =>
    simp only [arrivals] at harr
    have h1 : ds = [] := by cases ds <;> simp at harr ⊢
    have h2 : tail = [] := by subst h1; simpa using harr.symm
    subst h1; subst h2
    simp [runEv]
  | cons e es ih =>
    cases e with
    | input g =>
      simp only [arrivals] at harr
      cases ds with
      | nil =>
        -- the close request itself
        simp only [List.nil_append] at harr
        rcases htail with ht | ⟨c, ht, hc⟩
        · rw [ht] at harr; simp at harr
        · rw [ht] at harr
          simp only [List.cons.injEq] at harr
          obtain ⟨rfl, hrest⟩ := harr
          obtain ⟨c1, c2, c3⟩ := input_closeReq s g hc hinv
          obtain ⟨i1, i2, i3⟩ := runEv_reads (input s g).2 es hrest
          simp only [runEv, List.map_nil, List.flatten_nil, List.append_nil]
          exact ⟨by rw [i1, c2], fun _ => i2.mpr c1, i3.trans c3⟩
      | cons d ds =>
        simp only [List.cons_append, List.cons.injEq] at harr
        obtain ⟨rfl, hrest⟩ := harr
        simp only [List.map_cons, List.length_cons, List.range'_succ, List.cons.injEq] at hseq
        obtain ⟨a, b, c, d', _, f⟩ := input_data s g hs (hk g (by simp)) hseq.1
        have := ih (input s g).2 ds hrest c (by rw [f]; intro h; exact absurd (hinv h) hs)
          (fun x hx => hk x (by simp [hx])) (by rw [b]; exact hseq.2)
        obtain ⟨i1, i2, i3⟩ := this
        simp only [runEv, List.map_cons, List.flatten_cons]
        exact ⟨by rw [i1, a, List.append_assoc], i2, i3.trans d'⟩
    | read n =>
      simp only [arrivals] at harr
      obtain ⟨r1, r2, r3, r4, r5⟩ := read_spec s n
      have hcr : (read s n).2.closeRequested = s.closeRequested := by
        unfold read
        split
        · rfl
        · have := (readLoop_spec (s.queue.length + 1) n s [] (by simp)).2.2.2.2.2.2.1
          dsimp only
          split <;> (try split) <;> (try split) <;> exact this
      cases hr : read s n with
      | mk r s' =>
        rw [hr] at r3 r4 r5 hcr
        simp only at r3 r4 r5 hcr
        have hs' : s'.st ≠ .closed := fun h => hs (r5.mp h)
        have := ih s' ds harr hs' (by rw [hcr]; intro h; exact absurd (hinv h) hs) hk (by rw [r4]; exact hseq)
        obtain ⟨i1, i2, i3⟩ := this
        cases r with
        | data b =>
          simp only [runEv, hr, List.flatten_cons, List.append_assoc]
          exact ⟨by rw [i1, ← List.append_assoc, (r1 b s' hr).1], i2, i3.trans r3⟩
        | block =>
          simp only [runEv, hr]
          exact ⟨by rw [i1, (r2 _ s' hr (by simp)).2.1, (r2 _ s' hr (by simp)).2.2], i2, i3.trans r3⟩
        | eof =>
          simp only [runEv, hr]
          exact ⟨by rw [i1, (r2 _ s' hr (by simp)).2.1, (r2 _ s' hr (by simp)).2.2], i2, i3.trans r3⟩
        | err =>
          simp only [runEv, hr]
          exact ⟨by rw [i1, (r2 _ s' hr (by simp)).2.1, (r2 _ s' hr (by simp)).2.2], i2, i3.trans r3⟩

/-- the number of pieces: ceil(len / f) -/
theorem pieces_length (f : Nat) (hf : 0 < f) (fuel : Nat) (bs : Bytes) (h : bs.length ≤ fuel) :
    (pieces f fuel bs).length = (bs.length + f - 1) / f := by
  induction fuel generalizing bs with
  | zero =>
    have : bs = [] := List.eq_nil_of_length_eq_zero (by omega)
    subst this
    simp only [pieces, List.length_nil, Nat.zero_add]
    exact (Nat.div_eq_of_lt (by omega)).symm
  | succ n ih =>
    unfold pieces
    by_cases hb : bs = []
    · subst hb
      simp only [if_true, List.length_nil, Nat.zero_add]
      exact (Nat.div_eq_of_lt (by omega)).symm
    · have hpos : 0 < bs.length := List.length_pos_iff.mpr hb
      simp only [hb, if_false, List.length_cons]
      rw [ih (bs.drop f) (by simp only [List.length_drop]; omega), List.length_drop]
      by_cases hge : f ≤ bs.length
      · have e1 : bs.length - f + f - 1 = bs.length - 1 := by omega
        have e2 : bs.length + f - 1 = (bs.length - 1) + f := by omega
        rw [e1, e2, Nat.add_div_right _ hf]
      · have e1 : bs.length - f + f - 1 = f - 1 := by omega
        rw [e1, Nat.div_eq_of_lt (by omega)]
        exact (Nat.div_eq_of_lt_le (by omega) (by omega)).symm

/-! ## Shape of what a program queues -/

theorem fragSize_ge (le : Option LE) : 32764 ≤ fragSize le := by
  unfold fragSize
  cases le with
  | none => decide
  | some l =>
    simp only
    cases h : LowEntropy.sourceBytes l.mode with
    | none => decide
    | some c =>
      unfold LowEntropy.sourceBytes at h
      split at h <;> simp only [Option.some.injEq, reduceCtorEq] at h <;> subst h <;> decide

/-- a chunk of at most `maxPDU` bytes is cut into at most two fragments on the stream transport -/
theorem pieces_le_two (le : Option LE) (c : Bytes) (hc : c.length ≤ maxPDU) :
    (pieces (fragSize le) c.length c).length ≤ 2 := by
  have h1 := pieces_count (fragSize le) (fragSize_pos le) c.length c (Nat.le_refl _)
  have h2 := fragSize_ge le
  simp only [maxPDU] at hc
  cases hn : (pieces (fragSize le) c.length c).length with
  | zero => omega
  | succ n =>
    cases n with
    | zero => omega
    | succ n =>
      cases n with
      | zero => omega
      | succ n =>
        exfalso
        rw [hn] at h1
        have : 3 * fragSize le ≤ (n + 1 + 1 + 1) * fragSize le := Nat.mul_le_mul_right _ (by omega)
        omega

/-- data-bearing or close request -/
theorem run_shape (s : Sess) (ops : List Op) (hs : s.open) :
    ∃ ds tail, (run s ops).1 = ds ++ tail ∧ (∀ g ∈ ds, dataish g.kind) ∧
      (tail = [] ∨ ∃ c, tail = [c] ∧ c.kind = .closeReq) := by
  induction ops generalizing s with
  | nil => exact ⟨[], [], rfl, by simp, Or.inl rfl⟩
  | cons op ops ih =>
    cases op with
    | write lo les b =>
      obtain ⟨ds, tail, h1, h2, h3⟩ := ih _ (write_open s lo les b hs).1
      refine ⟨(write s lo les b).1 ++ ds, tail, by simp only [run, h1, List.append_assoc], ?_, h3⟩
      intro g hg
      simp only [List.mem_append] at hg
      rcases hg with hg | hg
      · rcases write_mem s lo les b g hg with ⟨e, _⟩ | ⟨e, _⟩ <;> rw [e] <;> simp [dataish]
      · exact h2 g hg
    | close =>
      have hc : s.closeRequested = false := hs.1
      have hf : closeFlushes s.st = true := by
        rcases hs.2 with h' | h' <;> simp [closeFlushes, h']
      have e : close s = ([⟨.closeReq, s.nextSend, 0, none, []⟩],
          { s with nextSend := s.nextSend + 1, closeRequested := true, st := .closed }) := by
        simp [close, hc, hf]
      refine ⟨[], [⟨.closeReq, s.nextSend, 0, none, []⟩], ?_, by simp, Or.inr ⟨_, rfl, rfl⟩⟩
      simp only [run, e]
      rw [run_closed _ ops rfl rfl]
      rfl
    | accept p =>
      obtain ⟨_, _, a3, a4, _⟩ := acceptOpen_spec s p
      obtain ⟨ds, tail, h1, h2, h3⟩ := ih _ (a4 hs)
      refine ⟨(acceptOpen s p).1 ++ ds, tail, by simp only [run, h1, List.append_assoc], ?_, h3⟩
      intro g hg
      simp only [List.mem_append] at hg
      rcases hg with hg | hg
      · rw [a3 g hg]; simp [dataish]
      · exact h2 g hg

end Mieru.TcpSession
