import Mieru.Proofs.UnderlayCloseLive
/-!
The executable steps of `Mieru.UClose` (what the driver runs, what the witnesses in Props/C15 are built
from) are steps of the transition system: a trace accepted by `runActs` ends in a reachable state.
-/
set_option linter.unusedSimpArgs false
namespace Mieru.UClose

theorem cleanableB_sound {s : St} (h : cleanableB s = true) : cleanable s := by
  intro i hi hc
  unfold cleanableB at h
  rw [List.all_eq_true] at h
  have := h i (List.mem_range.mpr hi)
  simp [hc] at this
  exact this

theorem closerNext_sound {sh : Shape} {s t : St} {k : Nat} (hk : k < s.m) (h : closerNext sh s k = some t) : OwnStep sh s t := by
  unfold closerNext at h
  split at h
  · rename_i hc
    split at h
    · rename_i hh
      cases h; exact OwnStep.lock s k hk hc hh
    · cases h
  · rename_i hc
    cases h
    by_cases hd : s.done = true
    · rw [if_pos hd]; exact OwnStep.chkDone s k hk hc hd
    · rw [if_neg hd]; exact OwnStep.chkOpen s k hk hc (by simpa using hd)
  · rename_i hc; cases h; exact OwnStep.poke1 s k hk hc
  · rename_i i b hc
    split at h
    · rename_i hi; cases h; exact OwnStep.sessClose s k i b hk hc hi
    · rename_i hi; cases h; exact OwnStep.sessEnd s k i b hk hc (by omega)
  · rename_i i b hc
    split at h
    · rename_i hi; cases h; exact OwnStep.wgWait s k i b hk hc hi.1 hi.2.1 hi.2.2.1 hi.2.2.2
    · cases h
  · rename_i hc; cases h; exact OwnStep.closeDone s k hk hc
  · rename_i hc; cases h; exact OwnStep.poke2 s k hk hc
  · rename_i hc; cases h; exact OwnStep.unlock s k hk hc
  · cases h

theorem sessNext_sound {sh : Shape} {s t : St} {i : Nat} (hi : i < s.n) (h : sessNext s i = some t) : OwnStep sh s t := by
  unfold sessNext at h
  split at h
  · rename_i hc; cases h; exact OwnStep.finClose s i hi hc.1 hc.2
  · split at h
    · rename_i hc; cases h; exact OwnStep.loopExit s i hi hc.1 hc.2
    · split at h
      · rename_i hc; cases h; exact OwnStep.netWake s i hi hc.1 hc.2
      · cases h

theorem muxNext_sound {sh : Shape} {s t : St} (h : muxNext s = some t) : OwnStep sh s t := by
  unfold muxNext at h
  split at h
  · rename_i hc; cases h; exact OwnStep.muxCancel s hc
  · rename_i hc
    split at h
    · rename_i hh; cases h; exact OwnStep.muxCall s hh.1 hc hh.2
    · cases h
  · rename_i hc
    split at h
    · rename_i hh; cases h; exact OwnStep.muxClosed s hc hh
    · cases h
  · rename_i hc
    split at h
    · rename_i hh; cases h; exact OwnStep.muxWait s hc hh
    · cases h
  · cases h

theorem loopNext_sound {sh : Shape} {s t : St} (h : loopNext sh s = some t) : OwnStep sh s t := by
  unfold loopNext at h
  split at h
  · rename_i hl
    split at h
    · rename_i hc
      cases h
      by_cases hs : s.stream = true
      · rw [if_pos hs]; exact OwnStep.topCtxStream s hl hc hs
      · rw [if_neg hs]; exact OwnStep.topCtxPacket s hl hc (by simpa using hs)
    · rename_i hc
      split at h
      · rename_i hd; cases h; exact OwnStep.topDone s hl (by simpa using hc) hd
      · rename_i hd; cases h; exact OwnStep.topRead s hl (by simpa using hc) (by simpa using hd)
  · rename_i r hl
    split at h
    · rename_i hc; cases h; exact OwnStep.cleanDone s r hl (cleanableB_sound hc)
    · cases h
  · rename_i hl
    split at h
    · rename_i hc; cases h; exact OwnStep.ctxCloseCall s hc.1 hl hc.2
    · cases h
  · rename_i a hl
    split at h
    · rename_i hc; cases h; exact OwnStep.closeReturned s a hc.1 hl hc.2
    · cases h
  · rename_i hl
    split at h
    · rename_i hd; cases h; exact OwnStep.preClosed s hl hd
    · rename_i hd; cases h; exact OwnStep.preOpen s hl (by simpa using hd)
  · rename_i hl; cases h; exact OwnStep.arm s hl
  · rename_i hl
    split at h
    · rename_i hd; cases h; exact OwnStep.checkDone s hl hd
    · rename_i hd; cases h; exact OwnStep.checkOpen s hl (by simpa using hd)
  · rename_i hl
    split at h
    · rename_i hp; cases h; exact OwnStep.readTimeout s hl hp
    · cases h
  · rename_i hl
    split at h
    · rename_i hp; cases h; exact OwnStep.readMoreTimeout s hl hp
    · cases h
  · rename_i c hl
    split at h
    · rename_i hd; cases h; exact OwnStep.errDone s c hl hd
    · rename_i hd
      split at h
      · rename_i hc
        cases h
        have hc1 : c = true := hc.1
        subst hc1
        exact OwnStep.errDrain s hl (by simpa using hd) hc.2
      · rename_i hc
        cases h
        refine OwnStep.errReturn s c hl (by simpa using hd) ?_
        by_cases hc1 : c = true
        · by_cases hs : s.stream = true
          · exact (hc ⟨hc1, hs⟩).elim
          · exact Or.inr (by simpa using hs)
        · exact Or.inl (by simpa using hc1)
  · rename_i hl; cases h; exact OwnStep.drainArm s hl
  · rename_i hl
    split at h
    · rename_i hp; cases h; exact OwnStep.drainTimeout s hl hp
    · cases h
  · rename_i i hl
    split at h
    · rename_i hc; cases h; exact OwnStep.deliverGiveUp s i hl hc
    · cases h
  · rename_i hl
    split at h
    · rename_i hd; cases h; exact OwnStep.readyGiveUp s hl hd
    · cases h
  · rename_i hl; cases h; exact OwnStep.returned s hl
  · rename_i hl
    split at h
    · rename_i hc; cases h; exact OwnStep.ownCloseCall s hc.1 hl hc.2
    · cases h
  · cases h

theorem actorNext_sound {sh : Shape} {s t : St} {a : Nat} (h : actorNext sh s a = some t) : OwnStep sh s t := by
  unfold actorNext at h
  split at h
  · exact loopNext_sound h
  · split at h
    · exact muxNext_sound h
    · split at h
      · exact closerNext_sound (by omega) h
      · split at h
        · exact sessNext_sound (by omega) h
        · cases h

end Mieru.UClose

namespace Mieru.UClose

theorem envNext_sound {s t : St} {e : EnvAct} (h : envNext s e = some t) : EnvStep s t := by
  cases e with
  | addSession => simp only [envNext, Option.some.injEq] at h; subst h; exact EnvStep.addSession s
  | sessCloseStart i =>
    simp only [envNext] at h
    split at h
    · rename_i hi; cases h; exact EnvStep.sessCloseStart s i hi
    · cases h
  | netBlock i =>
    simp only [envNext] at h
    split at h
    · rename_i hi; cases h; exact EnvStep.netBlock s i hi.1 hi.2.1 hi.2.2
    · cases h
  | netDrain i =>
    simp only [envNext] at h
    split at h
    · rename_i hi; cases h; exact EnvStep.netDrain s i hi.1 hi.2
    · cases h
  | call k =>
    simp only [envNext] at h
    split at h
    · rename_i hi; cases h; exact EnvStep.call s k hi.1 hi.2.1 hi.2.2
    · cases h
  | muxClose =>
    simp only [envNext] at h
    split at h
    · rename_i hi; cases h; exact EnvStep.muxClose s hi
    · cases h
  | cancel =>
    simp only [envNext] at h
    split at h
    · rename_i hi; cases h; exact EnvStep.cancel s hi
    · cases h
  | tick =>
    simp only [envNext] at h
    split at h
    · rename_i hi; cases h; exact EnvStep.tick s hi
    · cases h
  | readTo to =>
    simp only [envNext] at h
    split at h
    · rename_i hi
      cases h
      refine EnvStep.readTo s to hi.1 ?_
      have ok := hi.2
      cases to <;> simp [okReadTarget] at ok ⊢ <;> exact ok
    · cases h
  | drainEnds =>
    simp only [envNext] at h
    split at h
    · rename_i hi; cases h; exact EnvStep.drainEnds s hi
    · cases h
  | delivered =>
    simp only [envNext] at h
    split at h
    · rename_i i hi; cases h; exact EnvStep.delivered s i hi
    · cases h
  | accepted =>
    simp only [envNext] at h
    split at h
    · rename_i hi; cases h; exact EnvStep.accepted s hi
    · cases h

theorem runActs_reach {sh : Shape} {stream server : Bool} {m : Nat} {s t : St} (acts : List Act)
    (hs : Reach sh stream server m s) (h : runActs sh s acts = some t) : Reach sh stream server m t := by
  induction acts generalizing s with
  | nil => simp only [runActs, Option.some.injEq] at h; subst h; exact hs
  | cons a as ih =>
    simp only [runActs] at h
    split at h
    · cases h
    · rename_i u hu
      refine ih (Reach.step hs ?_) h
      cases a with
      | own a => exact Step.own (actorNext_sound hu)
      | env e => exact Step.env (envNext_sound hu)

end Mieru.UClose
