import Mieru.Proofs.UnderlayCloseLive
/-!
The executable steps of `Mieru.UClose` (what the driver runs, what the witnesses in Props/C15 are built
from) are steps of the transition system: a trace accepted by `runActs` ends in a reachable state.
-/
set_option linter.unusedSimpArgs false
namespace Mieru.UClose

theorem cleanableB_sound {s : St} (h : cleanableB s = true) : cleanable s := by
  intro i hi hc
  unfold cleanableB at h
  rw [List.all_eq_true] at h
  have := h i (List.mem_range.mpr hi)
  simp [hc] at this
  exact this

theorem closerNext_sound {sh : Shape} {s t : St} {k : Nat} (hk : k < s.m) (h : closerNext sh s k = some t) : OwnStep sh s t := by
  unfold closerNext at h
  split at h
  · rename_i hc
    split at h
    · rename_i hh
      cases h; exact OwnStep.lock s k hk hc hh
    · cases h
  · rename_i hc
    cases h
    by_cases hd : s.done = true
    · rw [if_pos hd]; exact OwnStep.chkDone s k hk hc hd
    · rw [if_neg hd]; exact OwnStep.chkOpen s k hk hc (by simpa using hd)
  · rename_i hc; cases h; exact OwnStep.poke1 s k hk hc
  · rename_i i b hc
    split at h
    · rename_i hi; cases h; exact OwnStep.sessClose s k i b hk hc hi
    · rename_i hi; cases h; exact OwnStep.sessEnd s k i b hk hc (by omega)
  · rename_i i b hc
    split at h
    · rename_i hi; cases h; exact OwnStep.wgWait s k i b hk hc hi.1 hi.2.1 hi.2.2.1 hi.2.2.2
    · cases h
  · rename_i hc; cases h; exact OwnStep.closeDone s k hk hc
  · rename_i hc; cases h; exact OwnStep.poke2 s k hk hc
  · rename_i hc; cases h; exact OwnStep.unlock s k hk hc
  · cases h

theorem sessNext_sound {sh : Shape} {s t : St} {i : Nat} (hi : i < s.n) (h : sessNext s i = some t) : OwnStep sh s t := by
  unfold sessNext at h
  split at h
  · rename_i hc; cases h; exact OwnStep.finClose s i hi hc.1 hc.2
  · split at h
    · rename_i hc; cases h; exact OwnStep.loopExit s i hi hc.1 hc.2
    · split at h
      · rename_i hc; cases h; exact OwnStep.netWake s i hi hc.1 hc.2
      · cases h

theorem muxNext_sound {sh : Shape} {s t : St} (h : muxNext s = some t) : OwnStep sh s t := by
  unfold muxNext at h
  split at h
  · rename_i hc; cases h; exact OwnStep.muxCancel s hc
  · rename_i hc
    split at h
    · rename_i hh; cases h; exact OwnStep.muxCall s hh.1 hc hh.2
    · cases h
  · rename_i hc
    split at h
    · rename_i hh; cases h; exact OwnStep.muxClosed s hc hh
    · cases h
  · rename_i hc
    split at h
    · rename_i hh; cases h; exact OwnStep.muxWait s hc hh
    · cases h
  · cases h

theorem loopNext_sound {sh : Shape} {s t : St} (h : loopNext sh s = some t) : OwnStep sh s t := by
  unfold loopNext at h
  split at h
  · rename_i hl
    split at h
    · rename_i hc
      cases h
      by_cases hs : s.stream = true
      · rw [if_pos hs]; exact OwnStep.topCtxStream s hl hc hs
      · rw [if_neg hs]; exact OwnStep.topCtxPacket s hl hc (by simpa using hs)
    · rename_i hc
      split at h
      · rename_i hd; cases h; exact OwnStep.topDone s hl (by simpa using hc) hd
      · rename_i hd; cases h; exact OwnStep.topRead s hl (by simpa using hc) (by simpa using hd)
  · rename_i r hl
    split at h
    · rename_i hc; cases h; exact OwnStep.cleanDone s r hl (cleanableB_sound hc)
    · cases h
  · rename_i hl
    split at h
    · rename_i hc; cases h; exact OwnStep.ctxCloseCall s hc.1 hl hc.2
    · cases h
  · rename_i a hl
    split at h
    · rename_i hc; cases h; exact OwnStep.closeReturned s a hc.1 hl hc.2
    · cases h
  · rename_i hl
    split at h
    · rename_i hd; cases h; exact OwnStep.preClosed s hl hd
    · rename_i hd; cases h; exact OwnStep.preOpen s hl (by simpa using hd)
  · rename_i hl; cases h; exact OwnStep.arm s hl
  · rename_i hl
    split at h
    · rename_i hd; cases h; exact OwnStep.checkDone s hl hd
    · rename_i hd; cases h; exact OwnStep.checkOpen s hl (by simpa using hd)
  · rename_i hl
    split at h
    · rename_i hp; cases h; exact OwnStep.readTimeout s hl hp
    · cases h
  · rename_i hl
    split at h
    · rename_i hp; cases h; exact OwnStep.readMoreTimeout s hl hp
    · cases h
  · rename_i c hl
    split at h
    · rename_i hd; cases h; exact OwnStep.errDone s c hl hd
    · rename_i hd
      split at h
      · rename_i hc
        cases h
        have hc1 : c = true := hc.1
        subst hc1
        exact OwnStep.errDrain s hl (by simpa using hd) hc.2
      · rename_i hc
        cases h
        refine OwnStep.errReturn s c hl (by simpa using hd) ?_
        by_cases hc1 : c = true
        · by_cases hs : s.stream = true
          · exact (hc ⟨hc1, hs⟩).elim
          · exact Or.inr (by simpa using hs)
        · exact Or.inl (by simpa using hc1)
  · rename_i hl; cases h; exact OwnStep.drainArm s hl
  · rename_i hl
    split at h
    · rename_i hp; cases h; exact OwnStep.drainTimeout s hl hp
    · cases h
  · rename_i i hl
    split at h
    · rename_i hc; cases h; exact OwnStep.deliverGiveUp s i hl hc
    · cases h
  · rename_i hl
    split at h
    · rename_i hd; cases h; exact OwnStep.readyGiveUp s hl hd
    · cases h
  · rename_i hl; cases h; exact OwnStep.returned s hl
  · rename_i hl
    split at h
    · rename_i hc; cases h; exact OwnStep.ownCloseCall s hc.1 hl hc.2
    · cases h
  · cases h

theorem actorNext_sound {sh : Shape} {s t : St} {a : Nat} (h : actorNext sh s a = some t) : OwnStep sh s t := by
  unfold actorNext at h
  split at h
  · exact loopNext_sound h
  · split at h
    · exact muxNext_sound h
    · split at h
      · exact closerNext_sound (by omega) h
      · split at h
        · exact sessNext_sound (by omega) h
        · cases h

end Mieru.UClose

namespace Mieru.UClose

theorem envNext_sound {s t : St} {e : EnvAct} (h : envNext s e = some t) : EnvStep s t := by
  cases e with
  | addSession => simp only [envNext, Option.some.injEq] at h; subst h; exact EnvStep.addSession s
  | sessCloseStart i =>
    simp only [envNext] at h
    split at h
    · rename_i hi; cases h; exact EnvStep.sessCloseStart s i hi
    · cases h
  | netBlock i =>
    simp only [envNext] at h
    split at h
    · rename_i hi; cases h; exact EnvStep.netBlock s i hi.1 hi.2.1 hi.2.2
    · cases h
  | netDrain i =>
    simp only [envNext] at h
    split at h
    · rename_i hi; cases h; exact EnvStep.netDrain s i hi.1 hi.2
    · cases h
  | call k =>
    simp only [envNext] at h
    split at h
    · rename_i hi; cases h; exact EnvStep.call s k hi.1 hi.2.1 hi.2.2
    · cases h
  | muxClose =>
    simp only [envNext] at h
    split at h
    · rename_i hi; cases h; exact EnvStep.muxClose s hi
    · cases h
  | cancel =>
    simp only [envNext] at h
    split at h
    · rename_i hi; cases h; exact EnvStep.cancel s hi
    · cases h
  | tick =>
    simp only [envNext] at h
    split at h
    · rename_i hi; cases h; exact EnvStep.tick s hi
    · cases h
  | readTo to =>
    simp only [envNext] at h
    split at h
    · rename_i hi
      cases h
      refine EnvStep.readTo s to hi.1 ?_
      have ok := hi.2
      cases to <;> simp [okReadTarget] at ok ⊢ <;> exact ok
    · cases h
  | drainEnds =>
    simp only [envNext] at h
    split at h
    · rename_i hi; cases h; exact EnvStep.drainEnds s hi
    · cases h
  | delivered =>
    simp only [envNext] at h
    split at h
    · rename_i i hi; cases h; exact EnvStep.delivered s i hi
    · cases h
  | accepted =>
    simp only [envNext] at h
    split at h
    · rename_i hi; cases h; exact EnvStep.accepted s hi
    · cases h

theorem runActs_reach {sh : Shape} {stream server : Bool} {m : Nat} {s t : St} (acts : List Act)
    (hs : Reach sh stream server m s) (h : runActs sh s acts = some t) : Reach sh stream server m t := by
  induction acts generalizing s with
  | nil => simp only [runActs, Option.some.injEq] at h; subst h; exact hs
  | cons a as ih =>
    simp only [runActs] at h
    split at h
    · cases h
    · rename_i u hu
      refine ih (Reach.step hs ?_) h
      cases a with
      | own a => exact Step.own (actorNext_sound hu)
      | env e => exact Step.env (envNext_sound hu)

end Mieru.UClose

namespace Mieru.UClose
open Act EnvAct

/-- a state in which the event loop is parked in a read under a deadline that is not in the past,
    every caller of Close is idle or has returned, Mux.Close is at most waiting for the loop of a
    server, and there are no sessions: nothing can move -/
theorem parked_quiescent (sh : Shape) (s : St)
    (hl : s.loop = .read ∨ s.loop = .readMore ∨ s.loop = .drain) (hdl : s.dl ≠ .past)
    (hmux : s.mux = .idle ∨ s.mux = .ret ∨ (s.mux = .wait ∧ s.server = true))
    (hcl : ∀ k, k < s.m → s.cl k = .idle ∨ s.cl k = .ret) (hn : s.n = 0) : Quiescent sh s := by
  intro t st
  cases st with
  | finClose i hi _ _ => omega
  | loopExit i hi _ _ => omega
  | netWake i hi _ _ => omega
  | lock k hk h _ => rcases hcl k hk with e | e <;> rw [e] at h <;> cases h
  | chkDone k hk h _ => rcases hcl k hk with e | e <;> rw [e] at h <;> cases h
  | chkOpen k hk h _ => rcases hcl k hk with e | e <;> rw [e] at h <;> cases h
  | poke1 k hk h => rcases hcl k hk with e | e <;> rw [e] at h <;> cases h
  | sessClose k i b hk h _ => rcases hcl k hk with e | e <;> rw [e] at h <;> cases h
  | sessEnd k i b hk h _ => rcases hcl k hk with e | e <;> rw [e] at h <;> cases h
  | wgWait k i b hk h _ _ _ _ => rcases hcl k hk with e | e <;> rw [e] at h <;> cases h
  | closeDone k hk h => rcases hcl k hk with e | e <;> rw [e] at h <;> cases h
  | poke2 k hk h => rcases hcl k hk with e | e <;> rw [e] at h <;> cases h
  | unlock k hk h => rcases hcl k hk with e | e <;> rw [e] at h <;> cases h
  | muxCancel h => rcases hmux with e | e | ⟨e, _⟩ <;> rw [e] at h <;> cases h
  | muxCall _ h _ => rcases hmux with e | e | ⟨e, _⟩ <;> rw [e] at h <;> cases h
  | muxClosed h _ => rcases hmux with e | e | ⟨e, _⟩ <;> rw [e] at h <;> cases h
  | muxWait h hx =>
    rcases hmux with e | e | ⟨_, e⟩
    · rw [e] at h; cases h
    · rw [e] at h; cases h
    · rcases hx with hx | hx
      · rw [e] at hx; cases hx
      · rcases hl with e | e | e <;> rw [e] at hx <;> cases hx
  | readTimeout h hp => exact hdl hp
  | readMoreTimeout h hp => exact hdl hp
  | drainTimeout h hp => exact hdl hp
  | _ => rcases hl with e | e | e <;> simp_all

end Mieru.UClose

namespace Mieru.UClose
open Act EnvAct

/-- what a counterexample trace ends in: a reachable state in which nothing can move although Close
    has been called and has closed `done`, with the event loop parked in a read -/
structure ParkedWitness (sh : Shape) (stream server : Bool) (m : Nat) (s : St) : Prop where
  reach : Reach sh stream server m s
  quiet : Quiescent sh s
  done : s.done = true
  parked : s.loop = .read ∨ s.loop = .readMore ∨ s.loop = .drain
  armed : s.dl = .future

/-- a trace accepted by `runActs` whose final state has the listed components is a witness -/
theorem witness_of_trace (sh : Shape) (stream server : Bool) (m : Nat) (acts : List Act) (t : St)
    (hrun : runActs sh (init stream server m) acts = some t)
    (hl : t.loop = .read ∨ t.loop = .readMore ∨ t.loop = .drain) (hdl : t.dl = .future) (hd : t.done = true)
    (hmux : t.mux = .idle ∨ t.mux = .ret ∨ (t.mux = .wait ∧ t.server = true))
    (hcl : ∀ k, k < m → t.cl k = .idle ∨ t.cl k = .ret) (hn : t.n = 0) : ParkedWitness sh stream server m t := by
  have hr := runActs_reach acts Reach.init hrun
  have hm := (reach_inv hr).m
  exact ⟨hr, parked_quiescent sh t hl (by rw [hdl]; simp) hmux (by rw [hm]; exact hcl) hn, hd, hl, hdl⟩

theorem callers_le3 {t : St} {m : Nat} (hm : m ≤ 3) (h0 : t.cl 0 = .idle ∨ t.cl 0 = .ret) (h1 : t.cl 1 = .idle ∨ t.cl 1 = .ret)
    (h2 : t.cl 2 = .idle ∨ t.cl 2 = .ret) : ∀ k, k < m → t.cl k = .idle ∨ t.cl k = .ret := by
  intro k hk
  match k with
  | 0 => exact h0
  | 1 => exact h1
  | 2 => exact h2
  | k + 3 => omega

/-- `drainAfterError` without the check (the code before this round's `fix:`): a stranger's bytes do not
    decrypt, the loop is about to arm the drain deadline, the server's Mux.Close runs to completion, the
    loop arms and parks; Mux.Close waits for it -/
def drainTrace : List Act := [own 0, own 0, own 0, env (readTo (.errc true)), own 0, env muxClose, own 1, own 1,
  own 3, own 3, own 3, own 3, own 3, own 3, own 3, own 1, own 0]

theorem drain_witness : ∃ s, ParkedWitness ⟨true, true, false⟩ true true 2 s ∧ s.loop = .drain ∧ s.mux = .wait ∧ s.poked2 = true := by
  match h : runActs ⟨true, true, false⟩ (init true true 2) drainTrace with
  | none => exact absurd h (by decide)
  | some t =>
    have e : (runActs ⟨true, true, false⟩ (init true true 2) drainTrace).map sig =
        some ⟨.drain, .future, true, .wait, true, 0, true, false, .idle, .ret, .idle⟩ := by decide
    rw [h] at e
    simp only [Option.map_some, Option.some.injEq, sig, Sig.mk.injEq] at e
    obtain ⟨e1, e2, e3, e4, e5, e6, e7, _, e9, e10, e11⟩ := e
    exact ⟨t, witness_of_trace _ _ _ _ drainTrace t h (Or.inr (Or.inr e1)) e2 e3 (Or.inr (Or.inr ⟨e4, e5⟩))
      (callers_le3 (by omega) (Or.inl e9) (Or.inr e10) (Or.inl e11)) e6, e1, e4, e7⟩

/-- no check after arming (seeded change C15-1, and the code before `fix: underlay Close wakes the event
    loop again…`): a packet client's loop has polled `done` and is about to arm; Close runs to completion
    (both wake-ups); the loop arms and parks -/
def armTrace : List Act := [own 0, own 0, env (call 2), own 4, own 4, own 4, own 4, own 4, own 4, own 4, own 0]

theorem arm_witness : ∃ s, ParkedWitness ⟨false, true, true⟩ false false 3 s ∧ s.loop = .read ∧ s.poked2 = true := by
  match h : runActs ⟨false, true, true⟩ (init false false 3) armTrace with
  | none => exact absurd h (by decide)
  | some t =>
    have e : (runActs ⟨false, true, true⟩ (init false false 3) armTrace).map sig =
        some ⟨.read, .future, true, .idle, false, 0, true, false, .idle, .idle, .ret⟩ := by decide
    rw [h] at e
    simp only [Option.map_some, Option.some.injEq, sig, Sig.mk.injEq] at e
    obtain ⟨e1, e2, e3, e4, e5, e6, e7, _, e9, e10, e11⟩ := e
    exact ⟨t, witness_of_trace _ _ _ _ armTrace t h (Or.inl e1) e2 e3 (Or.inl e4)
      (callers_le3 (by omega) (Or.inl e9) (Or.inl e10) (Or.inr e11)) e6, e1, e7⟩

/-- the only wake-up comes before `done` is closed (the code before `fix: underlay Close wakes the event
    loop again after done is closed`, finding F-C15b): the woken loop goes round, arms again and parks
    while Close is still closing -/
def pokeTrace : List Act := [own 0, own 0, own 0, own 0, env (call 2), own 4, own 4, own 4, own 0, own 0, own 0, own 0, own 0,
  own 4, own 4, own 4]

theorem poke_witness : ∃ s, ParkedWitness ⟨true, false, true⟩ false false 3 s ∧ s.loop = .read := by
  match h : runActs ⟨true, false, true⟩ (init false false 3) pokeTrace with
  | none => exact absurd h (by decide)
  | some t =>
    have e : (runActs ⟨true, false, true⟩ (init false false 3) pokeTrace).map sig =
        some ⟨.read, .future, true, .idle, false, 0, false, false, .idle, .idle, .ret⟩ := by decide
    rw [h] at e
    simp only [Option.map_some, Option.some.injEq, sig, Sig.mk.injEq] at e
    obtain ⟨e1, e2, e3, e4, e5, e6, _, _, e9, e10, e11⟩ := e
    exact ⟨t, witness_of_trace _ _ _ _ pokeTrace t h (Or.inl e1) e2 e3 (Or.inl e4)
      (callers_le3 (by omega) (Or.inl e9) (Or.inl e10) (Or.inr e11)) e6, e1⟩

/-- the current shape on the same three schedules: the loop leaves -/
example : (runActs current (init true true 2) drainTrace).map sig = some ⟨.retn, .future, true, .wait, true, 0, true, false, .idle, .ret, .idle⟩ := by decide

end Mieru.UClose

namespace Mieru.UClose
open Act EnvAct

/-- a state in which the event loop has left, every caller of Close is idle or has returned, Mux.Close is
    idle or has returned and every session is closed with its loops gone: nothing can move -/
theorem settled_quiescent (sh : Shape) (s : St) (hl : s.loop = .exited)
    (hmux : s.mux = .idle ∨ s.mux = .ret) (hcl : ∀ k, k < s.m → s.cl k = .idle ∨ s.cl k = .ret)
    (hs : ∀ i, i < s.n → gone s.closed s.run s.net i) : Quiescent sh s := by
  intro t st
  cases st with
  | finClose i hi _ hc => rw [(hs i hi).1] at hc; cases hc
  | loopExit i hi _ hr => have := (hs i hi).2.1; omega
  | netWake i hi hn _ => have := (hs i hi).2.2; omega
  | lock k hk h _ => rcases hcl k hk with e | e <;> rw [e] at h <;> cases h
  | chkDone k hk h _ => rcases hcl k hk with e | e <;> rw [e] at h <;> cases h
  | chkOpen k hk h _ => rcases hcl k hk with e | e <;> rw [e] at h <;> cases h
  | poke1 k hk h => rcases hcl k hk with e | e <;> rw [e] at h <;> cases h
  | sessClose k i b hk h _ => rcases hcl k hk with e | e <;> rw [e] at h <;> cases h
  | sessEnd k i b hk h _ => rcases hcl k hk with e | e <;> rw [e] at h <;> cases h
  | wgWait k i b hk h _ _ _ _ => rcases hcl k hk with e | e <;> rw [e] at h <;> cases h
  | closeDone k hk h => rcases hcl k hk with e | e <;> rw [e] at h <;> cases h
  | poke2 k hk h => rcases hcl k hk with e | e <;> rw [e] at h <;> cases h
  | unlock k hk h => rcases hcl k hk with e | e <;> rw [e] at h <;> cases h
  | muxCancel h => rcases hmux with e | e <;> rw [e] at h <;> cases h
  | muxCall _ h _ => rcases hmux with e | e <;> rw [e] at h <;> cases h
  | muxClosed h _ => rcases hmux with e | e <;> rw [e] at h <;> cases h
  | muxWait h hx => rcases hmux with e | e <;> rw [e] at h <;> cases h
  | _ => simp_all

/-- a server's stream underlay with two sessions (one of them with a loop blocked in a network write, the
    other being closed by its application at the same time), the event loop parked in a read, then
    `Mux.Close`: every actor runs to the end -/
def fullTrace : List Act := [env addSession, env addSession, own 0, own 0, own 0, env (netBlock 0), env (sessCloseStart 1),
  env muxClose, own 1, own 1, own 3, own 3, own 3,
  -- the loop is woken by the first poke, sees the cancelled context, cleans, returns, calls Close itself
  own 0, own 0,
  own 3, own 4, own 4, own 4, own 4, own 3, own 3, own 5, own 5, own 5, own 3, own 3, own 3, own 3, own 3,
  own 0, own 0, own 0, own 2, own 2, own 2, own 0, own 1, own 1]


/-- the sessions' part of a state with two sessions -/
def sess2 (s : St) : List (Bool × Bool × Nat × Nat) := [(s.req 0, s.closed 0, s.run 0, s.net 0), (s.req 1, s.closed 1, s.run 1, s.net 1)]

theorem full_run_witness : ∃ s, Reach current true true 2 s ∧ s.mux ≠ .idle ∧ Quiescent current s ∧ s.n = 2 ∧ s.mux = .ret := by
  match h : runActs current (init true true 2) fullTrace with
  | none => exact absurd h (by decide)
  | some t =>
    have e : (runActs current (init true true 2) fullTrace).map sig =
        some ⟨.exited, .past, true, .ret, true, 2, true, true, .idle, .ret, .idle⟩ := by decide
    have e' : (runActs current (init true true 2) fullTrace).map sess2 = some [(true, true, 0, 0), (true, true, 0, 0)] := by decide
    rw [h] at e e'
    simp only [Option.map_some, Option.some.injEq, sig, Sig.mk.injEq] at e
    simp only [Option.map_some, Option.some.injEq, sess2, List.cons.injEq, Prod.mk.injEq, and_true] at e'
    obtain ⟨e1, _, _, e4, _, e6, _, _, e9, e10, e11⟩ := e
    obtain ⟨⟨_, a2, a3, a4⟩, _, b2, b3, b4⟩ := e'
    have hr := runActs_reach fullTrace Reach.init h
    have hm := (reach_inv hr).m
    refine ⟨t, hr, by rw [e4]; simp, ?_, e6, e4⟩
    refine settled_quiescent current t e1 (Or.inr e4) (by rw [hm]; exact callers_le3 (by omega) (Or.inl e9) (Or.inr e10) (Or.inl e11)) ?_
    intro i hi
    rw [e6] at hi
    match i with
    | 0 => exact ⟨a2, a3, a4⟩
    | 1 => exact ⟨b2, b3, b4⟩
    | i + 2 => omega

end Mieru.UClose
