import Mieru.Model.Duplex
import Mieru.Proofs.Arq
/-!
# Lemmas about the coupled open handshake (helper file for Props/C02)
-/
namespace Mieru.Duplex
open Mieru.Arq

theorem reach_components {W : Nat} {d : St} (h : Reach W d) : Arq.Reach W d.c ∧ Arq.Reach W d.s := by
  induction h with
  | init => exact ⟨Arq.Reach.init, Arq.Reach.init⟩
  | step _ st ih =>
    cases st with
    | cStep c' hs _ => exact ⟨Arq.Reach.step ih.1 hs, ih.2⟩
    | sStep s' hs _ => exact ⟨ih.1, Arq.Reach.step ih.2 hs⟩

theorem steps_trans {W : Nat} {d e f : St} (a : Steps W d e) (b : Steps W e f) : Steps W d f := by
  induction a with
  | refl => exact b
  | cons st _ ih => exact Steps.cons st (ih b)

theorem reach_steps {W : Nat} {d e : St} (h : Reach W d) (st : Steps W d e) : Reach W e := by
  induction st with
  | refl => exact h
  | cons a _ ih => exact ih (Reach.step h a)

/-- once established, every run of the client→server direction is a run of the coupled system -/
theorem lift_c_established {W : Nat} {a a' : Arq.St} (st : Arq.Steps W a a') :
    ∀ (s : Arq.St), 1 ≤ s.nextRecv → Steps W ⟨a, s⟩ ⟨a', s⟩ := by
  induction st with
  | refl => intro s _; exact Steps.refl _
  | cons h _ ih =>
    intro s hs
    exact Steps.cons (Step.cStep ⟨_, s⟩ _ h (fun _ _ => hs)) (ih s hs)

/-- a run of the server→client direction that queues nothing new is a run of the coupled system -/
theorem lift_s_nowrite {W : Nat} {b b' : Arq.St} (st : Arq.Steps W b b') :
    ∀ (c : Arq.St), 1 ≤ c.nextRecv → Steps W ⟨c, b⟩ ⟨c, b'⟩ := by
  induction st with
  | refl => intro c _; exact Steps.refl _
  | cons h _ ih =>
    intro c hc
    exact Steps.cons (Step.sStep ⟨c, _⟩ _ h (fun _ => hc)) (ih c hc)

/-- Delivery of segment 0 of a direction whose receiver is still at 0, in two steps: retransmit it
    if it was already sent, otherwise send it for the first time (the window is open: nothing is
    outstanding); then the network delivers it. Nothing is queued and no segment numbered ≥ 1 is
    transmitted for the first time. -/
theorem zero_run {W : Nat} (hW : 0 < W) {a : Arq.St} (h : Arq.Reach W a) (h0 : a.nextRecv = 0) (hne : a.segs ≠ []) :
    ∃ m a', Arq.Step W a m ∧ Arq.Step W m a' ∧ 1 ≤ a'.nextRecv ∧
      m.segs = a.segs ∧ a'.segs = a.segs ∧ (a.qLo < m.qLo → a.qLo = 0) ∧ a'.qLo = m.qLo := by
  have inv := reach_inv h
  obtain ⟨h1, h2, h3⟩ := inv.order
  have hlen : 0 < a.segs.length := List.length_pos_iff.mpr hne
  have hget : ∃ p, a.segs[0]? = some p := ⟨a.segs[0], by simp [hlen]⟩
  obtain ⟨p, hp⟩ := hget
  by_cases hq : 0 < a.qLo
  · let s1 : Arq.St := { a with netData := ⟨0, p⟩ :: a.netData, sent := ⟨0, p⟩ :: a.sent }
    have st1 : Arq.Step W a s1 := Arq.Step.retransmit a 0 p ⟨by omega, hq⟩ hp
    have st2 : Arq.Step W s1 (recv s1 ⟨s1.nextRecv, p⟩) := Arq.Step.recvData s1 ⟨s1.nextRecv, p⟩ (by simp [s1, h0])
    refine ⟨s1, _, st1, st2, ?_, rfl, ?_, ?_, ?_⟩
    · have := recv_advances s1 p
      have hn1 : s1.nextRecv = 0 := h0
      omega
    · unfold recv; rw [(drain_mono _ _).2.1]
    · intro hlt; simp [s1] at hlt
    · unfold recv; rw [(drain_mono _ _).2.2.1]
  · have hq0 : a.qLo = 0 := by omega
    have hlo : a.lo = 0 := by omega
    have hp' : a.segs[a.qLo]? = some p := by rw [hq0]; exact hp
    let s3 : Arq.St := { a with qLo := a.qLo + 1, netData := ⟨a.qLo, p⟩ :: a.netData, sent := ⟨a.qLo, p⟩ :: a.sent }
    have st3 : Arq.Step W a s3 := Arq.Step.sendNew a p hp' (by rw [hq0, hlo]; simpa using hW)
    have st4 : Arq.Step W s3 (recv s3 ⟨s3.nextRecv, p⟩) := Arq.Step.recvData s3 ⟨s3.nextRecv, p⟩ (by simp [s3, h0, hq0])
    refine ⟨s3, _, st3, st4, ?_, rfl, ?_, fun _ => hq0, ?_⟩
    · have := recv_advances s3 p
      have hn3 : s3.nextRecv = 0 := h0
      omega
    · unfold recv; rw [(drain_mono _ _).2.1]
    · unfold recv; rw [(drain_mono _ _).2.2.1]

/-- The open request gets through: whatever was lost so far, finitely many protocol steps deliver
    the client's segment 0 to the server. -/
theorem open_request_delivered {W : Nat} (hW : 0 < W) {d : St} (h : Reach W d)
    (h0 : d.c.nextRecv = 0) (hne : d.c.segs ≠ []) :
    ∃ e, Steps W d e ∧ serverHasSession e ∧ e.s = d.s ∧ e.c.segs = d.c.segs := by
  obtain ⟨m, a', st1, st2, hadv, hm, ha, hq, hq2⟩ := zero_run hW (reach_components h).1 h0 hne
  have s1 : Step W d { d with c := m } := Step.cStep d m st1 (fun hlt hge => by have := hq hlt; omega)
  have s2 : Step W { d with c := m } { d with c := a' } :=
    Step.cStep { d with c := m } a' st2 (fun hlt _ => by simp at hlt; omega)
  exact ⟨{ d with c := a' }, Steps.cons s1 (Steps.cons s2 (Steps.refl _)), hadv, rfl, ha⟩

/-- The open response gets through: once the server has the session it queues the response (if it
    has not yet) and finitely many steps deliver it to the client. -/
theorem open_response_delivered {W : Nat} (hW : 0 < W) {d : St} (h : Reach W d)
    (hs : serverHasSession d) (h0 : d.s.nextRecv = 0) :
    ∃ e, Steps W d e ∧ established e ∧ e.c = d.c := by
  -- queue the response if necessary
  have key : ∀ d : St, Reach W d → serverHasSession d → d.s.nextRecv = 0 → d.s.segs ≠ [] →
      ∃ e, Steps W d e ∧ established e ∧ e.c = d.c := by
    intro d h hs h0 hne
    obtain ⟨m, a', st1, st2, hadv, hm, ha, hq, hq2⟩ := zero_run hW (reach_components h).2 h0 hne
    have s1 : Step W d { d with s := m } := Step.sStep d m st1 (fun hlt => by rw [hm] at hlt; omega)
    have s2 : Step W { d with s := m } { d with s := a' } :=
      Step.sStep { d with s := m } a' st2 (fun hlt => by simp at hlt; rw [ha, hm] at hlt; omega)
    exact ⟨{ d with s := a' }, Steps.cons s1 (Steps.cons s2 (Steps.refl _)), hadv, rfl⟩
  by_cases hne : d.s.segs = []
  · let d1 : St := { d with s := { d.s with segs := d.s.segs ++ [0] } }
    have w : Step W d d1 := Step.sStep d _ (Arq.Step.write d.s 0) (fun _ => hs)
    obtain ⟨e, st, he, hc⟩ := key d1 (Reach.step h w) hs h0 (by simp [d1])
    exact ⟨e, Steps.cons w st, he, hc⟩
  · exact key d h hs h0 hne

end Mieru.Duplex
